#!/bin/sh
# Runs the given checks (quick tier) against a scratch copy of /repo with a seeded change applied.
# usage: tools/seedcheck.sh <seed-dir-with-patch.diff> <id>...   (prints verdict lines; evidence files are restored)
set -e
sd=$1; shift
scr=/dev/shm/seedrepo-$$
rm -rf $scr; cp -r /repo $scr; rm -rf $scr/.git/worktrees
(cd $scr && git apply "$sd/patch.diff") || { echo "PATCH DOES NOT APPLY"; rm -rf $scr; exit 3; }
for p in "$@"; do
  VERIF_REPO=$scr ./check "$p" --tier quick --hist 2>&1 | grep -av "^KNOWN-FINDING" | cut -c1-400 | tail -8
  git checkout -q evidence/$p.json 2>/dev/null || true
done
rm -rf $scr
