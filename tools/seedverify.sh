#!/bin/sh
# Confirms a seeded change in a scratch worktree of /repo: the demonstration passes
# without the patch and fails with it, and the tree builds with it.
# usage: tools/seedverify.sh <seed-dir> <demo-file> <dest-dir-in-repo> <go-test-pkg> <run-regexp>
set -e
sd=$1; demo=$2; dest=$3; pkg=$4; pat=$5
export GOFLAGS=-mod=mod GOPROXY=off GOSUMDB=off GOTOOLCHAIN=local
wt=/tmp/vseed-$$
git -C /repo worktree add -q --detach $wt HEAD
trap 'git -C /repo worktree remove --force '$wt'; git -C /repo worktree prune' EXIT
cd $wt
git apply --check "$sd/patch.diff"
mkdir -p "$dest"; cp "$sd/$demo" "$dest/"
if go1.26.8 test -count=1 $SEEDTAGS -run "$pat" "$pkg" >/tmp/vseed-$$.log 2>&1; then echo "WITHOUT patch: demo PASS"; else echo "WITHOUT patch: demo FAIL (unexpected)"; tail -20 /tmp/vseed-$$.log; fi
git apply "$sd/patch.diff"
go1.26.8 build ./... && echo "WITH patch: build ok"
if go1.26.8 test -count=1 $SEEDTAGS -run "$pat" "$pkg" >/tmp/vseed-$$.log 2>&1; then echo "WITH patch: demo PASS (unexpected)"; else echo "WITH patch: demo FAIL"; grep -a "FAIL\|Error\|want" /tmp/vseed-$$.log | head -6; fi
rm -f /tmp/vseed-$$.log
