#!/bin/sh
# usage: tools/myrun.sh <prop> <seed> <budget> [workers]  -- runs /tmp/dbsim_mine.test like ./check does, prints violation keys
p=$1; s=$2; b=$3; w=${4:-8}
d=/dev/shm/myrun-$$; mkdir -p $d
for i in $(seq 0 $((w-1))); do
  GOMAXPROCS=2 /tmp/dbsim_mine.test -test.run '^TestVerif$' -test.timeout 0 -test.cpu 2 -verif.prop $p -verif.seed $s -verif.from $i -verif.stride $w -verif.budget $b -verif.known /verif/known_findings.json -verif.replaydir /tmp/myrep -verif.out $d/w$i.jsonl -verif.scratch $d/fs$i > $d/w$i.log 2>&1 &
done
wait
python3 - $d <<'PY'
import json,sys,glob,collections
h=collections.Counter(); runs=0; nt=0
for f in glob.glob(sys.argv[1]+'/w*.jsonl'):
    for l in open(f, errors='replace'):
        try: j=json.loads(l)
        except: continue
        if j.get('t')=='viol': h[j['key']]+=1
        if j.get('t')=='summary': runs+=j['runs']; nt+=len(j.get('nontrivial_hashes') or [])
for k,n in h.most_common(30): print('%5d  %s'%(n,k))
print('runs',runs,'nontrivial',nt)
PY
grep -al "^panic\|WATCHDOG" $d/*.log 2>/dev/null | head -3
rm -rf $d/fs*
echo "logs in $d"
