#!/bin/sh
# Soak: run the given checks with a larger per-worker budget and several seeds; print only verdict lines.
# usage: tools/soak.sh <budget-seconds> <seed> <id>...
b=$1; s=$2; shift 2
for p in "$@"; do
  ./check "$p" --tier thorough --budget "$b" --seed "$s" --hist 2>&1 | grep -av "^KNOWN-FINDING" | cut -c1-600 | tail -25
done
