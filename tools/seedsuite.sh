#!/bin/sh
# Runs the repository's whole test suite (guard off) on a scratch worktree of /repo with a seeded change applied.
# usage: tools/seedsuite.sh <seed-dir>   -> prints the failing packages/tests (nothing = suite passes)
sd=$1
wt=/tmp/vsuite-$$
git -C /repo worktree add -q --detach $wt HEAD || exit 3
trap 'git -C /repo worktree remove --force '$wt'; git -C /repo worktree prune' EXIT
cd $wt && git apply "$sd/patch.diff" || exit 3
# default toolchain resolution (GOTOOLCHAIN=auto -> cached go1.26.0), as the pinned baseline does
env -u GOTOOLCHAIN -u GOSUMDB GOFLAGS=-mod=mod go test -vet=off -count=1 -timeout 25m ./... 2>&1 | grep -a "^--- FAIL\|^FAIL\|^panic" | head -20
echo "suite done for $sd"
