#!/bin/sh
# Dev aid: build the dbsim engine without in-progress perco_* files of another engineer.
set -e
cd /verif
rm -rf harness/zz_dbsim_mine && mkdir -p harness/zz_dbsim_mine
for f in harness/dbsim/*_test.go; do case "$f" in *perco*) ;; *) cp "$f" harness/zz_dbsim_mine/;; esac; done
MF=""
if [ -n "$MYREPO" ]; then sed "s#=> /repo#=> $MYREPO#" go.mod > /tmp/my.mod; cp go.sum /tmp/my.sum; MF="-modfile=/tmp/my.mod"; fi
GOFLAGS=-mod=mod GOPROXY=off GOSUMDB=off GOTOOLCHAIN=local go1.26.8 test -c -tags verif $MF -o /tmp/dbsim_mine.test ./harness/zz_dbsim_mine
rm -rf harness/zz_dbsim_mine
