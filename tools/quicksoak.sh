#!/bin/sh
# Runs the quick tier of the given checks (default: all) with a longer budget: the quick tier is
# time-budgeted, so an idle or faster machine reaches run indices a loaded one does not.
# usage: tools/quicksoak.sh <budget-seconds> [ids...]
b=$1; shift
ids="$@"
[ -z "$ids" ] && ids=$(python3 -c "import json;print(' '.join(c['property_id'] for c in json.load(open('MANIFEST.json'))['checks']))")
for p in $ids; do
  ./check "$p" --tier quick --budget "$b" 2>&1 | grep -av "^KNOWN-FINDING" | grep -a "VIOLATION\|quick:\|class=" -A1 | cut -c1-500 | tail -9
done
