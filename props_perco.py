"""Percolator checks C17, C18, C19 of engine E1 "dbsim" (harness/dbsim/perco_*_test.go)."""

PERCO_ASSUME = [
    "process-crash model: kernel-held file contents survive, user-space buffers are lost; power loss is not modelled",
    "mode S: one synchronous client (the bubble's root goroutine) issues the requests through raftstore/kv.Apply; the flush worker is parked and background compaction is disabled, so every rotation, flush, compaction and reopen happens exactly where the case places it",
    "a clean batch is evidence, not proof: bounds are small (<= 4 keys, <= 6 transactions, <= 80 steps per run, timestamps from a pool of 12 values)",
    "requests of one transaction always carry that transaction's own start/commit timestamps and mutations (no two transactions share a timestamp; lock_ts of CheckTxnStatus is always some transaction's start timestamp); value-log GC steps only in the labelled swarm dimension gc=1 (1 run in 16)",
]

_COMMON_RULE = ("case = seeded history of PREWRITE/COMMIT/BATCH_ROLLBACK/RESOLVE_LOCK/CHECK_TXN_STATUS/GET/SCAN requests "
                "(client scripts of 2-6 transactions over 1-4 keys interleaved with re-sent duplicates and out-of-protocol "
                "'rogue' requests) + maintenance steps (rotate, flush, every compaction kind, reopen; gc only when gc=1) + "
                "configuration swarm; every request is executed by the real raftstore/kv.Apply and its response class is "
                "compared with a reference Percolator model where the statement determines it; after EVERY step every key's "
                "lock (percolator.Reader.GetLock) and GET + SCAN at every timestamp mentioned so far, its predecessor and "
                "2^64-1 are compared with the model; distinct = distinct event-trace hash; non-trivial = at least one key "
                "was committed and at least one flush or clean reopen happened")

PROPS_ADD = {
    "C17": {
        "engine": "dbsim", "level": "exploration", "budget": {"quick": 25, "thorough": 600},
        "title": "Transactional reads return the newest committed value visible at their timestamp",
        "technique": "deterministic simulation: seeded Percolator histories (aborted, lock-only, delete and put transactions, duplicates) through the real kv.Apply on a real DB with maintenance placed between requests, checked against an executable reference Percolator at every probe timestamp",
        "rule": _COMMON_RULE + "; C17 reports: GET/SCAN blocked iff the model holds a lock with start <= t (judged against the lock the engine itself reports: lock-view divergences are C19's), otherwise the newest committed put/delete with commit <= t skipping rollback and lock-only records, SCAN = GET key by key",
        "level_text": "Seeded search over multi-transaction histories x maintenance placement x configuration with an executable reference model written from the statements of C17-C19 only; sampling is the right level for a property quantified over all histories and schedules.",
        "note": "Trusted: the reference model (perco_model_test.go), the verif-tag maintenance accessors. Not asserted: which error a refused request gets, conservative write-conflicts, empty values.",
        "design_ref": "7/C17", "assumptions": PERCO_ASSUME,
    },
    "C18": {
        "engine": "dbsim", "level": "exploration", "budget": {"quick": 25, "thorough": 600},
        "title": "A distributed transaction's outcome is unique, final and conflict-free",
        "technique": "deterministic simulation: the C17 histories biased to commits after a foreign rollback, rollbacks after commit, every request re-sent later, requests after lock expiry and overlapping [start, commit] intervals on shared keys",
        "rule": _COMMON_RULE + "; C18 reports: COMMIT answered OK for a key that carries the transaction's rollback record (or that the transaction neither locks nor committed); an exactly repeated request, or a rollback of keys already committed, after which any lock or any read at any probe timestamp differs from before; two transactions with put/delete on a common key and overlapping [start, commit] both committed",
        "level_text": "Seeded search over request orderings (including duplicates and late requests) with an executable reference model; sampling is the right level for a property over all orderings.",
        "note": "Trusted: as C17. Scoped per key: the statement's 'any key of a transaction' / 'primary committed' clauses are asserted for the keys named in the request (a storage node cannot see other regions; cross-key discipline is the client's), see PERCO_NOTES.md.",
        "design_ref": "7/C18", "assumptions": PERCO_ASSUME,
    },
    "C19": {
        "engine": "dbsim", "level": "exploration", "budget": {"quick": 25, "thorough": 600},
        "title": "Locks live exactly from prewrite until commit or rollback",
        "technique": "deterministic simulation: the C17 histories with dense rotation/flush/compaction placement between lock set, min-commit push and lock removal (all stored at version 2^64-1), TTL and caller timestamps around the expiry boundary",
        "rule": _COMMON_RULE + "; C19 reports: GetLock / lock errors differ from the model lock (lost, reappeared, phantom, replaced, stale fields) with the location of the expected and the returned lock-column copy; prewrite succeeding over a foreign lock or after the transaction finished on that key; CheckTxnStatus action TTLExpireRollback with current_ts < lock.ts + ttl or ttl = 0; COMMIT/RESOLVE accepted below the lock's min-commit timestamp",
        "level_text": "Seeded search over lock set/update/remove sequences x maintenance placement with an executable reference model; sampling is the right level for a property over all placements.",
        "note": "Trusted: as C17; the min-commit push rule (max(old, caller_start_ts+1) on an unexpired lock) is the protocol's and is modelled, not adopted from the engine.",
        "design_ref": "7/C19", "assumptions": PERCO_ASSUME,
    },
}
