"""Registry entries of engine storesim (C24, C25: one real store; C26: PD service)."""

ENGINES_ADD = {
    "storesim": {
        "pkg": "./harness/storesim",
        "kind": "E4 (single store): one real NoKV.DB + raftstore store.Store + single-voter peers on engine.WALStorage (etcd raft RawNode) "
                "in a synctest bubble on SimFS, ticks issued by the harness; and pd/server.Service + pd/core.Cluster + pd/storage.LocalStore on SimFS",
        "real": ["NoKV.DB (WAL, manifest, LSM, commit pipeline)", "raftstore/store.Store (region manager, admin service, command service, command pipeline, router)",
                 "raftstore/peer.Peer + etcd raft RawNode (single voter)", "raftstore/engine.WALStorage", "raftstore/kv.Apply + percolator",
                 "pd/server.Service", "pd/core.Cluster", "pd/storage.LocalStore + manifest.Manager"],
        "stub": ["server tick loop (ticks issued by the harness in peer-id order, 100 ms of fake time per round)",
                 "gRPC transport (no-op: a single-voter group sends no raft messages)", "gRPC front ends (Store / Service methods are called in-process)",
                 "OS clock (synctest fake clock)", "disk = real directory on /dev/shm behind SimFS",
                 "cmd/nokv wiring (startStorePeers / restorePDRegions / the store.Config of raftstore/server.New are replicated in the harness, see harness/storesim/NOTES.md)"],
    },
}

STORE_ASSUME = [
    "one store, single-voter raft groups: no replication, no message loss, no leader change (the multi-store engine covers those)",
    "clean process restarts only (close, reopen); crash images of raft state are property C21's subject",
    "bounds are small: 2-5 initial regions, 20-40 steps per run, keys on a 400-point grid plus byte-level neighbours of every boundary",
    "a clean batch is evidence, not proof",
]

PROPS_ADD = {
    "C24": {
        "engine": "storesim", "level": "exploration", "budget": {"quick": 18, "thorough": 600},
        "title": "Splits and merges keep regions a partition with increasing epochs",
        "technique": "deterministic simulation: seeded sequences of ProposeSplit / ProposeMerge / peer stop + RemoveRegion / ticks / store restart against one real store whose "
                     "admin commands commit through real single-voter raft groups; state-based oracle on the store's region catalog and region hooks after every step",
        "rule": "case = random initial partition (2-5 regions, bounded/unbounded ends, seeded into the manifest like `nokv-config manifest`) + seeded step list (split keys inside / at the "
                "edges / outside the parent, merges of the right or left neighbour or a non-neighbour into bounded/unbounded targets, removals, ticks, restarts) + wiring knob "
                "(store.Config with the DB's manifest, or exactly as cmd/nokv serve builds it); after every step: live ranges pairwise disjoint, union of ranges equal to the previous "
                "union (minus a region removed on purpose), every region whose range/peers changed has a strictly higher epoch and no epoch went back, states only move forward "
                "(catalog and every region-hook callback), after a restart the catalog equals the pre-restart catalog (after load and after raft log replay); "
                "distinct = distinct event-trace hash; non-trivial = at least one split or merge was applied",
        "level_text": "Seeded search over admin-command histories with a state-based oracle that is exactly the statement; sampling is the right level because the property quantifies over all "
                      "histories of splits/merges/removals and all partitions.",
        "note": "Trusted: the harness's interval arithmetic (coverage, disjointness) and its replica of server.New's store/peer configuration and serve's startStorePeers. "
                "The oracle never predicts whether the API accepts a request; it only judges the catalog that results.",
        "design_ref": "7/C24", "assumptions": STORE_ASSUME,
    },
    "C25": {
        "engine": "storesim", "level": "exploration", "budget": {"quick": 18, "thorough": 600},
        "title": "Commands only execute against the region that owns their keys",
        "technique": "deterministic simulation: every command kind with keys at every position relative to the region's current boundaries and every epoch relation, through "
                     "Store.ProposeCommand / Store.ReadCommand of one real store, interleaved with real splits and merges that move ranges and epochs",
        "rule": "case = random initial partition + committed data around every boundary + seeded list of commands (Get, Scan, Prewrite, Commit, BatchRollback, ResolveLock, CheckTxnStatus, "
                "two-request batches; key positions empty / below start / start / just above start / inside / just below end / end / beyond / far; epochs current / older / newer / "
                "conf older / conf newer / missing; existing and unknown region ids) interleaved with valid splits and merges; oracle per command: accepted (no error, no region error) "
                "implies the header epoch equals the catalog epoch and every named non-empty key is inside the catalog range; a command that must not be accepted carries a region "
                "error; every key of an accepted scan response lies inside the range; distinct = distinct event-trace hash; non-trivial = at least one command accepted, one rejected "
                "and one split or merge applied",
        "level_text": "Seeded sampling of the input space (command kind x key position x epoch relation x region shape) with the statement as oracle; the quantifier is over inputs, the "
                      "boundary classes are enumerated by construction and combined at random.",
        "note": "Trusted: the harness's own containment test and its reading of the catalog (RegionMetaByID) immediately before each command as 'the region's current epoch and range'. "
                "An empty key is treated as naming no key (every layer of the SUT rejects or skips empty keys).",
        "design_ref": "7/C25", "assumptions": STORE_ASSUME,
    },
    "C26": {
        "engine": "storesim", "level": "exploration", "budget": {"quick": 10, "thorough": 600},
        "title": "PD routes every key to the unique region containing it",
        "technique": "deterministic simulation: seeded sequences of RegionHeartbeat / RemoveRegion / GetRegionByKey / restart against the real PD service with file-backed storage, "
                     "compared step by step with a reference list-of-regions model",
        "rule": "case = seeded list of heartbeats (ranges adjacent to / nested in / overlapping / equal to known regions, unbounded, degenerate; epochs stale / equal / newer in either "
                "component), removals, lookups and restarts (LocalStore reopen + Load + restorePDRegions replica); oracle: heartbeat accepted iff not epoch-stale and not overlapping "
                "another known region (reference model with its own interval test), RemoveRegion reports existence, after every step a sweep of lookups at every boundary key and its "
                "byte-level neighbours returns exactly the model's region or not-found, after restart region snapshot and sweep are unchanged; distinct = distinct event-trace hash; "
                "non-trivial = at least 2 heartbeats accepted and 1 rejected",
        "level_text": "Seeded search over heartbeat/removal histories with an executable reference model; sampling is the right level for a property over all histories and inputs.",
        "note": "Trusted: the reference model (list scan with the textbook half-open interval tests). restorePDRegions lives in package main and is replicated in the harness "
                "(ids sorted, UpsertRegionHeartbeat each, first error aborts).",
        "design_ref": "7/C26", "assumptions": ["in-process calls of Service methods (no gRPC)", "clean restarts only", "<= 8 region ids, 16 boundary keys, 20-40 steps per run",
                                                "a clean batch is evidence, not proof"],
    },
}
