#!/usr/bin/env python3
"""Regenerates MANIFEST.json from props.py and properties.jsonl (keeps not_applicable current)."""
import json, os, subprocess, sys
sys.path.insert(0, os.path.dirname(os.path.abspath(__file__)))
from props import PROPS, ENGINES
from na import NOT_APPLICABLE, PENDING

props = [json.loads(l) for l in open('/verif/properties.jsonl')]
checks = []
for p in props:
    pid = p['id']
    if pid not in PROPS:
        continue
    s = PROPS[pid]
    checks.append({
        "property_id": pid,
        "quick_cmd": f"./check {pid} --tier quick",
        "thorough_cmd": f"./check {pid} --tier thorough",
        "evidence_file": f"/verif/evidence/{pid}.json",
        "replay_cmd_template": f"./check {pid} --replay {{path}}",
        "engine": s["engine"],
        "level_claimed": {"category": s["level"], "text": s["level_text"], "design_ref": "DESIGN.md section " + s["design_ref"]},
        "level_note": s["note"],
        "technique": s["technique"],
    })
na = []
for p in props:
    pid = p['id']
    if pid in PROPS:
        continue
    if pid in NOT_APPLICABLE:
        na.append({"property_id": pid, "reason": NOT_APPLICABLE[pid]})
    else:
        na.append({"property_id": pid, "reason": PENDING.get(pid, "check under construction in this session; not claimed until its harness is committed")})
try:
    commits = subprocess.run(["git", "-C", "/repo", "log", "--format=%H %s", "8e65284..HEAD"], capture_output=True, text=True).stdout.strip().splitlines()
except Exception:
    commits = []
hook_commits = [c.split()[0] for c in commits if not c.split(" ", 1)[1].startswith("fix:")]
m = {
    "version": 1,
    "setup_cmd": "./setup.sh",
    "hooks": {
        "guard": "verif",
        "enable": "GOFLAGS=-mod=mod GOPROXY=off GOSUMDB=off GOTOOLCHAIN=local go1.26.8 test -c -tags verif (all hook call sites forward to package verifhook; without the tag they are empty inlined functions and the *_verif.go accessor files are excluded)",
        "baseline_off_cmd": "./baseline_off.sh",
        "source_commits": hook_commits,
        "add_only": True,
    },
    "engines": [{"name": n, "path": e.get("pkg", e.get("src", "")), "serves_properties": sorted(k for k, v in PROPS.items() if v["engine"] == n), "kind_free_text": e["kind"]} for n, e in sorted(ENGINES.items())],
    "checks": checks,
    "notes": "Deterministic simulation with fault injection; see DESIGN.md. Driver: ./check <id> --tier quick|thorough [--seed N] | --replay <file>. VERIF_SEED and VERIF_TIER are honoured. Known genuine defects are listed in known_findings.json (KNOWN-FINDING lines, exit 0).",
    "not_applicable": na,
}
json.dump(m, open('/verif/MANIFEST.json', 'w'), indent=1)
print("checks:", len(checks), "not_applicable:", len(na))
