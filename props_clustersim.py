"""Registry additions for engine clustersim (E4): C22, C23, C28."""

ENGINES_ADD = {
    "clustersim": {
        "pkg": "./harness/clustersim",
        "kind": "E4: up to three real stores (NoKV.DB + raftstore store.Store + peers on engine.WALStorage + etcd raft RawNode) in one synctest bubble; SimNet event heap, simulated ticks, client tasks",
        "real": ["NoKV.DB", "raftstore/store.Store (command pipeline, router, region catalog)", "raftstore/peer.Peer (ready loop, ReadIndex, apply watermark)",
                 "raftstore/engine.WALStorage on the DB's WAL + manifest", "etcd raft RawNode", "raftstore/kv.Apply + percolator", "raftstore/kv.Service"],
        "stub": ["gRPC raft transport (SimNet: discrete-event heap, per-link faults)", "server tick loop (tick events in simulated time)",
                 "OS clock (synctest fake clock)", "crypto/rand.Reader feeding raft's randomized election timeout (seeded stream from the case)",
                 "background compaction (disabled; memtables are large enough that no flush happens)"],
    },
}

E4_ASSUME = [
    "store restart = process-crash image taken after WAL().Sync() (unsynced raft state is C21's subject), fresh Open, peers restored from the manifest as `nokv serve` does",
    "messages are delivered one at a time by the simulator; delays/drops/duplicates are drawn per message from the recorded choice tape",
    "a clean batch is evidence, not proof: 3 stores, 1-2 regions, <= 200 steps per run",
]

PROPS_ADD = {
    "C22": {
        "engine": "clustersim", "level": "exploration", "budget": {"quick": 20, "thorough": 600},
        "title": "Replicas apply identical command sequences and answer each proposal once",
        "technique": "deterministic simulation of a 3-store raft cluster: seeded message delays/drops/duplicates/partitions, leader transfers, campaigns, store crash+restart, tick skew; apply observer on every store",
        "rule": "case = seeded timeline of tagged proposals and fault steps; distinct = distinct event-trace hash; non-trivial = at least one injected fault fired and at least two proposals were acknowledged",
        "level_text": "Seeded search over message schedules and fault sequences with an apply observer as oracle (prefix agreement, no double apply, response identity at return, bounded liveness after heal). The property quantifies over all schedules, which can only be sampled.",
        "note": "Trusted: the harness's apply observer (wraps store.Config.CommandApplier), SimNet, and response identity by pointer (the store hands the applier's response object to the waiting proposal).",
        "design_ref": "7/C22", "assumptions": E4_ASSUME,
    },
    "C23": {
        "engine": "clustersim", "level": "exploration", "budget": {"quick": 20, "thorough": 600},
        "title": "Only the current leader serves reads and proposals, and reads are linearizable",
        "technique": "deterministic simulation of a 3-store raft cluster with writers (prewrite+commit of uniquely valued puts at increasing timestamps) and readers (ReadCommand at arbitrary stores incl. partitioned old leaders); necessary-condition oracle at every read, porcupine register check per key after the run",
        "rule": "case = seeded timeline of writes, reads (with target store) and fault steps; distinct = distinct event-trace hash; non-trivial = at least one injected fault fired, one write was acknowledged and one read returned a value or not-found",
        "level_text": "Seeded search over schedules, partitions and leader changes; oracles: (1) a read returns a commit version >= the largest version acknowledged before its invocation, (2) per-key porcupine check against a register (Unknown = inconclusive, counted), (3) a store that serves a read or proposal was leader at some point during the call. Quantifies over all schedules: sampled.",
        "note": "Trusted: harness-side timestamp oracle (one counter, so acknowledged-before implies smaller version), response-origin check that keeps C22's wrong-response defect from being charged to C23 (such outcomes are treated as unknown and counted in probes.c22_wrong_response_met).",
        "design_ref": "7/C23", "assumptions": E4_ASSUME,
    },
    "C28": {
        "engine": "clustersim", "level": "exploration", "budget": {"quick": 20, "thorough": 600},
        "title": "Client two-phase commit is atomic across regions",
        "technique": "deterministic simulation: the real raftstore/client (Mutate/TwoPhaseCommit, CheckTxnStatus, ResolveLocks, Get, Scan) over in-process TinyKv shims on 1-3 real stores with 2-3 regions; an RPC fault (fail before delivery / deliver and lose the response) is injected at every (method, region, attempt) position of the prewrite/commit sequence of each generated mutation set; leader moves before and inside the protocol in the replicated variant",
        "rule": "case = mutation sets (1-3 regions, 1-2 keys per region) x every RPC fault position + no-fault run, executed as consecutive transactions; distinct = distinct event-trace hash; non-trivial = at least two transactions ran and at least one injected RPC fault fired",
        "level_text": "For each generated mutation set every RPC position of the protocol is enumerated with both fault modes (the enumeration is exhaustive per mutation set; mutation sets, layouts and leader moves are sampled). Oracle after resolution: all mutations visible at the commit version or none; none if the primary commit never applied, all if it did; Get and Scan agree.",
        "note": "Trusted: the verif-tag constructor client.NewWithStoreClients, the shim (calls kv.Service in-process), the apply observer that decides whether the primary commit applied. In the replicated variant mutation sets span at most 2 regions because the client visits secondary regions in Go map order (unpinnable nondeterminism).",
        "design_ref": "7/C28", "assumptions": E4_ASSUME,
    },
}
