#!/bin/sh
# Offline setup: build the simulator kernel and vet that harnesses compile against /repo.
set -e
cd "$(dirname "$0")"
exec python3 ./check --setup
