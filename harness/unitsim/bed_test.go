package unitsim

import (
	"fmt"
	"os"
	"sort"
	"sync"
	"testing"

	"github.com/feichai0017/NoKV/verifhook"

	"verif/sim"
)

// event is something a task observed. Tasks never touch the trace or the
// violation list themselves: a goroutine woken by the SUT (a WaitForMark
// waiter, a latch waiter) runs in parallel with the task that woke it inside
// one scheduler step, so events are queued and the root goroutine processes
// them after the step in (task, sequence) order.
type event struct {
	task int
	seq  int
	kind string
	a, b int64
	s    string
	f    func() // optional: evaluated by the root when the event is processed
}

// bed is the per-run plumbing shared by the unitsim checks.
type bed struct {
	t     *testing.T
	c     *sim.Case
	res   *sim.Result
	sched *sim.Sched

	mu     sync.Mutex
	events []event
	seq    int

	tasks   []*sim.Task
	running int // index of the task released in the current step
	last    *sim.Task
	sticky  int
	// onYield, when set, sees every SUT yield site reached by the running task
	// before it parks.
	onYield func(task int, owner any, site string)
	// blocked, when set, removes parked tasks that cannot make progress (they
	// would only re-check a harness-level condition and park again) from the
	// choice; if every parked task is blocked they are all kept.
	blocked func(t *sim.Task) bool
	// waitLock[task]: the lock the task is waiting for in BeforeLock
	waitLock map[int]verifhook.TryLocker
	// debug log (UNITSIM_LOG=1): the complete event list of a replayed run
	logOn bool
	log   []string
}

var debugLog = os.Getenv("UNITSIM_LOG") != ""

func (b *bed) logf(format string, a ...any) {
	if b.logOn {
		b.log = append(b.log, fmt.Sprintf(format, a...))
	}
}

func newBed(t *testing.T, c *sim.Case, res *sim.Result) *bed {
	b := &bed{t: t, c: c, res: res, running: -1, logOn: debugLog}
	verifhook.Reset()
	b.sched = sim.NewSched(sim.NewRand(c.Seed, c.Run, 1), c.Sched, res.Trace)
	b.sticky = int(c.CfgInt("sticky", 0))
	if ht := c.CfgInt("hold_task", -1); ht >= 0 {
		b.sched.HoldTask, b.sched.HoldNth = fmt.Sprintf("t%d", ht), int(c.CfgInt("hold_nth", 1))
		if c.CfgInt("hold_site", 0) == 1 {
			b.sched.HoldSite = "wm.ensure.miss"
		}
	}
	verifhook.YieldFn = func(owner any, site string) {
		if b.onYield != nil {
			b.onYield(b.running, owner, site)
		}
		b.sched.Yield(owner, site)
	}
	b.waitLock = map[int]verifhook.TryLocker{}
	verifhook.BeforeLockFn = func(l verifhook.TryLocker) {
		id := b.running
		b.mu.Lock()
		b.waitLock[id] = l
		b.mu.Unlock()
		b.sched.BeforeLock(l)
		b.mu.Lock()
		delete(b.waitLock, id)
		b.mu.Unlock()
	}
	return b
}

func (b *bed) close() {
	b.sched.Passthrough()
	b.res.Sched = b.sched.Recorded
	verifhook.Reset()
	if b.logOn {
		for _, l := range b.log {
			fmt.Fprintln(os.Stderr, l)
		}
		for _, v := range b.res.Violations {
			fmt.Fprintf(os.Stderr, "VIOLATION step=%d %s: %s\n", v.Step, v.Key(), v.Detail)
		}
		fmt.Fprintln(os.Stderr, "----")
	}
}

// emit queues an event from a task goroutine.
func (b *bed) emit(task int, kind string, a, bb int64, s string) {
	b.mu.Lock()
	b.seq++
	b.events = append(b.events, event{task: task, seq: b.seq, kind: kind, a: a, b: bb, s: s})
	b.mu.Unlock()
}

// drain returns the events of the last step in deterministic order.
func (b *bed) drain() []event {
	b.mu.Lock()
	ev := b.events
	b.events = nil
	b.mu.Unlock()
	sort.SliceStable(ev, func(i, j int) bool {
		if ev[i].task != ev[j].task {
			return ev[i].task < ev[j].task
		}
		return ev[i].seq < ev[j].seq
	})
	return ev
}

// spawn starts fn as task number len(b.tasks); a panic of the SUT on the task
// goroutine is reported as an event of kind "panic".
func (b *bed) spawn(name string, fn func(id int)) {
	id := len(b.tasks)
	t := b.sched.Go(name, func() {
		defer func() {
			if r := recover(); r != nil {
				b.emit(id, "panic", 0, 0, fmt.Sprint(r))
			}
		}()
		fn(id)
	})
	b.tasks = append(b.tasks, t)
}

// lockBlocked: the task is parked in BeforeLock and the lock is still held, so
// releasing it would only make it look again and park again.
func (b *bed) lockBlocked(t *sim.Task) bool {
	if t.Site != "lockwait" {
		return false
	}
	b.mu.Lock()
	l := b.waitLock[t.ID]
	b.mu.Unlock()
	if l == nil {
		return false
	}
	if l.TryLock() {
		l.Unlock()
		return false
	}
	return true
}

// step releases one parked task. The choice comes from the tape/PRNG; with
// sticky > 1 the task released last is kept with probability 1-1/sticky (long
// uninterrupted stretches reach deep interleavings that uniform switching
// makes exponentially unlikely).
func (b *bed) step() bool {
	en := b.sched.Enabled()
	if len(en) == 0 {
		return false
	}
	{
		var free []*sim.Task
		for _, t := range en {
			if b.lockBlocked(t) || (b.blocked != nil && b.blocked(t)) {
				continue
			}
			free = append(free, t)
		}
		if len(free) > 0 {
			en = free
		}
	}
	// one long preemption (Sched.Hold*): the held task stays out while anybody else can run
	if h := b.sched.Held(); h != nil {
		var others []*sim.Task
		for _, t := range en {
			if t != h {
				others = append(others, t)
			}
		}
		if len(others) > 0 {
			en = others
		} else {
			b.sched.EndHold()
		}
	}
	v := b.sched.Choose(1 << 16)
	var pick *sim.Task
	if b.sticky > 1 && b.last != nil && v%b.sticky != 0 {
		for _, t := range en {
			if t == b.last {
				pick = t
			}
		}
	}
	if pick == nil {
		pick = en[(v/8)%len(en)]
	}
	b.last = pick
	b.running = pick.ID
	sim.Beat()
	b.logf("step %d: run %s@%s", b.res.Steps+1, pick.Name, pick.Site)
	b.sched.Release(pick)
	b.res.Steps++
	return true
}
