package unitsim

import (
	"fmt"
	"strconv"
	"strings"
	"testing"
	"testing/synctest"

	"github.com/feichai0017/NoKV/kv"
	"github.com/feichai0017/NoKV/percolator/latch"
	"github.com/feichai0017/NoKV/verifhook"

	"verif/sim"
)

// C20: key latches exclude overlapping requests without deadlock.
//
// Key sets are generated as stripe patterns ("2.0,0.1,e,2.0": stripe 2 first
// key, stripe 0 second key, empty key, the first key again) and materialised
// at run time by searching keys with the wanted kv.MemHash stripe, because
// MemHash is seeded per process. The trace only ever contains the pattern.
//
// Interpretation: empty keys take part in the key sets (the latch manager must
// tolerate them) but "share a key" is evaluated over non-empty keys only: an
// empty key is not a valid NoKV key and the manager documents no latch for it.

func init() {
	props["C20"] = sim.PropSpec{Gen: genC20, Exec: execC20}
}

func genC20(r *sim.Rand, tier string) *sim.Case {
	c := &sim.Case{Cfg: map[string]int64{}}
	// 64, 256 (the manager's default) and 512 (what the raft apply path uses): stripe
	// bookkeeping that is exact for a handful of stripes need not be for many.
	n := r.Pick(1, 2, 3, 3, 8, 8, 64, 256, 512)
	ntasks := r.Pick(2, 2, 3, 3, 4)
	// With many stripes the keys come from a small pool of stripes at "interesting"
	// distances from one base stripe, so that requests still share keys.
	var pool []int
	if n > 8 {
		base := r.Intn(n)
		pool = []int{base}
		for len(pool) < 5 {
			pool = append(pool, (base+r.Pick(1, 7, 16, 31, 32, 33, 48, 63, 64, 65, 128, 192, 255, 256)*r.Pick(1, 1, 2))%n)
		}
	}
	stripe := func() int {
		if pool != nil {
			return pool[r.Intn(len(pool))]
		}
		return r.Intn(n)
	}
	c.Cfg["stripes"] = int64(n)
	c.Cfg["tasks"] = int64(ntasks)
	c.Cfg["sticky"] = int64(r.Pick(0, 0, 2, 4))
	nops := 2 + r.Intn(8)
	for i := 0; i < nops; i++ {
		nk := r.Pick(0, 1, 1, 2, 2, 3, 4, 5)
		var parts []string
		for k := 0; k < nk; k++ {
			switch {
			case r.Intn(12) == 0:
				parts = append(parts, "e")
			case len(parts) > 0 && r.Intn(6) == 0:
				parts = append(parts, parts[r.Intn(len(parts))]) // duplicate
			default:
				parts = append(parts, fmt.Sprintf("%d.%d", stripe(), r.Pick(0, 0, 0, 1, 2)))
			}
		}
		c.Ops = append(c.Ops, sim.Op{K: "acq", A: int64(r.Intn(ntasks)), B: int64(r.Intn(3)), C: int64(r.Pick(1, 1, 1, 2)), S: strings.Join(parts, ",")})
	}
	return c
}

type latchTask struct {
	id        int
	holding   bool
	keys      [][]byte
	spec      string
	acquiring []verifhook.TryLocker // stripes locked by the Acquire in progress / held
	waiting   verifhook.TryLocker
	aborted   bool
}

type abortLatch struct{}

func execC20(t *testing.T, c *sim.Case) *sim.Result {
	res := sim.NewResult()
	synctest.Test(t, func(t *testing.T) {
		b := newBed(t, c, res)
		defer b.close()
		n := int(c.CfgInt("stripes", 2))
		if n < 1 {
			n = 1
		}
		keyTab := latchKeys(n, 3)
		m := latch.NewManager(n)
		ntasks := int(c.CfgInt("tasks", 2))
		if ntasks < 1 {
			ntasks = 1
		}
		tasks := make([]*latchTask, ntasks)
		aborting := false
		verifhook.BeforeLockFn = func(l verifhook.TryLocker) {
			lt := tasks[b.running]
			if aborting {
				panic(abortLatch{})
			}
			b.sched.Yield(nil, "latch.stripe") // preemption point before every stripe
			for !l.TryLock() {
				lt.waiting = l
				b.sched.Yield(nil, "lockwait")
				if aborting {
					panic(abortLatch{})
				}
			}
			l.Unlock()
			lt.waiting = nil
			lt.acquiring = append(lt.acquiring, l) // the real Lock() follows at once
		}
		isLocked := func(l verifhook.TryLocker) bool {
			if l.TryLock() {
				l.Unlock()
				return false
			}
			return true
		}
		b.blocked = func(t *sim.Task) bool {
			lt := tasks[t.ID]
			return t.Site == "lockwait" && lt.waiting != nil && isLocked(lt.waiting)
		}

		per := make([][]sim.Op, ntasks)
		for _, op := range c.Ops {
			ti := int(op.A) % ntasks
			if ti < 0 {
				ti = -ti
			}
			per[ti] = append(per[ti], op)
		}
		for ti := 0; ti < ntasks; ti++ {
			lt := &latchTask{id: ti}
			tasks[ti] = lt
			ops := per[ti]
			b.spawn(fmt.Sprintf("t%d", ti), func(id int) {
				defer func() {
					if r := recover(); r != nil {
						if _, ok := r.(abortLatch); ok {
							lt.aborted = true
							return
						}
						panic(r)
					}
				}()
				for _, op := range ops {
					b.sched.Yield(nil, "h.op")
					lt.spec = op.S
					lt.keys = materialise(op.S, keyTab, n)
					lt.acquiring = nil
					b.emit(id, "acquire", 0, 0, op.S)
					g := m.Acquire(lt.keys)
					lt.holding = true
					b.emit(id, "acquired", int64(len(lt.acquiring)), 0, op.S)
					for h := int64(0); h < 1+op.B%3; h++ {
						b.sched.Yield(nil, "h.hold")
					}
					lt.holding = false
					mine := lt.acquiring
					lt.acquiring = nil
					g.Release()
					b.emit(id, "released", 0, 0, "")
					if op.C >= 2 {
						b.sched.Yield(nil, "h.rerelease")
						// "Releasing twice is harmless": stripes of the guard that are
						// free right now are held by sentinels during the second
						// Release; it must not unlock them (stripes that another task
						// holds meanwhile are covered by the latch_lost check).
						var sentinels []verifhook.TryLocker
						for _, l := range mine {
							if l.TryLock() {
								sentinels = append(sentinels, l)
							}
						}
						g.Release()
						freed := 0
						for _, l := range sentinels {
							if l.TryLock() {
								freed++
							}
							l.Unlock()
						}
						b.emit(id, "released-again", int64(freed), 0, "")
					}
				}
			})
		}
		synctest.Wait()

		contended := false
		for {
			en := b.sched.Enabled()
			if len(en) == 0 {
				break
			}
			// deadlock: every task that is not finished waits for a stripe that is
			// held, and nobody who could release one is able to run
			allBlocked := true
			for _, tk := range en {
				if !b.blocked(tk) {
					allBlocked = false
				}
			}
			if allBlocked {
				kind := "cycle"
				var desc []string
				for _, tk := range en {
					lt := tasks[tk.ID]
					for _, l := range lt.acquiring {
						if l == lt.waiting {
							kind = "self"
						}
					}
					desc = append(desc, fmt.Sprintf("t%d holds %d stripe(s) of {%s} and waits", lt.id, len(lt.acquiring), lt.spec))
				}
				res.Checks++
				res.Violate(res.Steps, "deadlock", map[string]string{"kind": kind},
					"no task can proceed (stripes=%d): %s", n, strings.Join(desc, "; "))
				// unwind the waiters out of Acquire and free what they had locked
				aborting = true
				for b.step() {
				}
				for _, lt := range tasks {
					if lt.aborted {
						for _, l := range lt.acquiring {
							l.Unlock()
						}
					}
				}
				break
			}
			b.step()
			for _, e := range b.drain() {
				res.Trace.Add("t%d %s %d %s", e.task, e.kind, e.a, e.s)
				b.logf("  t%d %s %d %s", e.task, e.kind, e.a, e.s)
				if e.kind == "panic" {
					res.Violate(res.Steps, "sut_panic", nil, "task %d: %s", e.task, e.s)
				}
				if e.kind == "released-again" {
					res.Checks++
					if e.a > 0 {
						res.Violate(res.Steps, "double_release_unlocks", nil,
							"the second Release() of task %d's guard unlocked %d stripe(s) it no longer owned", e.task, e.a)
					}
				}
			}
			// invariants
			for i := 0; i < ntasks; i++ {
				if !tasks[i].holding {
					continue
				}
				for _, l := range tasks[i].acquiring {
					res.Checks++
					if !isLocked(l) {
						res.Violate(res.Steps, "latch_lost", nil,
							"task %d holds {%s} but one of its stripes is unlocked (somebody else's Release freed it)", i, tasks[i].spec)
						// keep the holder's later Release from unlocking an unlocked mutex
						for _, l2 := range tasks[i].acquiring {
							_ = l2.TryLock()
						}
						break
					}
				}
				for j := i + 1; j < ntasks; j++ {
					if !tasks[j].holding {
						continue
					}
					res.Checks++
					if sharesKey(tasks[i].keys, tasks[j].keys) {
						res.Violate(res.Steps, "both_hold", nil,
							"tasks %d {%s} and %d {%s} share a key and both hold their latches (stripes=%d)",
							i, tasks[i].spec, j, tasks[j].spec, n)
					}
				}
			}
			for _, tk := range b.tasks {
				if b.sched.Parked(tk) && tk.Site == "lockwait" {
					contended = true
				}
			}
		}
		for _, e := range b.drain() {
			res.Trace.Add("t%d %s %d %s", e.task, e.kind, e.a, e.s)
		}
		for _, tk := range b.tasks {
			if !b.sched.Done(tk) {
				res.Violate(res.Steps, "deadlock", map[string]string{"kind": "stuck"}, "task %s neither finished nor parked", tk.Name)
			}
		}
		res.Nontrivial = contended
		if contended {
			res.Faults["contended_acquire"]++
		}
	})
	return res
}

// latchKeys finds, for every stripe, `variants` distinct keys hashing to it.
var latchKeyTabs = map[int][][][]byte{}

func latchKeys(n, variants int) [][][]byte {
	if t, ok := latchKeyTabs[n*8+variants]; ok {
		return t
	}
	tab := make([][][]byte, n)
	defer func() { latchKeyTabs[n*8+variants] = tab }()
	missing := n * variants
	for i := 0; missing > 0; i++ {
		k := []byte("key-" + strconv.Itoa(i))
		s := int(kv.MemHash(k) % uint64(n))
		if len(tab[s]) < variants {
			tab[s] = append(tab[s], k)
			missing--
		}
	}
	return tab
}

func materialise(spec string, tab [][][]byte, n int) [][]byte {
	var out [][]byte
	if spec == "" {
		return nil
	}
	for _, p := range strings.Split(spec, ",") {
		if p == "e" {
			out = append(out, []byte{})
			continue
		}
		sv := strings.SplitN(p, ".", 2)
		if len(sv) != 2 {
			continue
		}
		s, err1 := strconv.Atoi(sv[0])
		v, err2 := strconv.Atoi(sv[1])
		if err1 != nil || err2 != nil || s < 0 || v < 0 {
			continue
		}
		out = append(out, tab[s%n][v%len(tab[s%n])])
	}
	return out
}

func sharesKey(a, b [][]byte) bool {
	for _, x := range a {
		if len(x) == 0 {
			continue
		}
		for _, y := range b {
			if string(x) == string(y) {
				return true
			}
		}
	}
	return false
}
