package unitsim

import (
	"context"
	"fmt"
	"sort"
	"testing"
	"testing/synctest"

	"github.com/feichai0017/NoKV/utils"

	"verif/sim"
)

// C32: the watermark never passes an unfinished index.
//
// Usage discipline (what makes the statement satisfiable by a correct
// watermark, mirroring the callers in /repo): a Begin/BeginMany of a *new*
// index is serialised with the other Begins of new indices and new indices
// increase (txn.go: under the oracle lock; raftstore/peer: one goroutine).
// A task may additionally Begin, without that serialisation, an index in
// [j, last begun] while it holds the unfinished index j (readMark style
// re-begin). Done/DoneMany/WaitForMark run freely.

func init() {
	props["C32"] = sim.PropSpec{Gen: genC32, Exec: execC32}
}

func genC32(r *sim.Rand, tier string) *sim.Case {
	c := &sim.Case{Cfg: map[string]int64{}}
	ntasks := r.Pick(2, 2, 3, 3, 4)
	window := r.Pick(2, 3, 4, 8, 8, 0) // 0 = production size (65536)
	c.Cfg["tasks"] = int64(ntasks)
	c.Cfg["window"] = int64(window)
	c.Cfg["sticky"] = int64(r.Pick(0, 2, 4, 8))
	// 1 in 3: one long preemption of one task, either where it found the window
	// too small and is about to rebuild it, or at its n-th scheduling point
	if r.Intn(3) == 0 {
		c.Cfg["hold_task"] = int64(r.Intn(ntasks))
		c.Cfg["hold_site"] = int64(r.Intn(2))
		c.Cfg["hold_nth"] = int64(1 + r.Intn(3))
		if c.Cfg["hold_site"] == 0 {
			c.Cfg["hold_nth"] = int64(1 + r.Intn(40))
		}
	}
	wsz := window
	if wsz == 0 {
		wsz = 8
	}
	gap := func() int64 {
		switch r.Intn(8) {
		case 0:
			return int64(wsz)
		case 1:
			return int64(wsz + 1)
		case 2:
			return int64(2*wsz + 1)
		case 3:
			return 2
		}
		return 1
	}
	begins := 0
	n := 4 + r.Intn(12)
	for i := 0; i < n; i++ {
		t := int64(r.Intn(ntasks))
		k := r.Intn(20)
		switch {
		case k < 6 && begins < 8:
			c.Ops = append(c.Ops, sim.Op{K: "begin", A: t, B: gap()})
			begins++
		case k < 8 && begins < 7:
			cnt := 2 + r.Intn(2)
			if begins+cnt > 8 {
				cnt = 8 - begins
			}
			c.Ops = append(c.Ops, sim.Op{K: "beginmany", A: t, B: gap(), C: int64(cnt), D: gap()})
			begins += cnt
		case k < 9:
			c.Ops = append(c.Ops, sim.Op{K: "rebegin", A: t, B: int64(r.Intn(4)), C: int64(r.Intn(4))})
		case k < 10 && begins < 8:
			// one more Begin of the newest index (a reader that starts at the snapshot
			// its predecessors used, possibly after they all finished)
			c.Ops = append(c.Ops, sim.Op{K: "latebegin", A: t})
			begins++
		case k < 15:
			c.Ops = append(c.Ops, sim.Op{K: "done", A: t, B: int64(r.Intn(4))})
		case k < 16:
			c.Ops = append(c.Ops, sim.Op{K: "donemany", A: t, B: int64(1 + r.Intn(3))})
		default:
			c.Ops = append(c.Ops, sim.Op{K: "wait", A: t, B: int64(r.Intn(8))})
		}
	}
	return c
}

// wmUnit is one index of one Begin/BeginMany call.
type wmUnit struct {
	idx   uint64
	task  int
	added bool   // the slot increment has been performed
	cause string // why the mark could reach idx (set when it did)
	// held: Begin returned and Done not yet invoked
	reported bool
	// late: a further Begin of the newest index, serialised with the other Begins but
	// not guarded by a held index. The mark may stand on (or arrive at) the index;
	// what it must not do is move past it.
	late bool
}

type wmToken = wmUnit

type wmFlight struct { // a Begin/BeginMany in progress
	guard *wmToken // re-begin: the held index that makes this lock-free Begin legal
	units []*wmUnit
}

type wmWorld struct {
	b       *bed
	wm      *utils.WaterMark
	tokens  []*wmToken // held: Begin returned, Done not yet invoked
	flights map[int]*wmFlight
	// unitsAtZero[t]: the in-flight units that had not yet incremented their
	// slot when task t last read a slot as zero in tryAdvance.
	unitsAtZero map[int][]*wmUnit
	winAtZero   map[int]any // the window in which it read that zero
	begun       []uint64    // every index ever begun, ascending, distinct
	lastBegun   uint64
	beginBusy   bool
}

func (w *wmWorld) held(idx uint64) int {
	n := 0
	for _, t := range w.tokens {
		if t.idx == idx {
			n++
		}
	}
	return n
}

func (w *wmWorld) myTokens(task int) []*wmToken {
	var out []*wmToken
	for _, t := range w.tokens {
		if t.task == task {
			out = append(out, t)
		}
	}
	return out
}

func (w *wmWorld) drop(tk *wmToken) {
	for i, t := range w.tokens {
		if t == tk {
			w.tokens = append(w.tokens[:i], w.tokens[i+1:]...)
			return
		}
	}
}

func (w *wmWorld) flightIDs() []int {
	ids := make([]int, 0, len(w.flights))
	for id := range w.flights {
		ids = append(ids, id)
	}
	sort.Ints(ids)
	return ids
}

func (w *wmWorld) noteBegun(idx uint64) {
	i := sort.Search(len(w.begun), func(i int) bool { return w.begun[i] >= idx })
	if i < len(w.begun) && w.begun[i] == idx {
		return
	}
	w.begun = append(w.begun, 0)
	copy(w.begun[i+1:], w.begun[i:])
	w.begun[i] = idx
}

func execC32(t *testing.T, c *sim.Case) *sim.Result {
	res := sim.NewResult()
	synctest.Test(t, func(t *testing.T) {
		b := newBed(t, c, res)
		defer b.close()
		wm := &utils.WaterMark{Name: "verif"}
		wm.Init(nil)
		if n := int(c.CfgInt("window", 0)); n > 0 {
			wm.VerifSetWindow(n)
		}
		w := &wmWorld{b: b, wm: wm, flights: map[int]*wmFlight{}, unitsAtZero: map[int][]*wmUnit{}, winAtZero: map[int]any{}}
		ctx, cancel := context.WithCancel(context.Background())
		defer cancel()

		b.onYield = func(task int, owner any, site string) {
			switch site {
			case "wm.add.added":
				b.mu.Lock()
				if f := w.flights[task]; f != nil {
					for _, u := range f.units {
						if !u.added {
							u.added = true
							break
						}
					}
				}
				b.mu.Unlock()
			case "wm.adv.slot-zero":
				b.mu.Lock()
				var pend []*wmUnit
				for _, id := range w.flightIDs() {
					for _, u := range w.flights[id].units {
						if !u.added {
							pend = append(pend, u)
						}
					}
				}
				w.unitsAtZero[task] = pend
				w.winAtZero[task] = owner
				b.mu.Unlock()
			}
		}

		b.blocked = func(t *sim.Task) bool {
			b.mu.Lock()
			defer b.mu.Unlock()
			return t.Site == "h.beginlock" && w.beginBusy
		}

		ntasks := int(c.CfgInt("tasks", 2))
		if ntasks < 1 {
			ntasks = 1
		}
		per := make([][]sim.Op, ntasks)
		for _, op := range c.Ops {
			ti := int(op.A) % ntasks
			if ti < 0 {
				ti = -ti
			}
			per[ti] = append(per[ti], op)
		}
		for ti := 0; ti < ntasks; ti++ {
			ops := per[ti]
			b.spawn(fmt.Sprintf("t%d", ti), func(id int) { w.runTask(ctx, id, ops) })
		}
		synctest.Wait() // every task is parked at "start"

		prevMark := wm.DoneUntil()
		winID, _, _ := wm.VerifWindow()
		overlap := false
		for b.step() {
			mark := wm.DoneUntil()
			res.Checks++
			if mark < prevMark {
				res.Violate(res.Steps, "mark_decreased", nil, "DoneUntil went from %d to %d", prevMark, mark)
			}
			if id, _, _ := wm.VerifWindow(); id != winID {
				winID = id
				res.Faults["window_rebuild"]++
			}
			w.afterStep(prevMark, mark)
			if mark > prevMark {
				res.Faults["mark_advance"]++
			}
			prevMark = mark
			// non-trivial: two tasks were inside watermark calls at the same time
			mid := 0
			for _, tk := range b.tasks {
				if b.sched.Parked(tk) && tk.Site != "start" && tk.Site != "h.op" && tk.Site != "h.beginlock" {
					mid++
				}
			}
			if mid >= 2 {
				overlap = true
			}
		}
		// Tasks still inside WaitForMark: let them go (cancelled waits end the task).
		blocked := 0
		for _, tk := range b.tasks {
			if !b.sched.Done(tk) {
				blocked++
			}
		}
		if blocked > 0 {
			res.Probes["wait_never_returned"] += blocked
			if wm.DoneUntil() < wm.LastIndex() && len(w.tokens) == 0 {
				res.Probes["mark_stuck_below_last"]++
			}
		}
		cancel()
		synctest.Wait()
		w.afterStep(prevMark, wm.DoneUntil())
		res.Nontrivial = overlap
	})
	return res
}

// slotCause inspects the pending count that the window in which the advancing
// task found a zero holds for idx now: fewer than the calls the model knows
// have incremented it means an increment went to (or stayed in) another
// window, i.e. was lost in a window rebuild.
func (w *wmWorld) slotCause(win any, idx uint64, expected int) string {
	cnt, in := w.wm.VerifSlotIn(win, idx)
	switch {
	case !in:
		return "slot_out_of_window"
	case int(cnt) < expected:
		return "count_lost"
	}
	return "count_ignored"
}

// afterStep runs on the root goroutine after every scheduler step.
func (w *wmWorld) afterStep(prevMark, mark uint64) {
	b, res := w.b, w.b.res
	b.mu.Lock()
	defer b.mu.Unlock()
	// 1. Which indices did the mark reach in this step, and why could it?
	if mark > prevMark {
		var units []*wmUnit
		addedInFlight := map[uint64]int{}
		for _, id := range w.flightIDs() {
			for _, u := range w.flights[id].units {
				units = append(units, u)
				if u.added {
					addedInFlight[u.idx]++
				}
			}
		}
		units = append(units, w.tokens...)
		for _, u := range units {
			if u.idx <= prevMark || u.idx > mark || u.cause != "" {
				continue
			}
			early := !u.added
			for _, p := range w.unitsAtZero[b.running] {
				if p == u {
					early = true
				}
			}
			if early {
				// lastIndex covered idx (otherwise tryAdvance would not have looked
				// at its slot) before the pending count was there
				u.cause = "published_before_count"
			} else {
				u.cause = w.slotCause(w.winAtZero[b.running], u.idx, w.held(u.idx)+addedInFlight[u.idx])
			}
		}
	}
	// 2. Events of this step.
	ev := b.events
	b.events = nil
	sort.SliceStable(ev, func(i, j int) bool {
		if ev[i].task != ev[j].task {
			return ev[i].task < ev[j].task
		}
		return ev[i].seq < ev[j].seq
	})
	for _, e := range ev {
		res.Trace.Add("t%d %s %d %d %s", e.task, e.kind, e.a, e.b, e.s)
		b.logf("  t%d %s %d %d %s (mark=%d)", e.task, e.kind, e.a, e.b, e.s, mark)
		switch e.kind {
		case "panic":
			res.Violate(res.Steps, "sut_panic", nil, "task %d: %s", e.task, e.s)
		case "wait_early":
			res.Checks++
			cause := "mark_not_reached"
			for _, tk := range w.tokens {
				if tk.idx == uint64(e.b) && tk.cause != "" {
					cause = tk.cause
				}
			}
			res.Violate(res.Steps, "wait_returned_early", map[string]string{"cause": cause},
				"WaitForMark(%d) returned while index %d has begun and is not done (DoneUntil=%d)", e.a, e.b, mark)
		case "wait_ok":
			res.Checks++
		case "illegal_begin":
			res.Probes["mark_beyond_last_index"]++
		}
	}
	// 3. The mark must be below every held index.
	for _, tk := range w.tokens {
		res.Checks++
		if tk.late {
			if mark > tk.idx && !tk.reported {
				tk.reported = true
				res.Violate(res.Steps, "passed_unfinished", map[string]string{"cause": "begun_at_newest_index"},
					"DoneUntil=%d moved past index %d, which task %d has begun (as a further Begin of the newest index) and not finished (window=%d)",
					mark, tk.idx, tk.task, w.b.c.CfgInt("window", 0))
			}
			continue
		}
		if mark >= tk.idx && !tk.reported {
			tk.reported = true
			cause := tk.cause
			if cause == "" {
				cause = "unknown"
			}
			res.Violate(res.Steps, "passed_unfinished", map[string]string{"cause": cause},
				"DoneUntil=%d reached index %d which task %d has begun and not finished (window=%d)",
				mark, tk.idx, tk.task, w.b.c.CfgInt("window", 0))
		}
	}
}

func (w *wmWorld) runTask(ctx context.Context, id int, ops []sim.Op) {
	b := w.b
	for _, op := range ops {
		b.sched.Yield(nil, "h.op")
		switch op.K {
		case "begin", "beginmany", "latebegin":
			// serialised, increasing new indices
			for {
				b.mu.Lock()
				if !w.beginBusy {
					w.beginBusy = true
					b.mu.Unlock()
					break
				}
				b.mu.Unlock()
				b.sched.Yield(nil, "h.beginlock")
			}
			n := 1
			if op.K == "beginmany" {
				n = int(op.C)
				if n < 1 {
					n = 1
				}
				if n > 4 {
					n = 4
				}
			}
			if op.K == "latebegin" {
				b.mu.Lock()
				idx := w.lastBegun
				if idx == 0 {
					idx = 1
					w.lastBegun = 1
				}
				w.startFlight(id, []uint64{idx})
				w.flights[id].units[0].late = true
				w.flights[id].units[0].cause = ""
				b.mu.Unlock()
				b.emit(id, op.K, int64(idx), int64(idx), "call")
				w.wm.Begin(idx)
				w.endFlight(id)
				b.mu.Lock()
				w.beginBusy = false
				b.mu.Unlock()
				continue
			}
			b.mu.Lock()
			idxs := make([]uint64, 0, n)
			next := w.lastBegun
			for k := 0; k < n; k++ {
				g := op.B
				if k > 0 {
					g = op.D
				}
				if g < 1 {
					g = 1
				}
				if g > 64 {
					g = 64
				}
				next += uint64(g)
				idxs = append(idxs, next)
			}
			w.lastBegun = next
			w.startFlight(id, idxs)
			b.mu.Unlock()
			b.emit(id, op.K, int64(idxs[0]), int64(idxs[len(idxs)-1]), "call")
			if op.K == "begin" {
				w.wm.Begin(idxs[0])
			} else {
				w.wm.BeginMany(idxs)
			}
			w.endFlight(id)
			b.mu.Lock()
			w.beginBusy = false
			b.mu.Unlock()
		case "rebegin":
			b.mu.Lock()
			var mine []*wmToken
			for _, tk := range w.myTokens(id) {
				if !tk.late { // a late unit does not keep the mark below its index: no guard
					mine = append(mine, tk)
				}
			}
			if len(mine) == 0 {
				b.mu.Unlock()
				continue
			}
			guard := mine[int(op.B)%len(mine)]
			j := guard.idx
			// candidates: values >= j whose first Begin has returned
			var cand []uint64
			for _, x := range w.begun {
				if x >= j {
					cand = append(cand, x)
				}
			}
			idx := j
			if len(cand) > 0 {
				idx = cand[int(op.C)%len(cand)]
			}
			if guard.cause != "" || guard.reported || w.wm.DoneUntil() >= j {
				// the guard was already overrun (reported on its own): a Begin
				// under it would be outside the usage discipline
				b.mu.Unlock()
				continue
			}
			w.startFlight(id, []uint64{idx})
			w.flights[id].guard = guard
			b.mu.Unlock()
			b.emit(id, "rebegin", int64(idx), int64(j), "call")
			w.wm.Begin(idx)
			w.endFlight(id)
		case "done":
			b.mu.Lock()
			mine := w.myTokens(id)
			if len(mine) == 0 {
				b.mu.Unlock()
				continue
			}
			tk := mine[int(op.B)%len(mine)]
			w.drop(tk)
			b.mu.Unlock()
			b.emit(id, "done", int64(tk.idx), 0, "call")
			w.wm.Done(tk.idx)
			b.emit(id, "done", int64(tk.idx), 0, "ret")
		case "donemany":
			w.doneMany(id, int(op.B))
		case "wait":
			b.mu.Lock()
			if len(w.begun) == 0 {
				b.mu.Unlock()
				continue
			}
			idx := w.begun[int(op.B)%len(w.begun)]
			self := false
			for _, tk := range w.myTokens(id) {
				if tk.idx <= idx {
					self = true
				}
			}
			b.mu.Unlock()
			if self {
				continue // would wait for itself
			}
			b.emit(id, "wait", int64(idx), 0, "call")
			err := w.wm.WaitForMark(ctx, idx)
			if err != nil {
				b.emit(id, "wait_cancelled", int64(idx), 0, "")
				return
			}
			b.mu.Lock()
			var bad uint64
			for _, tk := range w.tokens {
				if tk.late && tk.idx == idx {
					continue // the mark may already stand on a late unit's index
				}
				if tk.idx <= idx && (bad == 0 || tk.idx < bad) {
					bad = tk.idx
				}
			}
			b.mu.Unlock()
			if bad != 0 {
				b.emit(id, "wait_early", int64(idx), int64(bad), "")
			} else {
				b.emit(id, "wait_ok", int64(idx), 0, "")
			}
		}
	}
	// drain: finish what this task still holds
	b.sched.Yield(nil, "h.op")
	w.doneMany(id, 1<<30)
}

func (w *wmWorld) doneMany(id int, max int) {
	b := w.b
	b.mu.Lock()
	mine := w.myTokens(id)
	if len(mine) == 0 {
		b.mu.Unlock()
		return
	}
	sort.SliceStable(mine, func(i, j int) bool { return mine[i].idx > mine[j].idx })
	if max < len(mine) {
		mine = mine[:max]
	}
	idxs := make([]uint64, 0, len(mine))
	for _, tk := range mine {
		idxs = append(idxs, tk.idx)
		w.drop(tk)
	}
	b.mu.Unlock()
	b.emit(id, "donemany", int64(idxs[0]), int64(len(idxs)), "call")
	w.wm.DoneMany(idxs)
	b.emit(id, "donemany", int64(idxs[0]), int64(len(idxs)), "ret")
}

// startFlight is called with b.mu held.
func (w *wmWorld) startFlight(id int, idxs []uint64) {
	mark := w.wm.DoneUntil()
	f := &wmFlight{}
	for _, x := range idxs {
		u := &wmUnit{idx: x, task: id}
		if mark >= x {
			// Only reachable for a new index (re-begins are skipped when their guard
			// is overrun): x is larger than every index ever begun, so the mark ran
			// ahead of lastIndex. Reported when the Begin has returned.
			u.cause = "mark_beyond_last_index"
			w.b.seq++
			w.b.events = append(w.b.events, event{task: id, seq: w.b.seq, kind: "illegal_begin", a: int64(x)})
		}
		f.units = append(f.units, u)
	}
	w.flights[id] = f
}

func (w *wmWorld) endFlight(id int) {
	b := w.b
	b.mu.Lock()
	f := w.flights[id]
	delete(w.flights, id)
	for _, u := range f.units {
		if f.guard != nil && (f.guard.cause != "" || f.guard.reported) {
			// the guard was overrun while this Begin ran: that is the guard's
			// violation; do not charge the consequence a second time
			u.reported = true
		}
		w.tokens = append(w.tokens, u)
		w.noteBegun(u.idx)
	}
	b.mu.Unlock()
	b.emit(id, "begin", int64(f.units[0].idx), int64(len(f.units)), "ret")
}
