package unitsim

import (
	"fmt"
	"os"
	"path/filepath"
	"strings"
	"syscall"
	"testing"
	"testing/synctest"
	"time"

	NoKV "github.com/feichai0017/NoKV"
	"github.com/feichai0017/NoKV/utils"
	"github.com/feichai0017/NoKV/verifhook"
	"github.com/feichai0017/NoKV/vfs"

	"verif/sim"
)

// C33: at most one database holds a working directory at a time.
//
// 2-3 contenders loop AcquireDirLock(dir, simfs) -> hold -> Release(). Every
// SimFS call made by a contender is a scheduling point (SimFS.Hook), plus the
// explicit site in Release between unlock/close and unlink. flock arbitrates
// open file descriptions, so contenders in one process stand for contenders
// in several. Variant "db": the contenders open and close whole NoKV.DBs; only
// the LOCK file operations are scheduling points there.

func init() {
	props["C33"] = sim.PropSpec{Gen: genC33, Exec: execC33}
}

func genC33(r *sim.Rand, tier string) *sim.Case {
	c := &sim.Case{Cfg: map[string]int64{}}
	ntasks := r.Pick(2, 2, 3, 3)
	c.Cfg["tasks"] = int64(ntasks)
	c.Cfg["sticky"] = int64(r.Pick(0, 2, 4, 8))
	db := r.Intn(200) == 0
	if db {
		c.Cfg["db"] = 1
	}
	n := 2 + r.Intn(7)
	if db {
		n = 2 + r.Intn(4)
	}
	for i := 0; i < n; i++ {
		c.Ops = append(c.Ops, sim.Op{K: "lock", A: int64(r.Intn(ntasks)), B: int64(r.Intn(3)), C: int64(r.Pick(1, 1, 1, 2))})
	}
	return c
}

type dirHolder struct {
	holding bool
	ino     uint64
}

var c33Seq int

func fileIno(fi os.FileInfo, err error) uint64 {
	if err != nil || fi == nil {
		return 0
	}
	if st, ok := fi.Sys().(*syscall.Stat_t); ok {
		return st.Ino
	}
	return 0
}

func execC33(t *testing.T, c *sim.Case) *sim.Result {
	res := sim.NewResult()
	synctest.Test(t, func(t *testing.T) {
		b := newBed(t, c, res)
		defer b.close()
		c33Seq++
		dir := filepath.Join(sim.Scratch(), fmt.Sprintf("c33-%d", c33Seq))
		_ = os.RemoveAll(dir)
		_ = os.MkdirAll(dir, 0o755)
		defer os.RemoveAll(dir)
		fs := sim.NewSimFS(dir)
		lastIno := map[int]uint64{}
		dbMode := c.CfgInt("db", 0) == 1
		fs.Hook = func(op, path string) {
			if dbMode && filepath.Base(path) != "LOCK" {
				return
			}
			b.sched.Yield(nil, "fs."+op)
		}
		if dbMode {
			verifhook.Set("lsm.no-background-compaction", 1)
			verifhook.Set("lsm.serial-table-build", 1)
			verifhook.BeforeLockFn = nil
			// engine workers are not tasks here: only contenders park
			b.sched.Ignore = func(site string) bool {
				return !strings.HasPrefix(site, "fs.") && !strings.HasPrefix(site, "h.") && site != "dirlock.release.unlocked" && site != "start"
			}
		}
		// which LOCK inode did the running contender open last (= the one it flocks)
		lockFS := &lockSpyFS{SimFS: fs, opened: func(ino uint64) {
			b.mu.Lock()
			lastIno[b.running] = ino
			b.mu.Unlock()
			// scheduling point between open(LOCK) and flock: the previous holder may
			// release and a third contender may create and lock a new LOCK file here
			b.sched.Yield(nil, "fs.lock_opened")
		}}
		ntasks := int(c.CfgInt("tasks", 2))
		if ntasks < 1 {
			ntasks = 1
		}
		holders := make([]*dirHolder, ntasks)
		per := make([][]sim.Op, ntasks)
		for _, op := range c.Ops {
			ti := int(op.A) % ntasks
			if ti < 0 {
				ti = -ti
			}
			per[ti] = append(per[ti], op)
		}
		for ti := 0; ti < ntasks; ti++ {
			h := &dirHolder{}
			holders[ti] = h
			ops := per[ti]
			b.spawn(fmt.Sprintf("t%d", ti), func(id int) {
				for _, op := range ops {
					b.sched.Yield(nil, "h.op")
					b.emit(id, "acquire", 0, 0, "")
					var release func() error
					if dbMode {
						db, err := openDB(dir, lockFS)
						if err != nil {
							b.emit(id, "acquire_failed", 0, 0, classifyLockErr(err))
							continue
						}
						b.mu.Lock()
						h.ino = lastIno[id]
						b.mu.Unlock()
						release = db.Close
					} else {
						l, err := utils.AcquireDirLock(dir, lockFS)
						if err != nil {
							b.emit(id, "acquire_failed", 0, 0, classifyLockErr(err))
							continue
						}
						h.ino = fileIno(l.VerifFile().Stat())
						release = func() error {
							err := l.Release()
							if op.C >= 2 {
								b.sched.Yield(nil, "h.rerelease")
								_ = l.Release()
							}
							return err
						}
					}
					h.holding = true
					b.emit(id, "acquired", 0, 0, "")
					for k := int64(0); k < 1+op.B%3; k++ {
						b.sched.Yield(nil, "h.hold")
					}
					h.holding = false // the release starts here
					b.emit(id, "release", 0, 0, "")
					err := release()
					s := ""
					if err != nil {
						s = "error"
					}
					b.emit(id, "released", 0, 0, s)
				}
			})
		}
		synctest.Wait()

		refused := false
		reported := false
		for b.step() {
			if dbMode {
				sim.Beat()
			}
			for _, e := range b.drain() {
				res.Trace.Add("t%d %s %s", e.task, e.kind, e.s)
				b.logf("  t%d %s %s", e.task, e.kind, e.s)
				switch e.kind {
				case "panic":
					res.Violate(res.Steps, "sut_panic", nil, "task %d: %s", e.task, e.s)
				case "acquire_failed":
					if e.s == "in_use" {
						refused = true
						res.Faults["acquire_refused"]++
					} else {
						res.Probes["acquire_error_"+e.s]++
					}
				case "released":
					if e.s != "" {
						res.Probes["release_error"]++
					}
				}
			}
			res.Checks++
			var hs []int
			for i, h := range holders {
				if h.holding {
					hs = append(hs, i)
				}
			}
			if len(hs) >= 2 && !reported {
				reported = true
				same := "same"
				if holders[hs[0]].ino != holders[hs[1]].ino {
					same = "different"
				}
				mode := "dirlock"
				if dbMode {
					mode = "db"
				}
				res.Violate(res.Steps, "two_holders", map[string]string{"lock_inodes": same},
					"contenders %v hold %s at the same time (mode %s; LOCK inodes %d and %d: %s)", hs, dir, mode,
					holders[hs[0]].ino, holders[hs[1]].ino, same)
			}
			if len(hs) < 2 {
				reported = false
			}
		}
		for _, e := range b.drain() {
			res.Trace.Add("t%d %s %s", e.task, e.kind, e.s)
		}
		res.Nontrivial = refused
		if dbMode {
			res.Faults["db_mode_run"]++
		}
	})
	return res
}

// lockSpyFS reports the inode of every LOCK file a contender opens.
type lockSpyFS struct {
	*sim.SimFS
	opened func(ino uint64)
}

func (l *lockSpyFS) OpenFileHandle(name string, flag int, perm os.FileMode) (vfs.File, error) {
	f, err := l.SimFS.OpenFileHandle(name, flag, perm)
	if err == nil && filepath.Base(name) == "LOCK" {
		l.opened(fileIno(f.Stat()))
	}
	return f, err
}

func classifyLockErr(err error) string {
	switch {
	case err == nil:
		return ""
	case strings.Contains(err.Error(), "already in use"):
		return "in_use"
	case os.IsNotExist(err) || strings.Contains(err.Error(), "no such file"):
		return "enoent"
	}
	return "other"
}

// openDB opens a small NoKV.DB on dir; Open panics when the directory lock
// cannot be taken.
func openDB(dir string, fs vfs.FS) (db *NoKV.DB, err error) {
	defer func() {
		if r := recover(); r != nil {
			db, err = nil, fmt.Errorf("%v", r)
		}
	}()
	opt := NoKV.NewDefaultOptions()
	opt.WorkDir = dir
	opt.FS = fs
	opt.MemTableSize = 4096
	opt.SSTableMaxSz = 1 << 20
	opt.ValueLogFileSize = 1 << 16
	opt.ValueLogBucketCount = 1
	opt.ValueLogHotBucketCount = 0
	opt.ValueLogGCInterval = 0
	opt.HotRingEnabled = false
	opt.ValueLogHotRingOverride = false
	opt.WriteHotKeyLimit = 0
	opt.EnableWALWatchdog = false
	opt.WALAutoGCInterval = time.Hour
	opt.NumCompactors = 1
	opt.BlockCacheSize = 0
	opt.BloomCacheSize = 0
	db = NoKV.Open(opt)
	return db, nil
}
