package unitsim

import (
	"bytes"
	"encoding/hex"
	"fmt"
	"math"
	"sort"
	"testing"
	"testing/synctest"

	"github.com/feichai0017/NoKV/kv"
	"github.com/feichai0017/NoKV/utils"
	"github.com/feichai0017/NoKV/verifhook"

	"verif/sim"
)

// C07: both memtable engines behave as the same ordered map.
//
// utils.NewSkiplist and utils.NewART directly. Sequential mode: a generated
// multiset of internal keys is inserted into both; every Search, forward and
// reverse iteration and Seek of both must agree with a sorted-slice model whose
// order comes from an independent comparator (cf asc, user key asc, version
// desc). Concurrent mode: 2-3 inserter tasks (plus a reader) interleaved at the
// yield sites in the skiplist tower CAS loop and ART tryInsert/replaceChild/
// storeValue; after quiescence both must contain exactly the inserted set.

func init() {
	props["C07"] = sim.PropSpec{Gen: genC07, Exec: execC07}
}

var c07Versions = []uint64{0, 1, 2, 5, 97, 98, 99, 255, 256, 1 << 32, math.MaxUint64 - 256, math.MaxUint64 - 1, math.MaxUint64}

var c07Alphabet = []byte{0x00, 0x01, 'a', 'b', 0xfe, 0xff}

func genUserKey(r *sim.Rand, mode int, fixedLen int) []byte {
	switch mode {
	case 0: // fixed length: prefix-free
		k := make([]byte, fixedLen)
		for i := range k {
			k[i] = c07Alphabet[r.Intn(len(c07Alphabet))]
		}
		if fixedLen > 8 { // long keys share a long prefix (ART prefix overflow > 16 bytes)
			for i := 0; i < fixedLen-2; i++ {
				k[i] = 'p'
			}
		}
		return k
	case 2: // the pairs the plain API produces
		return [][]byte{[]byte("k0"), []byte("k0\x00"), []byte("k"), []byte("k1"), []byte("k0\x00\x00"), []byte("k\xff")}[r.Intn(6)]
	}
	// arbitrary bytes and lengths, prefix pairs likely
	n := r.Pick(0, 1, 1, 2, 2, 3, 4, 18, 19)
	k := make([]byte, n)
	for i := range k {
		k[i] = c07Alphabet[r.Intn(len(c07Alphabet))]
	}
	if n >= 18 {
		for i := 0; i < 17; i++ {
			k[i] = 'p'
		}
	}
	return k
}

func genC07(r *sim.Rand, tier string) *sim.Case {
	c := &sim.Case{Cfg: map[string]int64{}}
	mode := r.Pick(0, 0, 0, 1, 1, 2)
	c.Cfg["keymode"] = int64(mode)
	fixedLen := r.Pick(1, 2, 3, 4, 20)
	conc := r.Intn(3) == 0
	ntasks := 1
	if conc {
		ntasks = r.Pick(2, 2, 3)
		c.Cfg["concurrent"] = 1
		c.Cfg["sticky"] = int64(r.Pick(0, 2, 4))
		c.Cfg["reader"] = int64(r.Intn(2))
	}
	c.Cfg["tasks"] = int64(ntasks)
	c.Cfg["arena"] = r.Pick64(1<<20, 1<<20, 1<<20, 1<<20, 1<<20, 1<<20, 1<<20, 2<<20)
	// a small pool of user keys so that versions pile up on the same key
	npool := r.Pick(1, 2, 3, 5, 8, 12)
	pool := make([][]byte, npool)
	for i := range pool {
		pool[i] = genUserKey(r, mode, fixedLen)
	}
	nvers := r.Pick(1, 2, 4, len(c07Versions))
	n := 1 + r.Intn(40)
	if conc {
		n = 2 + r.Intn(14)
	}
	for i := 0; i < n; i++ {
		uk := pool[r.Intn(npool)]
		c.Ops = append(c.Ops, sim.Op{K: "add", A: int64(r.Intn(3)), B: int64(r.Intn(nvers) * (len(c07Versions) / nvers)),
			C: int64(r.Intn(ntasks)), D: int64(1 + r.Intn(4)), S: hex.EncodeToString(uk)})
	}
	// Wide fan-out (sequential runs, 1 in 4): radix nodes with up to 256 children, so
	// that every node size and every growth step of the ART is exercised with the
	// extreme byte values present. Either many consecutive versions of one key
	// (the version suffix fans out) or many equal-length keys differing in one byte.
	if !conc && r.Intn(4) == 0 {
		c.Cfg["wide"] = 1
		cf := int64(r.Intn(3))
		cnt := r.Pick(5, 17, 49, 50, 70, 130, 256)
		if r.Intn(2) == 0 {
			uk := pool[0]
			base := r.Pick64(0, 200, 256, 512-40, 1<<32-30, -300, -256, -70)
			down := r.Intn(2) == 0
			for j := 0; j < cnt; j++ {
				v := base + int64(j)
				if down {
					v = base + int64(cnt-1-j)
				}
				c.Ops = append(c.Ops, sim.Op{K: "addv", A: cf, B: v, D: int64(1 + r.Intn(4)), S: hex.EncodeToString(uk)})
			}
		} else {
			prefix := pool[0]
			if len(prefix) > 3 {
				prefix = prefix[:3]
			}
			start, step := r.Intn(256), r.Pick(1, 3, 5, 255)
			for j := 0; j < cnt; j++ {
				uk := append(append([]byte{}, prefix...), byte(start+j*step))
				if r.Intn(2) == 0 {
					uk = append(uk, 'x')
				}
				c.Ops = append(c.Ops, sim.Op{K: "add", A: cf, B: int64(r.Intn(2)), D: int64(1 + r.Intn(4)), S: hex.EncodeToString(uk)})
			}
		}
	}
	return c
}

type mtEntry struct {
	cf   int
	uk   []byte
	ver  uint64
	ikey []byte
	vals [][]byte // acceptable values (sequential: exactly the last one written)
}

// modelLess is the engine-independent internal-key order: column family
// ascending, user key ascending, version descending.
func modelLess(a, b *mtEntry) bool {
	if a.cf != b.cf {
		return a.cf < b.cf
	}
	if c := bytes.Compare(a.uk, b.uk); c != 0 {
		return c < 0
	}
	return a.ver > b.ver
}

type mtModel struct {
	byKey map[string]*mtEntry
	order []*mtEntry // sorted
}

func (m *mtModel) sorted() []*mtEntry {
	if m.order != nil {
		return m.order
	}
	keys := make([]string, 0, len(m.byKey))
	for k := range m.byKey {
		keys = append(keys, k)
	}
	sort.Strings(keys)
	out := make([]*mtEntry, 0, len(keys))
	for _, k := range keys {
		out = append(out, m.byKey[k])
	}
	sort.SliceStable(out, func(i, j int) bool { return modelLess(out[i], out[j]) })
	m.order = out
	return out
}

// prefixRelated reports whether e's user key is a strict prefix of, or has as
// strict prefix, another user key of the same column family in the model.
func (m *mtModel) prefixRelated(cf int, uk []byte) bool {
	for _, o := range m.sorted() {
		if o.cf != cf || bytes.Equal(o.uk, uk) {
			continue
		}
		if bytes.HasPrefix(o.uk, uk) || bytes.HasPrefix(uk, o.uk) {
			return true
		}
	}
	return false
}

type memIndex interface {
	Add(e *kv.Entry)
	Search(key []byte) kv.ValueStruct
	NewIterator(opt *utils.Options) utils.Iterator
	DecrRef()
}

func addOp(op sim.Op) (cf int, uk []byte, ver uint64, ok bool) {
	uk, err := hex.DecodeString(op.S)
	if err != nil {
		return 0, nil, 0, false
	}
	cf = int(op.A % 3)
	if cf < 0 {
		cf = -cf
	}
	if op.K == "addv" { // explicit version (two's complement for the top of the range)
		return cf, uk, uint64(op.B), true
	}
	vi := int(op.B) % len(c07Versions)
	if vi < 0 {
		vi = -vi
	}
	return cf, uk, c07Versions[vi], true
}

func execC07(t *testing.T, c *sim.Case) *sim.Result {
	res := sim.NewResult()
	synctest.Test(t, func(t *testing.T) {
		b := newBed(t, c, res)
		defer b.close()
		arena := c.CfgInt("arena", 1<<20)
		sl := utils.NewSkiplist(arena)
		art := utils.NewART(arena)
		engines := []struct {
			name string
			idx  memIndex
		}{{"skiplist", sl}, {"art", art}}
		defer sl.DecrRef()
		defer art.DecrRef()
		model := &mtModel{byKey: map[string]*mtEntry{}}
		conc := c.CfgInt("concurrent", 0) == 1
		ntasks := int(c.CfgInt("tasks", 1))
		if ntasks < 1 {
			ntasks = 1
		}

		record := func(i int, op sim.Op) (*kv.Entry, bool) {
			cf, uk, ver, ok := addOp(op)
			if !ok {
				return nil, false
			}
			ikey := kv.InternalKey(kv.ColumnFamily(cf), uk, ver)
			val := []byte(fmt.Sprintf("v%d", i))
			e := model.byKey[string(ikey)]
			if e == nil {
				e = &mtEntry{cf: cf, uk: uk, ver: ver, ikey: ikey}
				model.byKey[string(ikey)] = e
				model.order = nil
			}
			if conc {
				e.vals = append(e.vals, val)
			} else {
				e.vals = [][]byte{val}
			}
			return &kv.Entry{Key: ikey, Value: val, Version: ver, CF: kv.ColumnFamily(cf)}, true
		}

		if !conc {
			mid := len(c.Ops) / 2
			for i, op := range c.Ops {
				ent, ok := record(i, op)
				if !ok {
					continue
				}
				h := int(op.D)
				if h < 1 || h > 12 {
					h = 1
				}
				verifhook.Set("skiplist.height", h)
				for _, en := range engines {
					if msg := safely(func() { en.idx.Add(ent) }); msg != "" {
						res.Violate(i, "sut_panic", map[string]string{"engine": en.name, "op": "add"}, "Add(%x) panicked: %s", ent.Key, msg)
					}
				}
				res.Steps++
				res.Trace.Add("add %d %x %d", ent.CF, ent.Key, ent.Version)
				if i == mid && len(c.Ops) > 6 {
					checkEngines(b, res, model, engines[0].name, engines[0].idx, i)
					checkEngines(b, res, model, engines[1].name, engines[1].idx, i)
				}
			}
			checkEngines(b, res, model, engines[0].name, engines[0].idx, len(c.Ops))
			checkEngines(b, res, model, engines[1].name, engines[1].idx, len(c.Ops))
			res.Nontrivial = len(model.byKey) >= 2
			return
		}

		// concurrent mode: the model is complete before the tasks start
		type job struct {
			ent *kv.Entry
			h   int
		}
		per := make([][]job, ntasks)
		for i, op := range c.Ops {
			ent, ok := record(i, op)
			if !ok {
				continue
			}
			ti := int(op.C) % ntasks
			if ti < 0 {
				ti = -ti
			}
			h := int(op.D)
			if h < 1 || h > 12 {
				h = 1
			}
			per[ti] = append(per[ti], job{ent, h})
		}
		for ti := 0; ti < ntasks; ti++ {
			jobs := per[ti]
			b.spawn(fmt.Sprintf("ins%d", ti), func(id int) {
				for _, j := range jobs {
					for _, en := range engines {
						b.sched.Yield(nil, "h.op")
						verifhook.Set("skiplist.height", j.h) // tower height of the next node: a function of the schedule, not of runtime.fastrand
						en.idx.Add(j.ent)
						b.emit(id, "added", int64(j.ent.Version), 0, en.name+" "+hex.EncodeToString(j.ent.Key))
					}
				}
			})
		}
		if c.CfgInt("reader", 0) == 1 {
			probes := model.sorted()
			b.spawn("reader", func(id int) {
				for round := 0; round < 3; round++ {
					for _, p := range probes {
						b.sched.Yield(nil, "h.read")
						for _, en := range engines {
							vs := en.idx.Search(p.ikey)
							if len(vs.Value) == 0 {
								continue // not there yet
							}
							if !acceptable(model, p.cf, p.uk, p.ver, vs) {
								b.emit(id, "bad_read", int64(p.ver), 0, fmt.Sprintf("%s Search(%x) = %q v%d", en.name, p.ikey, vs.Value, vs.Version))
							}
						}
					}
				}
			})
		}
		synctest.Wait()
		overlap := false
		for b.step() {
			for _, e := range b.drain() {
				res.Trace.Add("t%d %s %d %s", e.task, e.kind, e.a, e.s)
				b.logf("  t%d %s %d %s", e.task, e.kind, e.a, e.s)
				switch e.kind {
				case "panic":
					res.Violate(res.Steps, "sut_panic", map[string]string{"op": "concurrent_add"}, "task %d: %s", e.task, e.s)
				case "bad_read":
					res.Checks++
					res.Violate(res.Steps, "mismatch", map[string]string{"engine": "any", "mode": "concurrent", "op": "concurrent_search", "prefix_pair": "no", "kind": "wrong_result"},
						"concurrent reader saw a value never written for that key/version range: %s", e.s)
				}
			}
			mid := 0
			for _, tk := range b.tasks {
				if b.sched.Parked(tk) && tk.Site != "start" && tk.Site != "h.op" && tk.Site != "h.read" {
					mid++
				}
			}
			if mid >= 2 {
				overlap = true
			}
		}
		checkEngines(b, res, model, engines[0].name, engines[0].idx, len(c.Ops))
		checkEngines(b, res, model, engines[1].name, engines[1].idx, len(c.Ops))
		res.Nontrivial = overlap
	})
	return res
}

func safely(f func()) (msg string) {
	defer func() {
		if r := recover(); r != nil {
			msg = fmt.Sprint(r)
		}
	}()
	f()
	return ""
}

// acceptable: vs is a value written for (cf, uk) at some version <= ver.
func acceptable(m *mtModel, cf int, uk []byte, ver uint64, vs kv.ValueStruct) bool {
	for _, e := range m.sorted() {
		if e.cf != cf || !bytes.Equal(e.uk, uk) || e.ver > ver {
			continue
		}
		for _, v := range e.vals {
			if bytes.Equal(v, vs.Value) {
				return true
			}
		}
	}
	return false
}

// valueOK: val is (one of) the value(s) written for exactly this internal key.
// Values are unique per insert, so they identify the entry; the Version field
// of ValueStruct is not stored by the arena encoding and is not compared.
func valueOK(e *mtEntry, val []byte, _ uint64) bool {
	for _, v := range e.vals {
		if bytes.Equal(v, val) {
			return true
		}
	}
	return false
}

// probeKeys: every stored key, its version neighbours, the extremes, and
// absent user keys next to stored ones.
func probeKeys(m *mtModel) []*mtEntry {
	seen := map[string]bool{}
	var out []*mtEntry
	add := func(cf int, uk []byte, ver uint64) {
		ik := kv.InternalKey(kv.ColumnFamily(cf), uk, ver)
		if seen[string(ik)] {
			return
		}
		seen[string(ik)] = true
		out = append(out, &mtEntry{cf: cf, uk: uk, ver: ver, ikey: ik})
	}
	for _, e := range m.sorted() {
		add(e.cf, e.uk, e.ver)
		if e.ver > 0 {
			add(e.cf, e.uk, e.ver-1)
		}
		if e.ver < math.MaxUint64 {
			add(e.cf, e.uk, e.ver+1)
		}
		add(e.cf, e.uk, math.MaxUint64)
		add(e.cf, e.uk, 0)
		add(e.cf, append(append([]byte{}, e.uk...), 0x00), e.ver)
		add(e.cf, append(append([]byte{}, e.uk...), 0xff), math.MaxUint64)
		if len(e.uk) > 0 {
			add(e.cf, e.uk[:len(e.uk)-1], e.ver)
			add(e.cf, e.uk[:len(e.uk)-1], math.MaxUint64)
		}
		add((e.cf+1)%3, e.uk, e.ver)
	}
	if len(out) > 160 {
		out = out[:160]
	}
	return out
}

func checkEngines(b *bed, res *sim.Result, m *mtModel, name string, idx memIndex, step int) {
	order := m.sorted()
	reported := map[string]bool{}
	mode := "sequential"
	if b.c.CfgInt("concurrent", 0) == 1 {
		mode = "concurrent"
	}
	// Which stored keys does the engine return at all (complete forward scan)?
	present := map[string]bool{}
	_ = safely(func() {
		it := idx.NewIterator(&utils.Options{IsAsc: true})
		defer it.Close()
		n := 0
		for it.Rewind(); it.Valid() && n < len(order)+4; it.Next() {
			present[string(it.Item().Entry().Key)] = true
			n++
		}
	})
	// violate: exp is the entry the model expects at the point of disagreement
	// (nil = none): kind says whether the engine has lost that entry altogether.
	violate := func(op string, related bool, exp *mtEntry, format string, a ...any) {
		pp := "no"
		if related {
			pp = "yes"
		}
		kind := "wrong_result"
		if exp != nil && !present[string(exp.ikey)] {
			kind = "missing"
		}
		key := op + pp + kind
		if reported[key] {
			return
		}
		reported[key] = true
		detail := fmt.Sprintf(format, a...)
		res.Trace.Add("mismatch %s %s %s %s", name, op, pp, kind)
		b.logf("MISMATCH %s %s prefix_pair=%s kind=%s: %s", name, op, pp, kind, detail)
		res.Violate(step, "mismatch", map[string]string{"engine": name, "mode": mode, "op": op, "prefix_pair": pp, "kind": kind},
			"%s (%d entries stored, %s inserts)", detail, len(order), mode)
	}
	// lower bound in model order
	lowerBound := func(p *mtEntry) int {
		return sort.Search(len(order), func(i int) bool { return !modelLess(order[i], p) })
	}
	probes := probeKeys(m)

	// --- Search
	for _, p := range probes {
		res.Checks++
		var vs kv.ValueStruct
		if msg := safely(func() { vs = idx.Search(p.ikey) }); msg != "" {
			res.Violate(step, "sut_panic", map[string]string{"engine": name, "op": "search"}, "Search(%x) panicked: %s", p.ikey, msg)
			continue
		}
		var exp *mtEntry
		if i := lowerBound(p); i < len(order) && order[i].cf == p.cf && bytes.Equal(order[i].uk, p.uk) {
			exp = order[i]
		}
		switch {
		case exp == nil && len(vs.Value) == 0:
		case exp != nil && valueOK(exp, vs.Value, vs.Version):
		default:
			want := "nothing"
			if exp != nil {
				want = fmt.Sprintf("%q (version %d)", exp.vals, exp.ver)
			}
			violate("search", m.prefixRelated(p.cf, p.uk), exp, "%s.Search(cf=%d key=%q version=%d) = %q, want %s",
				name, p.cf, p.uk, p.ver, vs.Value, want)
		}
	}

	// --- full iteration, both directions
	for _, asc := range []bool{true, false} {
		op := "iter_fwd"
		if !asc {
			op = "iter_rev"
		}
		var got []*kv.Entry
		msg := safely(func() {
			it := idx.NewIterator(&utils.Options{IsAsc: asc})
			defer it.Close()
			for it.Rewind(); it.Valid() && len(got) < len(order)+4; it.Next() {
				e := it.Item().Entry()
				got = append(got, &kv.Entry{Key: append([]byte{}, e.Key...), Value: append([]byte{}, e.Value...), Version: e.Version})
			}
		})
		if msg != "" {
			res.Violate(step, "sut_panic", map[string]string{"engine": name, "op": op}, "iteration panicked: %s", msg)
			continue
		}
		res.Checks++
		for i := 0; i < len(order) || i < len(got); i++ {
			var exp *mtEntry
			if i < len(order) {
				exp = order[i]
				if !asc {
					exp = order[len(order)-1-i]
				}
			}
			if exp != nil && i < len(got) && bytes.Equal(got[i].Key, exp.ikey) && valueOK(exp, got[i].Value, got[i].Version) {
				continue
			}
			related := false
			want, have := "end", "end"
			if exp != nil {
				related = related || m.prefixRelated(exp.cf, exp.uk)
				want = fmt.Sprintf("cf=%d key=%q version=%d", exp.cf, exp.uk, exp.ver)
			}
			if i < len(got) {
				cf, uk, ver := kv.SplitInternalKey(got[i].Key)
				related = related || m.prefixRelated(int(cf), uk)
				have = fmt.Sprintf("cf=%d key=%q version=%d value=%q", cf, uk, ver, got[i].Value)
			}
			violate(op, related, exp, "%s iteration asc=%v position %d: got %s, want %s (%d returned, %d stored)", name, asc, i, have, want, len(got), len(order))
			break
		}
	}

	// --- Seek + a few Next, both directions
	for _, asc := range []bool{true, false} {
		op := "seek_fwd"
		if !asc {
			op = "seek_rev"
		}
		msg := safely(func() {
			it := idx.NewIterator(&utils.Options{IsAsc: asc})
			defer it.Close()
			for _, p := range probes {
				res.Checks++
				// expected position in model order
				pos := lowerBound(p) // first >= p
				if !asc {
					// last <= p
					if pos < len(order) && bytes.Equal(order[pos].ikey, p.ikey) {
						// exact
					} else {
						pos--
					}
				}
				it.Seek(p.ikey)
				for k := 0; k < 3; k++ {
					var exp *mtEntry
					if pos >= 0 && pos < len(order) {
						exp = order[pos]
					}
					ok := false
					have := "invalid"
					var gcf int
					var guk []byte
					if it.Valid() {
						e := it.Item().Entry()
						cf, uk, ver := kv.SplitInternalKey(e.Key)
						gcf, guk = int(cf), uk
						have = fmt.Sprintf("cf=%d key=%q version=%d value=%q", cf, uk, ver, e.Value)
						ok = exp != nil && bytes.Equal(e.Key, exp.ikey) && valueOK(exp, e.Value, e.Version)
					} else {
						ok = exp == nil
					}
					if !ok {
						related := m.prefixRelated(p.cf, p.uk)
						want := "invalid"
						if exp != nil {
							related = related || m.prefixRelated(exp.cf, exp.uk)
							want = fmt.Sprintf("cf=%d key=%q version=%d", exp.cf, exp.uk, exp.ver)
						}
						if it.Valid() {
							related = related || m.prefixRelated(gcf, guk)
						}
						violate(op, related, exp, "%s Seek(cf=%d key=%q version=%d) asc=%v then %d x Next: got %s, want %s",
							name, p.cf, p.uk, p.ver, asc, k, have, want)
						break
					}
					if exp == nil {
						break
					}
					it.Next()
					if asc {
						pos++
					} else {
						pos--
					}
				}
			}
		})
		if msg != "" {
			res.Violate(step, "sut_panic", map[string]string{"engine": name, "op": op}, "seek panicked: %s", msg)
		}
	}
}
