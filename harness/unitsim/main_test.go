// Package unitsim is engine E2: one component of NoKV alone under the seeded
// task scheduler (sim.Sched inside a synctest bubble). Interleavings are
// explored at the verifhook.Yield / verifhook.BeforeLock sites compiled into
// /repo under build tag verif.
package unitsim

import (
	"io"
	"log"
	"testing"

	"verif/sim"
)

var props = map[string]sim.PropSpec{}

func init() { log.SetOutput(io.Discard) }

func TestVerif(t *testing.T) { sim.Main(t, "unitsim", props) }
