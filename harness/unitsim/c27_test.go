package unitsim

import (
	"context"
	"encoding/json"
	"fmt"
	"os"
	"path/filepath"
	"sort"
	"testing"
	"testing/synctest"

	"github.com/feichai0017/NoKV/pb"
	"github.com/feichai0017/NoKV/pd/core"
	pdserver "github.com/feichai0017/NoKV/pd/server"
	pdstorage "github.com/feichai0017/NoKV/pd/storage"
	"github.com/feichai0017/NoKV/pd/tso"

	"verif/sim"
)

// C27: PD timestamps and IDs are unique and increasing across restarts.
//
// A real pd/server.Service with a pd/storage.LocalStore on SimFS; 2-4 tasks
// call Tso/AllocID; scheduling points: pd.persist.enter (before the counters
// are read), pd.save.enter (after they were read), the stateMu acquisition and
// the SimFS WriteFile/Rename of the checkpoint. Process-crash images are cut
// at chosen FS events and at the end; each image is restarted the way
// cmd/nokv/pd.go:runPDCmd does it (that code is in package main, the few
// lines are replicated in startPD below) and allocation continues.

func init() {
	props["C27"] = sim.PropSpec{Gen: genC27, Exec: execC27}
}

func genC27(r *sim.Rand, tier string) *sim.Case {
	c := &sim.Case{Cfg: map[string]int64{}}
	ntasks := r.Pick(2, 2, 3, 3, 4)
	c.Cfg["tasks"] = int64(ntasks)
	c.Cfg["sticky"] = int64(r.Pick(0, 2, 4, 8))
	c.Cfg["warm"] = int64(r.Pick(0, 0, 2, 5))
	n := 3 + r.Intn(8)
	for i := 0; i < n; i++ {
		k := "tso"
		if r.Intn(3) == 0 {
			k = "id"
		}
		c.Ops = append(c.Ops, sim.Op{K: k, A: int64(r.Intn(ntasks)), B: int64(r.Pick(1, 1, 2, 3))})
	}
	nimg := r.Pick(0, 1, 2, 3)
	for i := 0; i < nimg; i++ {
		c.Ops = append(c.Ops, sim.Op{K: "image", A: int64(1 + r.Intn(2*n))})
	}
	return c
}

// pdInstance is one lifetime of the PD service.
type pdInstance struct {
	store            *pdstorage.LocalStore
	svc              *pdserver.Service
	idStart, tsStart uint64
}

// startPD replicates cmd/nokv/pd.go:runPDCmd for --workdir (defaults
// --id-start=1 --ts-start=1): OpenLocalStore, Load, ResolveAllocatorStarts,
// restore regions (none here), NewIDAllocator/NewAllocator/NewService, SetStorage.
func startPD(dir string, fs *sim.SimFS) (*pdInstance, error) {
	store, err := pdstorage.OpenLocalStore(dir, fs)
	if err != nil {
		return nil, err
	}
	snapshot, err := store.Load()
	if err != nil {
		_ = store.Close()
		return nil, err
	}
	idStart, tsStart := pdstorage.ResolveAllocatorStarts(1, 1, snapshot.Allocator)
	cluster := core.NewCluster()
	ids := core.NewIDAllocator(idStart)
	tsAlloc := tso.NewAllocator(tsStart)
	svc := pdserver.NewService(cluster, ids, tsAlloc)
	svc.SetStorage(store)
	return &pdInstance{store: store, svc: svc, idStart: idStart, tsStart: tsStart}, nil
}

type pdCall struct {
	kind     string // "tso" | "id"
	task     int
	first, n uint64
	invoked  int // logical time of invocation
	returned int // logical time of return (0 = in flight)
	life     int
}

type pdImage struct {
	dir        string
	at         string
	returned   []*pdCall // calls whose response had been returned at the image instant
	maxDurable [2]uint64 // largest checkpoint (id, ts) ever renamed into place before the instant
}

type pdWorld struct {
	b          *bed
	res        *sim.Result
	clock      int
	calls      []*pdCall
	images     []*pdImage
	maxDurable [2]uint64
}

func (w *pdWorld) call(inst *pdInstance, life, task int, kind string, n uint64) *pdCall {
	b := w.b
	b.mu.Lock()
	w.clock++
	c := &pdCall{kind: kind, task: task, n: n, invoked: w.clock, life: life}
	w.calls = append(w.calls, c)
	b.mu.Unlock()
	var err error
	if kind == "tso" {
		var resp *pb.TsoResponse
		resp, err = inst.svc.Tso(context.Background(), &pb.TsoRequest{Count: n})
		if err == nil {
			c.first, c.n = resp.GetTimestamp(), resp.GetCount()
		}
	} else {
		var resp *pb.AllocIDResponse
		resp, err = inst.svc.AllocID(context.Background(), &pb.AllocIDRequest{Count: n})
		if err == nil {
			c.first, c.n = resp.GetFirstId(), resp.GetCount()
		}
	}
	b.mu.Lock()
	w.clock++
	if err == nil {
		c.returned = w.clock
	} else {
		c.returned = -1
	}
	b.mu.Unlock()
	return c
}

func execC27(t *testing.T, c *sim.Case) *sim.Result {
	res := sim.NewResult()
	synctest.Test(t, func(t *testing.T) {
		b := newBed(t, c, res)
		defer b.close()
		c33Seq++
		root := filepath.Join(sim.Scratch(), fmt.Sprintf("c27-%d", c33Seq))
		_ = os.RemoveAll(root)
		dir := filepath.Join(root, "pd")
		_ = os.MkdirAll(dir, 0o755)
		defer os.RemoveAll(root)
		w := &pdWorld{b: b, res: res}

		fs := sim.NewSimFS(dir)
		fs.Hook = func(op, path string) {
			if op == "writefile" || op == "rename" {
				b.sched.Yield(nil, "fs."+op)
			}
		}
		// previous lifetime: sequential warm-up calls, clean stop
		life := 0
		if warm := int(c.CfgInt("warm", 0)); warm > 0 {
			inst, err := startPD(dir, fs)
			if err != nil {
				res.Violate(0, "start_failed", nil, "%v", err)
				return
			}
			for i := 0; i < warm && i < 8; i++ {
				kind := "tso"
				if i%3 == 2 {
					kind = "id"
				}
				cl := w.call(inst, life, -1, kind, uint64(1+i%2))
				res.Trace.Add("warm %s first=%d n=%d", kind, cl.first, cl.n)
			}
			_ = inst.store.Close()
			life++
		}
		inst, err := startPD(dir, fs)
		if err != nil {
			res.Violate(0, "start_failed", nil, "%v", err)
			return
		}
		res.Trace.Add("start life=%d id=%d ts=%d", life, inst.idStart, inst.tsStart)

		// images wanted at these FS-event ordinals of the concurrent phase
		want := map[int]bool{}
		ntasks := int(c.CfgInt("tasks", 2))
		if ntasks < 1 {
			ntasks = 1
		}
		per := make([][]sim.Op, ntasks)
		for _, op := range c.Ops {
			switch op.K {
			case "image":
				if op.A > 0 && len(want) < 4 {
					want[int(op.A)] = true
				}
			case "tso", "id":
				ti := int(op.A) % ntasks
				if ti < 0 {
					ti = -ti
				}
				per[ti] = append(per[ti], op)
			}
		}
		evNo := 0
		stateFile := filepath.Join(dir, pdstorage.StateFileName)
		fs.BeforeMutation = func(ev sim.FSEvent, torn int64) {
			// runs on the task goroutine that performs the FS call, FS lock held
			evNo++
			if ev.Op == "rename" && filepath.Base(ev.Path) == pdstorage.StateFileName {
				if data, err := os.ReadFile(stateFile + ".tmp"); err == nil {
					var st pdstorage.AllocatorState
					if json.Unmarshal(data, &st) == nil {
						b.mu.Lock()
						// the rename itself happens right after this hook returns; an
						// image cut at this very event does not contain it yet
						defer func(id, ts uint64) {
							if id > w.maxDurable[0] {
								w.maxDurable[0] = id
							}
							if ts > w.maxDurable[1] {
								w.maxDurable[1] = ts
							}
						}(st.IDCurrent, st.TSCurrent)
						b.mu.Unlock()
					}
				}
			}
			if want[evNo] {
				w.cutImage(root, dir, fmt.Sprintf("before fs event %d (%s %s)", evNo, ev.Op, filepath.Base(ev.Path)))
				res.Faults["crash_image_at_"+ev.Op]++
			}
		}

		for ti := 0; ti < ntasks; ti++ {
			ops := per[ti]
			b.spawn(fmt.Sprintf("t%d", ti), func(id int) {
				for _, op := range ops {
					b.sched.Yield(nil, "h.op")
					n := uint64(op.B)
					if n < 1 || n > 8 {
						n = 1
					}
					cl := w.call(inst, life, id, op.K, n)
					b.emit(id, op.K, int64(cl.first), int64(cl.n), "")
				}
			})
		}
		synctest.Wait()
		overlap := false
		for b.step() {
			for _, e := range b.drain() {
				res.Trace.Add("t%d %s first=%d n=%d", e.task, e.kind, e.a, e.b)
				b.logf("  t%d %s first=%d n=%d", e.task, e.kind, e.a, e.b)
				if e.kind == "panic" {
					res.Violate(res.Steps, "sut_panic", nil, "task %d: %s", e.task, e.s)
				}
			}
			mid := 0
			for _, tk := range b.tasks {
				if b.sched.Parked(tk) && tk.Site != "start" && tk.Site != "h.op" {
					mid++
				}
			}
			if mid >= 2 {
				overlap = true
			}
		}
		fs.BeforeMutation = nil
		w.cutImage(root, dir, "end")
		w.checkLifetime(life)
		_ = inst.store.Close()
		// clean restart after the warm-up lifetime: nothing may be handed out again
		if life > 0 {
			for _, kind := range []string{"id", "tso"} {
				var warm []*pdCall
				for _, cl := range w.calls {
					if cl.life == 0 {
						warm = append(warm, cl)
					}
				}
				before := maxValue(warm, kind)
				for _, cl := range w.calls {
					res.Checks++
					if cl.life == life && cl.kind == kind && cl.returned > 0 && cl.first <= before {
						res.Violate(res.Steps, "reused_after_restart", map[string]string{"kind": kind, "checkpoint": "clean_restart"},
							"after a clean restart %s %d was handed out again (largest before the restart: %d)", kind, cl.first, before)
						break
					}
				}
			}
		}

		// Restart every image and continue allocating.
		for k, img := range w.images {
			w.restart(img, life+1+k)
		}
		res.Nontrivial = overlap
	})
	return res
}

// cutImage copies the PD directory: what a process crash at this instant leaves.
func (w *pdWorld) cutImage(root, dir, at string) {
	w.b.mu.Lock()
	defer w.b.mu.Unlock()
	img := &pdImage{dir: filepath.Join(root, fmt.Sprintf("img%d", len(w.images))), at: at, maxDurable: w.maxDurable}
	if err := sim.CopyTree(dir, img.dir); err != nil {
		w.res.Probes["image_copy_error"]++
		return
	}
	for _, c := range w.calls {
		if c.returned > 0 {
			img.returned = append(img.returned, c)
		}
	}
	w.images = append(w.images, img)
	w.res.Trace.Add("image %d %s returned=%d", len(w.images)-1, at, len(img.returned))
	w.b.logf("  image %d %s returned=%d", len(w.images)-1, at, len(img.returned))
}

func maxValue(calls []*pdCall, kind string) uint64 {
	var m uint64
	for _, c := range calls {
		if c.kind == kind && c.returned > 0 && c.first+c.n-1 > m {
			m = c.first + c.n - 1
		}
	}
	return m
}

// checkLifetime: within one lifetime all values are distinct and real-time
// order is respected (A returned before B was invoked => A's values < B's).
func (w *pdWorld) checkLifetime(life int) {
	res := w.res
	for _, kind := range []string{"tso", "id"} {
		var cs []*pdCall
		for _, c := range w.calls {
			if c.life == life && c.kind == kind && c.returned > 0 {
				cs = append(cs, c)
			}
		}
		sort.SliceStable(cs, func(i, j int) bool { return cs[i].first < cs[j].first })
		for i := 0; i < len(cs); i++ {
			res.Checks++
			if cs[i].n == 0 || cs[i].first == 0 {
				res.Violate(res.Steps, "empty_allocation", map[string]string{"kind": kind}, "call returned first=%d count=%d", cs[i].first, cs[i].n)
			}
			if i+1 < len(cs) && cs[i].first+cs[i].n-1 >= cs[i+1].first {
				res.Violate(res.Steps, "duplicate_value", map[string]string{"kind": kind, "scope": "one_lifetime"},
					"%s ranges [%d,+%d) and [%d,+%d) overlap in lifetime %d", kind, cs[i].first, cs[i].n, cs[i+1].first, cs[i+1].n, life)
			}
			for j := 0; j < len(cs); j++ {
				res.Checks++
				if cs[i].returned < cs[j].invoked && cs[i].first+cs[i].n-1 >= cs[j].first {
					res.Violate(res.Steps, "order_violation", map[string]string{"kind": kind},
						"%s call returning [%d,+%d) completed before the call returning [%d,+%d) was invoked", kind, cs[i].first, cs[i].n, cs[j].first, cs[j].n)
				}
			}
		}
	}
}

func (w *pdWorld) restart(img *pdImage, life int) {
	res := w.res
	fs := sim.NewSimFS(img.dir)
	inst, err := startPD(img.dir, fs)
	if err != nil {
		res.Violate(res.Steps, "restart_failed", nil, "restart from image %q: %v", img.at, err)
		return
	}
	defer inst.store.Close()
	res.Faults["restart"]++
	res.Trace.Add("restart %s id=%d ts=%d", img.at, inst.idStart, inst.tsStart)
	w.b.logf("restart from image %s: id-start=%d ts-start=%d", img.at, inst.idStart, inst.tsStart)
	// what the image's checkpoint says
	var st pdstorage.AllocatorState
	if data, err := os.ReadFile(filepath.Join(img.dir, pdstorage.StateFileName)); err == nil {
		_ = json.Unmarshal(data, &st)
	}
	var after []*pdCall
	for i := 0; i < 4; i++ {
		kind := "tso"
		if i%2 == 1 {
			kind = "id"
		}
		cl := w.call(inst, life, -1, kind, uint64(1+i/2))
		res.Trace.Add("after-restart %s first=%d n=%d", kind, cl.first, cl.n)
		w.b.logf("  after restart %s first=%d n=%d", kind, cl.first, cl.n)
		after = append(after, cl)
	}
	w.checkLifetime(life)
	for ki, kind := range []string{"id", "tso"} {
		before := maxValue(img.returned, kind)
		ckpt := st.IDCurrent
		if kind == "tso" {
			ckpt = st.TSCurrent
		}
		reported := false
		for _, cl := range after {
			if cl.kind != kind || cl.returned <= 0 {
				continue
			}
			res.Checks++
			if cl.first <= before && !reported {
				reported = true
				why := "covers_responses"
				if ckpt < before {
					why = "late" // a response was returned before any checkpoint covering it was in place
					if img.maxDurable[ki] >= before {
						why = "regressed" // a covering checkpoint had been in place and was overwritten by an older one
					}
				}
				res.Violate(res.Steps, "reused_after_restart", map[string]string{"kind": kind, "checkpoint": why},
					"restart from image %q: %s %d handed out again (largest %s returned before the image instant: %d; checkpoint in the image: %d; largest checkpoint ever in place: %d)",
					img.at, kind, cl.first, kind, before, ckpt, img.maxDurable[ki])
			}
		}
	}
}
