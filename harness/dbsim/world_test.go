// Package dbsim is engine E1: one real NoKV.DB inside a synctest bubble on
// SimFS, maintenance and crash placement decided by the case.
package dbsim

import (
	"errors"
	"fmt"
	"io"
	"log"
	"os"
	"path/filepath"
	"sort"
	"strings"
	"testing"
	"testing/synctest"
	"time"

	NoKV "github.com/feichai0017/NoKV"
	"github.com/feichai0017/NoKV/kv"
	"github.com/feichai0017/NoKV/lsm"
	"github.com/feichai0017/NoKV/utils"
	"github.com/feichai0017/NoKV/verifhook"

	"verif/sim"
)

var cfs = []kv.ColumnFamily{kv.CFDefault, kv.CFLock, kv.CFWrite}

var keyNames = []string{"k0", "k1", "k2", "k", "k0\x00", "k\xff", "a", "zz"}

// World is one running database instance plus simulator plumbing.
type World struct {
	T     *testing.T
	C     *sim.Case
	Res   *sim.Result
	Dir   string
	FS    *sim.SimFS
	Sched *sim.Sched
	DB    *NoKV.DB
	Opt   *NoKV.Options
	step  int
	// ModeC: client operations run as tasks and commit-worker sites park.
	ModeC   bool
	usedART bool
	// TieSeen: (cf/key) names that had two equal-version copies below L0 at the
	// end of some maintenance step of this run (sticky: the ingest merge keeps
	// only one of them afterwards). Maintained by Maint for plain-API checks.
	TieSeen   map[string]bool
	TrackTies int // number of keys to track (0 = off)
	// DupSeen: "cf/key@version" names that had two stored copies at the end of some
	// step (value-log GC re-inserts live entries under their own internal key, so the
	// stale copy and the rewritten one coexist until a compaction drops one of them).
	DupSeen map[string]bool
	// InvSeen: (cf/key) names for which a lower version sat in a container searched
	// before one holding a higher version (see invKeys), at the end of some step.
	InvSeen map[string]bool
}

var worldSeq int

func init() { log.SetOutput(io.Discard) }

// curScratch is the scratch root of the running process: error texts of the engine
// carry absolute paths, which must not reach traces or violation keys (they differ
// from process to process).
var curScratch string

func scrub(msg string) string {
	if curScratch == "" {
		return msg
	}
	return strings.ReplaceAll(msg, curScratch, "<scratch>")
}

// NewWorld creates the scratch directory and simulator objects (inside the bubble).
func NewWorld(t *testing.T, c *sim.Case, res *sim.Result) *World {
	worldSeq++
	curValueScale = c.CfgInt("value_scale", 1)
	if curValueScale < 1 || c.CfgInt("memtable_size", 2048) < 1<<20 {
		// (an entry larger than the whole memtable makes SetBatch rotate memtables
		// forever - a configuration the engine does not guard against; not explored)
		curValueScale = 1
	}
	dir := filepath.Join(sim.Scratch(), fmt.Sprintf("w%d", worldSeq))
	_ = os.RemoveAll(dir)
	_ = os.MkdirAll(dir, 0o755)
	w := &World{T: t, C: c, Res: res, Dir: dir}
	curScratch = sim.Scratch()
	w.FS = sim.NewSimFS(dir)
	w.FS.Trace = res.Trace
	return w
}

// Options builds engine options from the case's configuration knobs.
func (w *World) Options(dir string) *NoKV.Options {
	c := w.C
	opt := NoKV.NewDefaultOptions()
	opt.WorkDir = dir
	opt.FS = w.FS
	opt.MemTableSize = c.CfgInt("memtable_size", 2048)
	if c.CfgInt("memtable_art", 0) == 1 {
		opt.MemTableEngine = NoKV.MemTableEngineART
	}
	// small table targets make compactions split their output into several tables
	// (in the middle of a key's version chain, between keys, ...)
	opt.SSTableMaxSz = c.CfgInt("sst_max", 1<<20)
	opt.ValueThreshold = c.CfgInt("value_threshold", 64)
	opt.ValueLogFileSize = int(c.CfgInt("vlog_file_size", 4096))
	opt.ValueLogBucketCount = int(c.CfgInt("vlog_buckets", 2))
	opt.ValueLogHotBucketCount = 0
	opt.ValueLogGCInterval = 0
	opt.ValueLogGCSampleFromHead = true
	opt.ValueLogGCSampleSizeRatio = 1.0
	opt.ValueLogGCSampleCountRatio = 1.0
	opt.HotRingEnabled = false
	opt.ValueLogHotRingOverride = false
	opt.WriteHotKeyLimit = 0
	if c.CfgInt("hot_routing", 0) == 1 && opt.ValueLogBucketCount >= 2 {
		// hot/cold value-log routing: a key written twice moves from a cold
		// bucket (high ids) to the hot bucket 0. Plain counting rings: no
		// rotation, decay or window (no background goroutines, no clock).
		opt.HotRingEnabled = true
		opt.HotRingRotationInterval, opt.HotRingDecayInterval, opt.HotRingWindowSlots = 0, 0, 0
		opt.ValueLogHotRingOverride = true
		opt.ValueLogHotRingBits = 4
		opt.ValueLogHotBucketCount = 1
		opt.ValueLogHotKeyThreshold = 2
	}
	opt.WriteBatchWait = time.Duration(c.CfgInt("batch_wait_us", 0)) * time.Microsecond
	opt.WriteBatchMaxCount = int(c.CfgInt("batch_max_count", 64))
	opt.MaxBatchCount = c.CfgInt("max_batch_count", 0)
	opt.MaxBatchSize = c.CfgInt("max_batch_size", 0)
	opt.BlockCacheSize = int(c.CfgInt("block_cache", 64))
	opt.BloomCacheSize = int(c.CfgInt("bloom_cache", 64))
	opt.SyncWrites = c.CfgInt("sync_writes", 0) == 1
	opt.ManifestSync = c.CfgInt("manifest_sync", 0) == 1
	opt.ManifestRewriteThreshold = c.CfgInt("manifest_rewrite", 64<<20)
	opt.EnableWALWatchdog = c.CfgInt("wal_watchdog", 0) == 1
	opt.WALAutoGCInterval = time.Hour
	opt.NumCompactors = 2
	opt.NumLevelZeroTables = int(c.CfgInt("l0_tables", 4))
	opt.IngestCompactBatchSize = int(c.CfgInt("ingest_batch", 4))
	opt.IngestShardParallelism = 2
	opt.DetectConflicts = c.CfgInt("detect_conflicts", 1) == 1
	return opt
}

// Open opens (or reopens) the database in dir; a panic from Open is returned as error.
func (w *World) Open(dir string) (err error) {
	verifhook.Reset()
	NoKV.VerifResetPools()
	verifhook.Set("lsm.no-background-compaction", 1)
	verifhook.Set("lsm.serial-table-build", 1)
	// Memtable arenas are 128 MiB by default and are cleared on allocation; the
	// arena is chunked and grows on demand, so a 1 MiB arena only makes runs
	// ~30x cheaper (knob 0 keeps the shipped size).
	verifhook.Set("lsm.arena-size", int(w.C.CfgInt("arena_size", 1<<20)))
	verifhook.Set("wal.buffer-size", int(w.C.CfgInt("wal_buffer", 0))) // 0 = shipped 256 KiB
	verifhook.Set("db.commit-queue-cap", int(w.C.CfgInt("commit_queue_cap", 0)))
	verifhook.Set("txn.sort-entries", 1)
	w.Sched = sim.NewSched(sim.NewRand(w.C.Seed, w.C.Run, 1), w.C.Sched, nil)
	if !w.ModeC {
		w.Sched.Ignore = func(site string) bool { return site != "lsm.flush.next" }
	}
	verifhook.YieldFn = w.Sched.Yield
	verifhook.BeforeLockFn = func(l verifhook.TryLocker) { w.Sched.BeforeLock(l) }
	w.FS.Root = dir
	w.Opt = w.Options(dir)
	if w.Opt.MemTableEngine == NoKV.MemTableEngineART {
		w.usedART = true
	}
	defer func() {
		if r := recover(); r != nil {
			err = fmt.Errorf("open panicked: %v", r)
			w.DB = nil
		}
	}()
	w.DB = NoKV.Open(w.Opt)
	synctest.Wait()
	return nil
}

// Close releases parked workers and closes the database.
func (w *World) Close() error {
	if w.DB == nil {
		return nil
	}
	// Flush what is pending one memtable at a time before the workers are let go:
	// otherwise the flush worker and the closing goroutine run concurrently and
	// the order of their file operations is not ours.
	if !w.ModeC {
		for i := 0; i < 64 && w.FlushOne(); i++ {
		}
	}
	w.Sched.Passthrough()
	err := w.DB.Close()
	synctest.Wait()
	w.DB = nil
	verifhook.Reset()
	return err
}

func (w *World) Cleanup() {
	if w.DB != nil {
		_ = w.Close()
	}
	_ = os.RemoveAll(w.Dir)
}

// FlushOne lets a parked flush worker flush one sealed memtable. The engine
// starts one flush worker; if a build has several, which of the parked workers
// (each already holding its memtable) goes first is a scheduler choice.
func (w *World) FlushOne() bool {
	var parked []*sim.Task
	for _, t := range w.Sched.Enabled() {
		if t.Site == "lsm.flush.next" {
			parked = append(parked, t)
		}
	}
	if len(parked) == 0 {
		return false
	}
	t := parked[0]
	if len(parked) > 1 {
		t = parked[w.Sched.Choose(len(parked))]
		w.Res.Probes["flush_workers_raced"]++
	}
	w.Sched.Release(t)
	w.Res.Faults["flush"]++
	return true
}

// Maint interprets one maintenance step; false if the op is not a maintenance op.
// A panic of the engine on the calling goroutine is reported as a violation
// ("maintenance must succeed") instead of killing the worker.
func (w *World) Maint(op sim.Op) (handled bool) {
	defer func() {
		if r := recover(); r != nil {
			msg := fmt.Sprint(r)
			kind := "other"
			switch {
			case strings.Contains(msg, "cs.tables"):
				kind = "compact_state_tables"
			case strings.Contains(msg, "refcount underflow"):
				kind = "table_refcount"
			case strings.Contains(msg, "keyRange"):
				kind = "compact_state_range"
			case strings.Contains(msg, "index out of range"), strings.Contains(msg, "nil pointer"):
				kind = "runtime_error"
			}
			w.Res.Violate(w.step, "maintenance_panicked", map[string]string{"op": op.K, "panic": kind}, "%s panicked: %s", op.String(), msg)
			handled = true
		}
	}()
	handled = w.maint(op)
	if w.TrackTies > 0 && w.DB != nil {
		if w.TieSeen == nil {
			w.TieSeen = map[string]bool{}
		}
		tieKeys(w, w.TrackTies, w.TieSeen)
		w.noteDups()
		if w.InvSeen == nil {
			w.InvSeen = map[string]bool{}
		}
		invKeys(w, w.TrackTies, w.InvSeen)
	}
	return handled
}

func (w *World) noteDups() {
	if w.DupSeen == nil {
		w.DupSeen = map[string]bool{}
	}
	for _, cf := range cfs {
		for ki := 0; ki < w.TrackTies && ki < len(keyNames); ki++ {
			n := map[uint64]int{}
			for _, cp := range w.DB.VerifLocate(cf, []byte(keyNames[ki])) {
				n[cp.Version]++
				if n[cp.Version] == 2 {
					w.DupSeen[fmt.Sprintf("%d/%s@%d", cf, keyNames[ki], cp.Version)] = true
				}
			}
		}
	}
}

func (w *World) maint(op sim.Op) bool {
	db := w.DB
	switch op.K {
	case "rotate":
		db.VerifRotate()
		synctest.Wait()
		w.Res.Faults["rotate"]++
	case "flush":
		w.FlushOne()
	case "flushall":
		for i := 0; i < 64 && w.FlushOne(); i++ {
		}
	case "compact":
		level := int(op.A % 7)
		mode := uint8(op.B % 3)
		adj := []float64{1.5, 0.5, 0}[op.C%3]
		id := int(op.D % 2)
		// Mimic the picker: levels holding ingest tables are only compacted in
		// an ingest mode; levels without ingest tables only in regular mode.
		hasIngest := false
		for _, tb := range db.VerifLSM().VerifTables() {
			if tb.Level == level && tb.Ingest {
				hasIngest = true
			}
		}
		if level == 0 || !hasIngest {
			mode = 0
		} else if mode == 0 {
			mode = 1
		}
		err := db.VerifLSM().VerifCompact(id, level, mode, adj)
		synctest.Wait()
		if err == nil {
			w.Res.Faults[fmt.Sprintf("compact_L%d_m%d", minInt(level, 2), mode)]++
		} else if !errors.Is(err, utils.ErrFillTables) {
			w.Res.Probes["compact_error"]++
		}
	case "compactonce":
		if db.VerifLSM().VerifCompactOnce(int(op.A % 2)) {
			w.Res.Faults["compact_picked"]++
		}
		synctest.Wait()
	case "gc":
		all, active := db.VerifVlogFiles()
		files := all[:0:0]
		for _, f := range all {
			if int(f.Bucket) < len(active) && f.FileID < active[f.Bucket] {
				files = append(files, f)
			}
		}
		if len(files) == 0 {
			w.Res.Probes["gc_no_sealed_file"]++
			break
		}
		sort.Slice(files, func(i, j int) bool {
			if files[i].Bucket != files[j].Bucket {
				return files[i].Bucket < files[j].Bucket
			}
			return files[i].FileID < files[j].FileID
		})
		f := files[int(op.A)%len(files)]
		// counted before the call: a crash image cut while the pass is running sees it
		w.Res.Faults["vlog_gc_started"]++
		err := db.VerifGCFile(f.Bucket, f.FileID, 0.01, op.B%2 == 1)
		synctest.Wait()
		w.Res.Trace.Add("gc file %d/%d force=%v -> %v", f.Bucket, f.FileID, op.B%2 == 1, err)
		switch {
		case err == nil:
			w.Res.Faults["vlog_gc_rewrite"]++
		case strings.HasPrefix(err.Error(), "verif:"):
			w.Res.Probes["gc_not_eligible"]++
		default:
			// A GC pass that gives up with an error is allowed by the property (it
			// must not change what reads return); it may still have rewritten some
			// entries before failing, so it counts as a GC that ran.
			w.Res.Faults["vlog_gc_attempt_failed"]++
		}
	case "rungc":
		w.Res.Faults["vlog_gc_started"]++
		err := db.RunValueLogGC(0.01)
		synctest.Wait()
		w.Res.Trace.Add("rungc -> %v", err)
		if err == nil {
			w.Res.Faults["vlog_gc_run"]++
		} else if !errors.Is(err, utils.ErrNoRewrite) && !errors.Is(err, utils.ErrRejected) {
			w.Res.Faults["vlog_gc_attempt_failed"]++
		}
	case "advance":
		d := time.Duration(op.A) * time.Millisecond
		time.Sleep(d)
		synctest.Wait()
		w.Res.SimTime += d
		w.Res.Faults["clock_advance"]++
	case "watchdog":
		db.VerifWatchdogOnce()
		synctest.Wait()
	case "reopen":
		if err := w.Close(); err != nil {
			w.Res.Violate(w.step, "close_error", nil, "Close: %v", err)
		}
		if err := w.Open(w.Dir); err != nil {
			w.Res.Violate(w.step, "reopen_failed", nil, "clean reopen: %v", err)
			return true
		}
		w.Res.Faults["clean_reopen"]++
	default:
		return false
	}
	return true
}

func minInt(a, b int) int {
	if a < b {
		return a
	}
	return b
}

// GenMaint draws one maintenance step.
func GenMaint(r *sim.Rand) sim.Op {
	switch r.Intn(20) {
	case 0, 1, 2, 3:
		return sim.Op{K: "rotate"}
	case 4, 5, 6, 7:
		return sim.Op{K: "flush"}
	case 8:
		return sim.Op{K: "flushall"}
	case 9, 10, 11, 12, 13:
		return sim.Op{K: "compact", A: int64(r.Pick(0, 0, 0, 1, 2, 3, 4, 5, 6, 6)), B: int64(r.Intn(3)), C: int64(r.Pick(0, 0, 1, 2)), D: int64(r.Intn(2))}
	case 14:
		return sim.Op{K: "compactonce", A: int64(r.Intn(2))}
	case 15, 16:
		return sim.Op{K: "gc", A: int64(r.Intn(16)), B: int64(r.Intn(2))}
	case 17:
		return sim.Op{K: "rungc"}
	case 18:
		return sim.Op{K: "advance", A: r.Pick64(1, 100, 11000, 70000)}
	default:
		return sim.Op{K: "reopen"}
	}
}

// GenL0Layout is a scripted prefix for plain-API workloads that builds the L0
// shape compaction planning must get right: an old table over the low keys, a
// disjoint table holding the old value of a high key, then a newer table that
// bridges both ranges and overwrites (or deletes) the high key; all flushed,
// then one L0 compaction. Values/maintenance around it stay random.
func GenL0Layout(r *sim.Rand, nkeys int, cf int64) []sim.Op {
	if nkeys < 2 {
		return nil
	}
	lo, hi := int64(0), int64(nkeys-1)
	set := func(k int64) sim.Op { return sim.Op{K: "set", A: cf, B: k, C: int64(r.Intn(6))} }
	ops := []sim.Op{set(lo), {K: "rotate"}, set(hi), {K: "rotate"}, set(lo)}
	if r.Intn(3) == 0 {
		ops = append(ops, sim.Op{K: "del", A: cf, B: hi})
	} else {
		ops = append(ops, set(hi))
	}
	ops = append(ops, sim.Op{K: "rotate"}, sim.Op{K: "flushall"})
	if r.Intn(2) == 0 {
		ops = append(ops, sim.Op{K: "compact", A: 0, B: 0, C: int64(r.Intn(3)), D: int64(r.Intn(2))})
	} else {
		ops = append(ops, sim.Op{K: "compactonce", A: int64(r.Intn(2))})
	}
	if r.Intn(2) == 0 {
		// ... and a drain of the ingest buffer into the level's sorted run: the first
		// table whose file id was handed out by a compaction, not by a memtable
		ops = append(ops, sim.Op{K: "compact", A: 6, B: 1, C: int64(r.Intn(3)), D: int64(r.Intn(2))})
	}
	return ops
}

// GenCfg draws the configuration swarm shared by the E1 properties.
func GenCfg(r *sim.Rand) map[string]int64 {
	return map[string]int64{
		"memtable_size":    r.Pick64(512, 1024, 2048, 4096, 1<<20),
		"memtable_art":     int64(r.Intn(2)),
		"value_threshold":  r.Pick64(32, 64, 64, 1<<20),
		"vlog_file_size":   r.Pick64(1024, 4096, 1<<16),
		"vlog_buckets":     r.Pick64(1, 2, 4),
		"block_cache":      r.Pick64(0, 64, 4096, 4096),
		"bloom_cache":      r.Pick64(0, 1, 64),
		"l0_tables":        r.Pick64(2, 4, 16),
		"ingest_batch":     r.Pick64(1, 4),
		"manifest_rewrite": r.Pick64(256, 2048, 64<<20),
		"batch_wait_us":    r.Pick64(0, 200),
		"arena_size":       r.Pick64(1<<20, 1<<20, 1<<20, 1<<20, 1<<20, 1<<20, 1<<20, 1<<20, 1<<20, 2<<20, 0),
		"hot_routing":      r.Pick64(0, 0, 1),
		"sst_max":          r.Pick64(1<<20, 1<<20, 1<<20, 2048, 512),
		"value_scale":      r.Pick64(1, 1, 1, 16, 48),
	}
}

// MakeValue builds a value of the coded length whose content names its write.
// curValueScale multiplies value lengths for the current run (set by NewWorld
// from the "value_scale" knob; runs are sequential inside a worker process).
// With inline values of a few KiB a key's version chain spans several 8 KiB
// blocks, tables have many blocks and compactions split their output.
var curValueScale int64 = 1

func MakeValue(tag string, lenCode int64, threshold int64) []byte {
	scale := int64(1)
	if threshold > 4096 {
		threshold = 64
		scale = curValueScale // only inline values are scaled (a value pointer is small anyway)
	}
	var n int64
	switch lenCode % 6 {
	case 0:
		n = 0
	case 1:
		n = 1
	case 2:
		n = threshold - 1
	case 3:
		n = threshold
	case 4:
		n = threshold + 1
	default:
		n = 3 * threshold
	}
	if n == 0 {
		return []byte{}
	}
	if n > 1 {
		n *= scale
	}
	b := make([]byte, n)
	for i := range b {
		b[i] = '.'
	}
	copy(b, tag)
	return b
}

// Where collapses a copy location into a category for signatures.
func Where(c lsm.VerifCopy) string {
	switch {
	case strings.HasPrefix(c.Where, "mem"), strings.HasPrefix(c.Where, "imm"):
		return "mem"
	case c.Where == "L0":
		return "L0"
	case strings.HasSuffix(c.Where, "-ingest"):
		return "Ln-ingest"
	default:
		return "Ln"
	}
}

// ArtPrefixPair reports whether key takes part in the ART memtable's
// prefix-key defects (known findings, root property C07): the ART engine orders
// keys by raw bytes and pads short keys with 0x00, so when one user key is a
// prefix of another ("k" and "k1", "k0" and "k0\x00") it (a) iterates them in the wrong
// internal-key order - an SST flushed from such a memtable is unsorted and point
// lookups miss - and (b) at version 2^64-1 (suffix = eight zero bytes) the two
// leaves collide and one is lost. A run is affected if it ever used the ART
// engine (flushed tables outlive a reopen with another engine).
func ArtPrefixPair(w *World, key []byte) bool {
	if !w.usedART {
		return false
	}
	n := int(w.C.CfgInt("keys", 0))
	if n > len(keyNames) {
		n = len(keyNames)
	}
	for i := 0; i < n; i++ {
		o := keyNames[i]
		if o != string(key) && (strings.HasPrefix(o, string(key)) || strings.HasPrefix(string(key), o)) {
			return true
		}
	}
	return false
}

// DescribeCopies renders every stored copy of (cf,key) for violation details.
func DescribeCopies(w *World, cf kv.ColumnFamily, key []byte) string {
	var b strings.Builder
	for _, cp := range w.DB.VerifLSM().VerifLocate(kv.InternalKey(cf, key, 0)) {
		if cp.Meta&kv.BitValuePointer != 0 {
			var vp kv.ValuePtr
			vp.Decode(cp.Value)
			fmt.Fprintf(&b, "[%s#%d v=%d meta=%d ptr=%d/%d@%d] ", cp.Where, cp.FileID, cp.Version, cp.Meta, vp.Bucket, vp.Fid, vp.Offset)
		} else {
			fmt.Fprintf(&b, "[%s#%d v=%d meta=%d %q] ", cp.Where, cp.FileID, cp.Version, cp.Meta, trunc(cp.Value))
		}
	}
	return b.String()
}

// readErrSig classifies a failed read of a key the model says is readable.
func readErrSig(w *World, api string, err error, cfKey ...[]byte) map[string]string {
	sig := map[string]string{"api": api, "kind": "other"}
	// cfKey = {cf byte}, user key: does the key have more than one stored copy
	// (a read can then follow a shadowed or tie-losing copy - known defects),
	// or is the only copy of the key unreadable?
	if len(cfKey) == 2 && w.DB != nil {
		sig["competing_copies"], sig["equal_version_tie"] = "no", "no"
		cps := w.DB.VerifLocate(kv.ColumnFamily(cfKey[0][0]), cfKey[1])
		if len(cps) >= 2 {
			sig["competing_copies"] = "yes"
		}
		// Sharper, when the copies that point into a missing value-log file can be
		// named: the known defects need a second copy OF THE SAME VERSION (the one GC
		// rewrote), now or earlier in the run. A version whose only copy ever stored
		// points into a file that is gone is a value GC dropped.
		files := map[[2]uint32]bool{}
		all, _ := w.DB.VerifVlogFiles()
		for _, f := range all {
			files[[2]uint32{uint32(f.Bucket), uint32(f.FileID)}] = true
		}
		perVer := map[uint64]int{}
		for _, cp := range cps {
			perVer[cp.Version]++
		}
		dangling := 0
		for _, cp := range cps {
			if cp.Meta&kv.BitValuePointer == 0 {
				continue
			}
			var vp kv.ValuePtr
			vp.Decode(cp.Value)
			if files[[2]uint32{uint32(vp.Bucket), uint32(vp.Fid)}] {
				continue
			}
			dangling++
			if perVer[cp.Version] < 2 && !w.DupSeen[fmt.Sprintf("%d/%s@%d", cfKey[0][0], cfKey[1], cp.Version)] {
				sig["competing_copies"] = "no"
				sig["sole_copy_of_version_dangling"] = "yes"
			}
		}
		if sig["sole_copy_of_version_dangling"] == "yes" {
			// GC's own liveness lookup goes through the first-hit read path: after a
			// re-insertion put lower versions of the key into a newer container, it
			// sees one of those instead of the record it is judging (known, root C02).
			name := fmt.Sprintf("%d/%s", cfKey[0][0], cfKey[1])
			now := map[string]bool{}
			if w.TrackTies > 0 {
				invKeys(w, w.TrackTies, now)
			}
			sig["version_order_inverted"] = "no"
			if now[name] || w.InvSeen[name] {
				sig["version_order_inverted"] = "yes"
			}
		}
		below := map[uint64]int{}
		for _, cp := range cps {
			if wh := Where(cp); wh == "Ln" || wh == "Ln-ingest" {
				below[cp.Version]++
				if below[cp.Version] >= 2 {
					sig["equal_version_tie"] = "yes" // two equal-version copies below L0 (known tie defect, C01)
				}
			}
		}
		if w.TieSeen[fmt.Sprintf("%d/%s", cfKey[0][0], cfKey[1])] {
			sig["equal_version_tie"] = "yes" // ... earlier in the run (only one copy may be left after the merge)
		}
	}
	if strings.Contains(err.Error(), "value log file") || strings.Contains(err.Error(), "not found") {
		sig["kind"] = "vlog_file_missing"
	}
	sig["vlog_gc_ran"] = "no"
	if GCRan(w) {
		sig["vlog_gc_ran"] = "yes"
	}
	return sig
}

// GCRan reports whether any value-log GC pass got as far as touching data in this run.
func GCRan(w *World) bool {
	return w.Res.Faults["vlog_gc_rewrite"]+w.Res.Faults["vlog_gc_run"]+w.Res.Faults["vlog_gc_attempt_failed"]+w.Res.Faults["vlog_gc_started"] > 0
}

// DescribeTables renders the installed tables (level, ingest flag, file id, key range).
func DescribeTables(w *World) string {
	var b strings.Builder
	for _, t := range w.DB.VerifLSM().VerifTables() {
		ing := ""
		if t.Ingest {
			ing = "i"
		}
		fmt.Fprintf(&b, "[L%d%s #%d %q..%q] ", t.Level, ing, t.FileID, t.Min, t.Max)
	}
	return b.String()
}
