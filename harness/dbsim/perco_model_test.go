package dbsim

// Reference model for the Percolator checks C17, C18, C19.
//
// The model is a small executable Percolator over <= 4 keys: per key one
// optional lock and a list of write records (commit records of kind
// put/delete/lock-only, rollback records at the start timestamp). It follows
// the statements of C17-C19 only:
//
//   C17  a read at t is blocked iff a lock with start <= t is present; otherwise
//        it returns the newest committed put/delete with commit <= t, skipping
//        rollback and lock-only records; SCAN agrees with GET key by key.
//   C18  a key with a rollback record of T can never be committed for T; a key
//        committed for T is not changed by a rollback; a repeated request
//        changes nothing; two transactions writing a common key with
//        overlapping [start, commit] never both end committed.
//   C19  a key reports its lock from a successful prewrite until commit or
//        rollback of that key and never afterwards; CheckTxnStatus rolls back
//        only when current_ts >= lock.ts + ttl (ttl != 0); a commit below the
//        lock's min-commit timestamp is refused.
//
// Where the statements do not determine a response (which error a refused
// prewrite gets, whether a conservative write-conflict is raised, whether a
// multi-key commit that fails half-way keeps the keys it already handled) the
// model FOLLOWS the response or the observed lock instead of asserting.

import (
	"bytes"
	"fmt"
	"math"
	"sort"
	"strings"

	"github.com/feichai0017/NoKV/kv"
	"github.com/feichai0017/NoKV/pb"
	"github.com/feichai0017/NoKV/percolator"
)

type pLock struct {
	start     uint64
	primary   string
	ttl       uint64
	minCommit uint64
	kind      pb.Mutation_Op
	val       []byte
}

func (l *pLock) String() string {
	if l == nil {
		return "none"
	}
	return fmt.Sprintf("lock{start=%d primary=%q ttl=%d min_commit=%d kind=%v}", l.start, l.primary, l.ttl, l.minCommit, l.kind)
}

type pRec struct {
	commit uint64 // == start for rollback records
	start  uint64
	kind   pb.Mutation_Op
	val    []byte
}

type pKey struct {
	name string
	lock *pLock
	recs []pRec
	// defWrites lists, in execution order, the versions the history wrote into
	// the data column (prewrite and rollback both write at the start timestamp).
	defWrites []uint64
	// finished lists start timestamps whose lock on this key was removed.
	removed map[uint64]bool
}

func (k *pKey) rec(start uint64) *pRec {
	for i := range k.recs {
		if k.recs[i].start == start {
			return &k.recs[i]
		}
	}
	return nil
}

// readAt is the C17 expectation: (blocked, lock start) or the visible value.
type pRead struct {
	blocked bool
	lockTs  uint64
	found   bool
	val     []byte
	src     uint64 // start timestamp of the transaction whose put is visible (model only)
}

func (r pRead) String() string {
	switch {
	case r.blocked:
		return fmt.Sprintf("locked(by %d)", r.lockTs)
	case r.found:
		return fmt.Sprintf("value %q", trunc(r.val))
	}
	return "not-found"
}

func (r pRead) same(o pRead) bool {
	if r.blocked != o.blocked {
		return false
	}
	if r.blocked {
		return true
	}
	return r.found == o.found && (!r.found || bytes.Equal(r.val, o.val))
}

func (k *pKey) readAt(t uint64) pRead {
	if k.lock != nil && k.lock.start <= t {
		return pRead{blocked: true, lockTs: k.lock.start}
	}
	var best *pRec
	for i := range k.recs {
		r := &k.recs[i]
		if r.kind != pb.Mutation_Put && r.kind != pb.Mutation_Delete {
			continue
		}
		if r.commit <= t && (best == nil || r.commit > best.commit) {
			best = r
		}
	}
	if best == nil || best.kind == pb.Mutation_Delete {
		return pRead{}
	}
	return pRead{found: true, val: best.val, src: best.start}
}

func readClass(exp, got pRead) string {
	switch {
	case exp.blocked && !got.blocked:
		return "read_not_blocked"
	case !exp.blocked && got.blocked:
		return "read_blocked_without_lock"
	case exp.found && !got.found:
		return "missing_value"
	case !exp.found && got.found:
		return "phantom_value"
	}
	return "wrong_value"
}

func keyErrClass(e *pb.KeyError) string {
	switch {
	case e == nil:
		return "ok"
	case e.GetLocked() != nil:
		return "locked"
	case e.GetWriteConflict() != nil:
		return "write_conflict"
	case e.GetCommitTsExpired() != nil:
		return "commit_ts_expired"
	case e.GetAbort() != "":
		if strings.Contains(e.GetAbort(), "rolled back") {
			return "already_rolled_back"
		}
		if strings.Contains(e.GetAbort(), "lock not found") {
			return "lock_not_found"
		}
		return "abort"
	case e.GetRetryable() != "":
		return "retryable"
	}
	return "other_error"
}

func isData(kind pb.Mutation_Op) bool { return kind == pb.Mutation_Put || kind == pb.Mutation_Delete }

// ---- model transitions -------------------------------------------------

// commitKey applies T's commit on key ki (the lock must be T's).
func (p *perco) commitKey(ki int, commit uint64) {
	k := p.m[ki]
	l := k.lock
	rec := pRec{commit: commit, start: l.start, kind: l.kind, val: l.val}
	if isData(rec.kind) {
		for _, o := range k.recs {
			if !isData(o.kind) || o.start == rec.start {
				continue
			}
			p.res.Checks++
			if o.start <= rec.commit && rec.start <= o.commit {
				p.violate("C18", "both_committed_overlap", p.readFacts(ki, 0),
					"key %q: transaction [%d,%d] committed although transaction [%d,%d] is committed on the same key", k.name, rec.start, rec.commit, o.start, o.commit)
			}
		}
	}
	k.recs = append(k.recs, rec)
	k.removed[l.start] = true
	k.lock = nil
	p.changed = true
	p.commits++
}

// rollbackKey applies "roll back start on key ki". It reports whether the
// model state changed.
func (p *perco) rollbackKey(ki int, start uint64) {
	k := p.m[ki]
	if own := k.rec(start); own != nil {
		if own.kind != pb.Mutation_Rollback {
			p.rollbackAfterCommit = true
		}
		return
	}
	if k.lock != nil {
		if k.lock.start == start {
			k.removed[start] = true
			k.lock = nil
		} else {
			// C19: the other transaction's lock lives until ITS commit or rollback.
			p.foreignHit[ki] = true
		}
	}
	k.recs = append(k.recs, pRec{commit: start, start: start, kind: pb.Mutation_Rollback})
	k.defWrites = append(k.defWrites, start)
	p.changed = true
	p.rollbacks++
}

// ---- diagnosis -----------------------------------------------------------

// keyFacts collects the categorical facts that separate the known engine-level
// root causes from anything new (see PERCO_NOTES.md). cfs selects the column
// families whose equal-version copies matter for the assertion at hand.
func (p *perco) keyFacts(ki int, tieCFs ...kv.ColumnFamily) map[string]string {
	k := p.m[ki]
	p.noteOverlap()
	sig := map[string]string{"vlog_gc_ran": yesNo(GCRan(p.w)), "level_overlap_seen": yesNo(p.overlapSeen)}
	if len(tieCFs) == 0 {
		return sig
	}
	sig["ingest_tie"] = "no"
	if p.w.DB == nil {
		return sig
	}
	for _, cf := range tieCFs {
		if ingestTie(p.w, cf, []byte(k.name)) || p.tieSeen[fmt.Sprintf("%d/%d", ki, cf)] {
			sig["ingest_tie"] = "yes"
		}
	}
	return sig
}

// noteTies records, per key and column, that equal-version copies sat in two
// tables one of which was in an ingest buffer: the merge that ends such a tie
// may keep the older copy, so the fact has to outlive the tie (the prewrite of
// a put writes a tombstone and the value at the same version; a memtable
// rotation between the two is enough to start one).
func (p *perco) noteTies() {
	if p.w.DB == nil {
		return
	}
	for ki, k := range p.m {
		for _, cf := range []kv.ColumnFamily{kv.CFDefault, kv.CFWrite, kv.CFLock} {
			id := fmt.Sprintf("%d/%d", ki, cf)
			if !p.tieSeen[id] && ingestTie(p.w, cf, []byte(k.name)) {
				p.tieSeen[id] = true
			}
		}
	}
}

// noteOverlap records (sticky for the rest of the run) that the sorted part of
// some level held overlapping tables: point reads and level iterators then miss
// entries, and a later compaction of such a level writes an unsorted table with
// a wrong key range, so the damage outlives the overlap itself.
func (p *perco) noteOverlap() {
	if !p.overlapSeen && anyLevelOverlap(p.w) {
		p.overlapSeen = true
		p.res.Probes["level_overlap_seen"]++
	}
}

// anyLevelOverlap reports whether the sorted part of any level holds two
// tables with overlapping key ranges (such a level yields keys out of order to
// iterators and hides tables from point reads).
func anyLevelOverlap(w *World) bool {
	if w.DB == nil {
		return false
	}
	tables := w.DB.VerifLSM().VerifTables()
	for i, a := range tables {
		if a.Level == 0 || a.Ingest {
			continue
		}
		for j, b := range tables {
			if i == j || b.Level != a.Level || b.Ingest {
				continue
			}
			if bytes.Compare(kv.ParseKey(b.Min), kv.ParseKey(a.Max)) <= 0 && bytes.Compare(kv.ParseKey(a.Min), kv.ParseKey(b.Max)) <= 0 {
				return true
			}
		}
	}
	return false
}

// readFacts are the facts attached to read mismatches (C17): reads go through
// the write column (iterator) and an exact-version point read of the data
// column at the start timestamp src of the visible put (0 = model expects no value).
func (p *perco) readFacts(ki int, src uint64) map[string]string {
	k := p.m[ki]
	sig := p.keyFacts(ki, kv.CFDefault, kv.CFWrite)
	sig["hist_lower_version_written_later"] = "no"
	for i := range k.defWrites {
		for j := i + 1; j < len(k.defWrites); j++ {
			if k.defWrites[j] < k.defWrites[i] {
				sig["hist_lower_version_written_later"] = "yes"
			}
		}
	}
	// The engine's point read returns the first memtable/level that holds ANY
	// version <= the requested one: is the expected data copy stored, and does a
	// lower version sit in a container that is searched earlier?
	sig["lower_version_shadows"] = "n/a"
	if src != 0 && p.w.DB != nil {
		copies := p.w.DB.VerifLocate(kv.CFDefault, []byte(k.name))
		expRank := 1000
		for _, cp := range copies {
			if cp.Version == src && cp.Meta&kv.BitDelete == 0 {
				if r := containerRank(cp.Where); r < expRank {
					expRank = r
				}
			}
		}
		sig["expected_data_stored"] = yesNo(expRank < 1000)
		sig["lower_version_shadows"] = "no"
		for _, cp := range copies {
			if cp.Version < src && containerRank(cp.Where) < expRank {
				sig["lower_version_shadows"] = "yes"
			}
		}
	}
	return sig
}

// ingestTie reports whether (cf,key) has equal-version copies in two different
// tables at least one of which sits in a level's ingest buffer.
func ingestTie(w *World, cf kv.ColumnFamily, key []byte) bool {
	copies := w.DB.VerifLocate(cf, key)
	for i := range copies {
		for j := i + 1; j < len(copies); j++ {
			a, b := copies[i], copies[j]
			if a.Version != b.Version || (a.Where == b.Where && a.FileID == b.FileID) {
				continue
			}
			if strings.HasSuffix(a.Where, "-ingest") || strings.HasSuffix(b.Where, "-ingest") {
				return true
			}
		}
	}
	return false
}

// lockFacts locates the lock-column copies: where the copy the model expects
// lives and where the copy the engine returned lives (as diagnose() in C01).
func (p *perco) lockFacts(ki int, exp *pLock, got *percolator.Lock) map[string]string {
	sig := p.keyFacts(ki, kv.CFLock)
	sig["expected_stored"] = "no"
	copies := p.w.DB.VerifLocate(kv.CFLock, []byte(p.m[ki].name))
	match := func(meta byte, val []byte, start uint64, minCommit uint64, present bool) bool {
		if meta&kv.BitDelete != 0 {
			return !present
		}
		if !present {
			return false
		}
		l, err := percolator.DecodeLock(val)
		return err == nil && l.Ts == start && l.MinCommitTs == minCommit
	}
	expIdx, gotIdx := -1, -1
	for i, cp := range copies {
		if expIdx < 0 {
			if exp == nil && match(cp.Meta, cp.Value, 0, 0, false) {
				expIdx = i
			} else if exp != nil && match(cp.Meta, cp.Value, exp.start, exp.minCommit, true) {
				expIdx = i
			}
		}
		if gotIdx < 0 {
			if got == nil && match(cp.Meta, cp.Value, 0, 0, false) {
				gotIdx = i
			} else if got != nil && match(cp.Meta, cp.Value, got.Ts, got.MinCommitTs, true) {
				gotIdx = i
			}
		}
	}
	if expIdx >= 0 {
		sig["expected_stored"] = "yes"
		sig["expected_in"] = Where(copies[expIdx])
	} else if exp == nil && len(copies) == 0 {
		sig["expected_stored"] = "nothing"
	}
	if gotIdx >= 0 {
		sig["returned_from"] = Where(copies[gotIdx])
	}
	return sig
}

func cloneSig(sig map[string]string, kv ...string) map[string]string {
	out := make(map[string]string, len(sig)+len(kv)/2)
	for k, v := range sig {
		out[k] = v
	}
	for i := 0; i+1 < len(kv); i += 2 {
		out[kv[i]] = kv[i+1]
	}
	return out
}

// ---- probe timestamps ---------------------------------------------------------

func (p *perco) seeTs(ts ...uint64) {
	for _, t := range ts {
		if t == 0 || t == math.MaxUint64 || p.tsSeen[t] {
			continue
		}
		p.tsSeen[t] = true
		p.tsList = append(p.tsList, t)
		sort.Slice(p.tsList, func(i, j int) bool { return p.tsList[i] < p.tsList[j] })
	}
}

// probeTs lists the read timestamps probed after every step: every timestamp
// a request has mentioned so far, its predecessor, and the maximum.
func (p *perco) probeTs() []uint64 {
	var out []uint64
	add := func(t uint64) {
		if t == 0 {
			return
		}
		if n := len(out); n > 0 && out[n-1] >= t {
			return
		}
		out = append(out, t)
	}
	for _, t := range p.tsList {
		add(t - 1)
		add(t)
	}
	add(math.MaxUint64)
	return out
}
