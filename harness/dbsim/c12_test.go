package dbsim

import (
	"fmt"
	"testing"
	"testing/synctest"

	"verif/sim"
)

func init() {
	props["C12"] = sim.PropSpec{Gen: genC12, Exec: execC12}
}

func genC12(r *sim.Rand, tier string) *sim.Case {
	c := &sim.Case{Cfg: GenCfg(r)}
	nkeys := r.Pick(2, 3, 6)
	c.Cfg["keys"] = int64(nkeys)
	c.Cfg["cfs"] = int64(r.Pick(1, 3))
	// api: 0 plain, 1 versioned, 2 transactional
	api := r.Intn(3)
	c.Cfg["api"] = int64(api)
	// reopening may change the memtable engine or cache sizes
	c.Cfg["reopen_flip"] = int64(r.Intn(2))
	n := 8 + r.Intn(25)
	cycles := 0
	for i := 0; i < n; i++ {
		switch x := r.Intn(100); {
		case x < 15 && cycles < 5:
			c.Ops = append(c.Ops, sim.Op{K: "reopen"})
			cycles++
		case x < 35:
			m := GenMaint(r)
			// (the clock may pass the 5 s / 2 min expiry of transactional entries: an expired
			// version still hides older ones and must survive the reopen like any other)
			c.Ops = append(c.Ops, m)
		default:
			switch api {
			case 0:
				if r.Intn(5) == 0 {
					c.Ops = append(c.Ops, sim.Op{K: "del", A: int64(r.Intn(3)), B: int64(r.Intn(nkeys))})
				} else {
					c.Ops = append(c.Ops, sim.Op{K: "set", A: int64(r.Intn(3)), B: int64(r.Intn(nkeys)), C: int64(r.Intn(6))})
				}
			case 1:
				k := "vset"
				if r.Intn(5) == 0 {
					k = "vdel"
				}
				c.Ops = append(c.Ops, sim.Op{K: k, A: int64(r.Intn(3)), B: int64(r.Intn(nkeys)), C: int64(r.Intn(6)), D: int64(r.Intn(len(versionPool)))})
			default:
				c.Ops = append(c.Ops, sim.Op{K: "txn", A: int64(r.Intn(1 << nkeys)), B: int64(r.Intn(1 << nkeys)), C: int64(r.Intn(6)), D: int64(r.Intn(4))})
			}
		}
	}
	c.Ops = append(c.Ops, sim.Op{K: "reopen"})
	return c
}

func execC12(t *testing.T, c *sim.Case) *sim.Result {
	res := sim.NewResult()
	synctest.Test(t, func(t *testing.T) {
		w := NewWorld(t, c, res)
		defer w.Cleanup()
		if err := w.Open(w.Dir); err != nil {
			res.Violate(0, "open_failed", nil, "%v", err)
			return
		}
		nkeys := int(c.CfgInt("keys", 3))
		ncf := int(c.CfgInt("cfs", 1))
		api := c.CfgInt("api", 0)
		reopens := 0
		// per (cf,key): versions in write order, for the history-hazard flags
		vhist := map[string][]uint64{}
		hazards := func(d DumpEntry) map[string]string {
			sig := map[string]string{"hist_out_of_order": "no", "hist_dup_version": "no", "vlog_gc_ran": "no"}
			h := vhist[fmt.Sprintf("%d/%s", d.CF, d.Key)]
			for a := range h {
				for b := a + 1; b < len(h); b++ {
					if h[b] < h[a] {
						sig["hist_out_of_order"] = "yes"
					}
					if h[b] == h[a] {
						sig["hist_dup_version"] = "yes"
					}
				}
			}
			if GCRan(w) {
				sig["vlog_gc_ran"] = "yes"
			}
			return sig
		}
		for i, op := range c.Ops {
			w.step = i
			sim.Beat()
			res.Steps++
			switch op.K {
			case "set", "del":
				cfi, ki := int(op.A)%ncf, int(op.B)%nkeys
				var err error
				if op.K == "set" {
					err = w.DB.SetCF(cfs[cfi], []byte(keyNames[ki]), MakeValue(fmt.Sprintf("s%d:", i), op.C, w.Opt.ValueThreshold))
				} else {
					err = w.DB.DelCF(cfs[cfi], []byte(keyNames[ki]))
				}
				synctest.Wait()
				res.Trace.Add("%s %d/%d err=%v", op.K, cfi, ki, err)
				if err == nil {
					hk := fmt.Sprintf("%d/%s", cfs[cfi], keyNames[ki])
					vhist[hk] = append(vhist[hk], ^uint64(0))
				}
			case "vset", "vdel":
				cfi, ki := int(op.A)%ncf, int(op.B)%nkeys
				ver := versionPool[int(op.D)%len(versionPool)]
				var err error
				if op.K == "vset" {
					val := MakeValue(fmt.Sprintf("s%d:", i), op.C, w.Opt.ValueThreshold)
					if len(val) == 0 {
						val = []byte{'e'}
					}
					err = w.DB.SetVersionedEntry(cfs[cfi], []byte(keyNames[ki]), ver, val, 0)
				} else {
					err = w.DB.DeleteVersionedEntry(cfs[cfi], []byte(keyNames[ki]), ver)
				}
				synctest.Wait()
				res.Trace.Add("%s %d/%d v=%d err=%v", op.K, cfi, ki, ver, err)
				if err == nil {
					hk := fmt.Sprintf("%d/%s", cfs[cfi], keyNames[ki])
					vhist[hk] = append(vhist[hk], ver)
				}
			case "txn":
				_, _, err := TxnOp(w, op, nkeys, i)
				synctest.Wait()
				res.Trace.Add("txn set=%b del=%b err=%v", op.A, op.B, err)
			case "reopen":
				before := Dump(w)
				if err := w.Close(); err != nil {
					res.Violate(i, "close_error", nil, "Close: %v", err)
				}
				if c.CfgInt("reopen_flip", 0) == 1 {
					c2 := *c
					c2.Cfg = map[string]int64{}
					for k, v := range c.Cfg {
						c2.Cfg[k] = v
					}
					c2.Cfg["memtable_art"] = (c.CfgInt("memtable_art", 0) + int64(reopens+1)) % 2
					c2.Cfg["block_cache"] = []int64{0, 64, 4096}[(reopens)%3]
					w.C = &c2
				}
				if err := w.Open(w.Dir); err != nil {
					res.Violate(i, "reopen_failed", nil, "clean reopen: %v", err)
					return
				}
				w.C = c
				reopens++
				res.Faults["clean_reopen"]++
				after := Dump(w)
				res.Trace.Add("reopen %d entries before=%d after=%d", reopens, len(before), len(after))
				DiffDumps(w, "reopen_changed_contents", hazards, before, after, "clean close/reopen")
				if api == 2 {
					checkTsMonotonic(w, after, nkeys, i)
				}
			default:
				if w.Maint(op) {
					res.Trace.Add("maint %s", op.String())
				}
			}
			if w.DB == nil {
				return
			}
		}
		res.Nontrivial = res.Faults["clean_reopen"] > 0 && res.Steps > 3
	})
	return res
}

// checkTsMonotonic commits one more transaction after a reopen and requires its
// version to exceed every stored version.
func checkTsMonotonic(w *World, stored []DumpEntry, nkeys int, step int) {
	var maxVer uint64
	for _, d := range stored {
		if d.Version > maxVer {
			maxVer = d.Version
		}
	}
	probe := sim.Op{K: "txn", A: 1, C: 5}
	writes, _, err := TxnOp(w, probe, nkeys, 100000+step)
	synctest.Wait()
	if err != nil || len(writes) == 0 {
		w.Res.Probes["ts_probe_commit_failed"]++
		return
	}
	var newVer uint64
	for _, d := range Dump(w) {
		if d.Key == keyNames[0] && string(d.Value) == string(writes[0]) {
			newVer = d.Version
		}
	}
	w.Res.Checks++
	if newVer == 0 {
		w.Res.Violate(step, "commit_not_visible_after_reopen", nil, "probe commit after reopen not found in dump")
		return
	}
	if newVer <= maxVer {
		w.Res.Violate(step, "commit_version_not_monotonic", nil, "first commit after reopen got version %d, stored max %d", newVer, maxVer)
	}
}
