package dbsim

import (
	"errors"
	"fmt"
	"runtime"
	"strings"
	"testing"
	"testing/synctest"
	"time"

	"github.com/anishathalye/porcupine"
	NoKV "github.com/feichai0017/NoKV"

	"verif/sim"
)

func init() {
	props["C34"] = sim.PropSpec{
		Gen:  func(r *sim.Rand, tier string) *sim.Case { return genPlainC(r, tier, "C34") },
		Exec: func(t *testing.T, c *sim.Case) *sim.Result { return execPlainC(t, c, "C34") },
	}
	props["C37"] = sim.PropSpec{
		Gen:  func(r *sim.Rand, tier string) *sim.Case { return genPlainC(r, tier, "C37") },
		Exec: func(t *testing.T, c *sim.Case) *sim.Result { return execPlainC(t, c, "C37") },
	}
}

// genPlainC: 2-4 client tasks issuing plain Set/Del/Get (C34) or a mix of plain
// operations and transactions (C37); simulator actions at generated scheduling
// steps toggle the L0 write throttle; optionally one task closes the database
// while others are still working and operations are issued after the close.
func genPlainC(r *sim.Rand, tier, prop string) *sim.Case {
	c := &sim.Case{Cfg: GenCfg(r)}
	nkeys := r.Pick(1, 2, 3)
	c.Cfg["keys"] = int64(nkeys)
	c.Cfg["memtable_size"] = r.Pick64(1<<20, 1<<20, 2048)
	if prop == "C37" {
		// small memtables and finely varied entry sizes: every way an entry can meet
		// the end of a memtable (fits with room, fits exactly, does not fit)
		c.Cfg["memtable_size"] = r.Pick64(1<<20, 2048, 1024, 512, 512)
	}
	c.Cfg["memtable_art"] = 0
	c.Cfg["value_threshold"] = r.Pick64(32, 1<<20)
	c.Cfg["vlog_buckets"] = 1
	c.Cfg["max_batch_size"] = r.Pick64(0, 0, 200)
	c.Cfg["batch_max_count"] = r.Pick64(64, 2, 3)
	c.Cfg["commit_queue_cap"] = r.Pick64(0, 0, 2)
	c.Cfg["wm_window"] = r.Pick64(0, 0, 4)
	c.Cfg["pct_depth"] = r.Pick64(0, 0, 1, 2, 3)
	c.Cfg["pct_horizon"] = r.Pick64(100, 300, 600, 1200)
	c.Cfg["pause_odds"] = r.Pick64(0, 4, 8)
	c.Cfg["pause_budget"] = r.Pick64(0, 1, 1, 2, 3)
	ntasks := r.Pick(2, 3, 4)
	c.Cfg["tasks"] = int64(ntasks)
	// Background variant (1 in 2): the keys are laid out over the levels first (an
	// older value in the main tables of the last level, a newer one in its ingest
	// buffer or in L0), then flushes and compactions run as scheduler tasks that
	// park at the yield sites around their install steps while the clients read and
	// write: every foreground call sees every intermediate state of the table lists.
	bg := r.Intn(2) == 0
	if bg {
		c.Cfg["bg"] = 1
		c.Cfg["memtable_size"] = 1 << 20
		c.Cfg["layers"] = int64(r.Pick(2, 2, 3))
		c.Cfg["arena_size"] = 1 << 20 // several memtables per run: not the shipped 128 MiB arenas (cleared on allocation)
		c.Cfg["l0_tables"] = 16
		nb := 1 + r.Intn(3)
		for i := 0; i < nb; i++ {
			c.Ops = append(c.Ops, sim.Op{K: "bg", A: int64(r.Intn(60)), S: r.PickS("drain", "drain", "l0move", "rotate", "compactonce", "lmax")})
		}
	}
	// Flush-stall variant (C34, 1 in 3 of the runs without background tasks): tiny
	// memtables and the flush worker held back for one long preemption right after it
	// took its first job, so that several sealed memtables holding the same keys wait
	// in line while clients go on reading and overwriting them.
	stall := prop == "C34" && !bg && r.Intn(3) == 0
	if stall {
		c.Cfg["bg"] = 1 // the flush worker is a scheduled task
		c.Cfg["layers"] = 0
		c.Cfg["flush_stall"] = 1
		c.Cfg["memtable_size"] = r.Pick64(512, 1024)
		c.Cfg["arena_size"] = 1 << 20
		c.Cfg["l0_tables"] = 16
		c.Cfg["value_threshold"] = 1 << 20
	}
	// Disk-error variant (C37, 1 in 3 of the runs without background tasks): one file
	// operation fails once, either a WAL write (tiny WAL buffer, so appends reach the
	// file inside a commit) or the growing of a value-log segment (after a first life
	// and a clean reopen the active segment is trimmed to its end, so the next append
	// has to extend the file). The call that meets the error may report it; every
	// call, the later ones included, and Close still have to return.
	if prop == "C37" && !bg && r.Intn(3) == 0 {
		c.Cfg["io_fail_nth"] = int64(1 + r.Intn(3))
		c.Cfg["io_fail_kind"] = int64(r.Intn(2))
		if c.Cfg["io_fail_kind"] == 0 {
			c.Cfg["wal_buffer"] = r.Pick64(16, 64, 256)
		} else {
			c.Cfg["value_threshold"] = 32
			c.Cfg["io_fail_nth"] = 1
		}
		c.Cfg["io_api"] = int64(r.Intn(2)) // 0: transactions only, 1: plain and transactional calls
	}
	ioTxnOnly := c.Cfg["io_fail_nth"] > 0 && c.Cfg["io_api"] == 0
	for t := 0; t < ntasks; t++ {
		n := 2 + r.Intn(5)
		for i := 0; i < n; i++ {
			k := int64(r.Intn(nkeys))
			if ioTxnOnly {
				if r.Intn(3) == 0 {
					c.Ops = append(c.Ops, sim.Op{K: "pget", A: int64(t), B: k})
				} else {
					c.Ops = append(c.Ops, sim.Op{K: "txn", A: int64(t), B: 1, S: fmt.Sprintf("g:%d,s:%d:%d,i:0", k, k, 5+r.Intn(35))})
				}
				continue
			}
			x := r.Intn(10)
			if bg && x < 5 && r.Intn(3) != 0 {
				x = 6 // read-mostly: a fresh write in the memtable would hide the levels below
			}
			if stall {
				if x < 6 {
					c.Ops = append(c.Ops, sim.Op{K: "pset", A: int64(t), B: k, C: int64(60 + r.Intn(140))})
				} else {
					c.Ops = append(c.Ops, sim.Op{K: "pget", A: int64(t), B: k})
				}
				continue
			}
			switch {
			case x < 4:
				vlen := int64(r.Pick(1, 1, 20, 60, 300))
				if prop == "C37" && r.Intn(2) == 0 {
					vlen = int64(r.Intn(400))
				}
				c.Ops = append(c.Ops, sim.Op{K: "pset", A: int64(t), B: k, C: vlen})
			case x < 5:
				c.Ops = append(c.Ops, sim.Op{K: "pdel", A: int64(t), B: k})
			case x < 9 || prop == "C34":
				c.Ops = append(c.Ops, sim.Op{K: "pget", A: int64(t), B: k})
			default:
				c.Ops = append(c.Ops, sim.Op{K: "txn", A: int64(t), B: 1, S: fmt.Sprintf("g:%d,s:%d:5,i:0", k, k)})
			}
		}
	}
	// simulator actions at scheduling steps
	for i := 0; i < r.Intn(4); i++ {
		c.Ops = append(c.Ops, sim.Op{K: "at", A: int64(r.Intn(200)), S: r.PickS("throttle_on", "throttle_off", "throttle_on")})
	}
	c.Ops = append(c.Ops, sim.Op{K: "at", A: int64(150 + r.Intn(200)), S: "throttle_off"})
	if prop == "C37" && r.Intn(2) == 0 {
		// one task closes the database in the middle of its script
		c.Ops = append(c.Ops, sim.Op{K: "close", A: int64(r.Intn(ntasks)), B: int64(r.Intn(4))})
	}
	return c
}

func execPlainC(t *testing.T, c *sim.Case, prop string) (res *sim.Result) {
	res = sim.NewResult()
	defer recoverBubbleDeadlock(res)
	var history []*call
	nkeys := int(c.CfgInt("keys", 2))
	synctest.Test(t, func(t *testing.T) {
		w := NewWorld(t, c, res)
		defer w.Cleanup()
		m := newModeC(w, res, nkeys)
		ignore := []string{"skiplist.", "art.", "lsm.flush"}
		if c.CfgInt("bg", 0) == 1 {
			ignore = []string{"skiplist.", "art."} // the flush worker is a scheduled task too
		}
		ioNth := int(c.CfgInt("io_fail_nth", 0))
		if ioNth > 0 && c.CfgInt("io_fail_kind", 0) == 1 {
			// first life: a few out-of-line values, then a clean close
			if err := w.Open(w.Dir); err != nil {
				res.Violate(0, "open_failed", nil, "%v", err)
				return
			}
			for i := 0; i < 3; i++ {
				_ = w.DB.Update(func(txn *NoKV.Txn) error {
					return txn.Set([]byte(fmt.Sprintf("first-life-%d", i)), []byte(strings.Repeat("f", 100+i)))
				})
				synctest.Wait()
			}
			if err := w.Close(); err != nil {
				res.Violate(0, "close_error", nil, "first life: %v", err)
				return
			}
		}
		if err := m.open(ignore...); err != nil {
			res.Violate(0, "open_failed", nil, "%v", err)
			return
		}
		if ioNth > 0 {
			failOp, failClass := "write", "wal"
			if c.CfgInt("io_fail_kind", 0) == 1 {
				failOp, failClass = "truncate", "vlog"
			}
			seen := 0
			w.FS.Fail = func(ev sim.FSEvent) error {
				if ev.Op != failOp || ev.Class != failClass {
					return nil
				}
				seen++
				if seen != ioNth {
					return nil
				}
				res.Faults["io_error_"+failClass+"_"+failOp]++
				m.ioFailed = true
				return errors.New("verif: injected disk error (" + failClass + " " + failOp + ")")
			}
		}
		ntasks := int(c.CfgInt("tasks", 2))
		scripts := make([][]sim.Op, ntasks)
		actions := map[int][]string{}
		closeTask, closeAt := -1, 0
		if c.CfgInt("flush_stall", 0) == 1 {
			w.Sched.HoldTask, w.Sched.HoldSite, w.Sched.HoldNth, w.Sched.HoldFirst = "w:lsm.flush.next", "lsm.flush.next", 1, false
		}
		if c.CfgInt("bg", 0) == 1 {
			m.layout(int(c.CfgInt("layers", 2)))
			if w.DB == nil {
				return
			}
		}
		for _, op := range c.Ops {
			switch op.K {
			case "pset", "pdel", "pget", "txn":
				ti := int(op.A) % ntasks
				scripts[ti] = append(scripts[ti], op)
			case "bg":
				actions[int(op.A)] = append(actions[int(op.A)], "bg:"+op.S)
			case "at":
				actions[int(op.A)] = append(actions[int(op.A)], op.S)
			case "close":
				closeTask, closeAt = int(op.A)%ntasks, int(op.B)
			}
		}
		ord := 0
		for ti := 0; ti < ntasks; ti++ {
			ti := ti
			base := ord
			ord += len(scripts[ti]) + 1
			m.tasks = append(m.tasks, w.Sched.Go(fmt.Sprintf("client%d", ti), func() {
				for i, op := range scripts[ti] {
					if ti == closeTask && i == closeAt {
						m.doClose(ti)
					}
					m.runPlain(ti, base+i, op, i)
				}
				if ti == closeTask && closeAt >= len(scripts[ti]) {
					m.doClose(ti)
				}
			}))
		}
		synctest.Wait()
		ok := m.runWithActions(8000, actions)
		res.Steps = w.Sched.Steps
		res.Sched = w.Sched.Recorded
		history = m.calls
		if !ok {
			res.Violate(res.Steps, "no_progress", map[string]string{"phase": "run", "closed": yn(m.closed)}, "calls still blocked after %d scheduling steps and %v of simulated time: %s", res.Steps, res.SimTime, m.blockedDesc())
			w.Sched.Passthrough()
			w.DB = nil
			return
		}
		m.drain()
		for _, cl := range m.calls {
			if cl.err == "panic: DB Closed" {
				// Txn.NewIterator refuses a closed database with a deliberate
				// panic(ErrDBClosed) (Badger's API contract): a defined refusal, not a
				// call that fails to return. Counted, not reported.
				res.Probes["iterator_on_closed_db_panics"]++
				continue
			}
			if strings.HasPrefix(cl.err, "panic:") {
				res.Violate(cl.invoke, "call_panicked", map[string]string{"call": cl.kind, "after_close": yn(m.closed)}, "t%d %s k%d: %s at %s", cl.task, cl.kind, cl.key, cl.err, cl.val)
			}
		}
		if m.closed {
			w.DB = nil // already closed by a client task
		}
		res.Checks += len(m.calls) // every recorded call returned (the liveness oracle)
		res.Nontrivial = len(m.calls) >= 6 && res.Steps > 20
	})
	if prop == "C34" && len(res.Violations) == 0 {
		checkLinearizable(res, history, nkeys)
	}
	return res
}

// runWithActions is run() plus simulator actions fired at given step numbers.
func (m *modeC) runWithActions(maxSteps int, actions map[int][]string) bool {
	idle := 0
	for steps := 0; steps < maxSteps; steps++ {
		sim.Beat()
		for _, a := range actions[steps] {
			if m.closed || m.w.DB == nil {
				continue
			}
			switch a {
			case "throttle_on":
				m.w.DB.VerifLSM().VerifThrottle(true)
				m.res.Faults["l0_throttle_on"]++
			case "throttle_off":
				m.w.DB.VerifLSM().VerifThrottle(false)
			default:
				if strings.HasPrefix(a, "bg:") {
					m.spawnBackground(strings.TrimPrefix(a, "bg:"))
				}
			}
			m.res.Trace.Add("action %s at step %d", a, steps)
		}
		if m.w.Sched.AllDone(m.tasks) {
			return true
		}
		if !m.w.Sched.StepAny() {
			time.Sleep(time.Millisecond)
			synctest.Wait()
			m.res.SimTime += time.Millisecond
			idle++
			if idle == 500 && !m.closed && m.w.DB != nil {
				// faults stop: after this point every call must finish
				m.w.DB.VerifLSM().VerifThrottle(false)
			}
			if idle > 4000 {
				return false
			}
			continue
		}
		idle = 0
	}
	return m.w.Sched.AllDone(m.tasks)
}

// layout writes `layers` generations of every key from the root goroutine with
// every engine worker running freely (no site parks), and pushes each generation
// down: generation 1 into the main tables of the last level, generation 2 into
// its ingest buffer, generation 3 into L0. The writes are part of the history.
func (m *modeC) layout(layers int) {
	w := m.w
	saved := w.Sched.Ignore
	w.Sched.Ignore = func(string) bool { return true }
	defer func() { w.Sched.Ignore = saved }()
	lsm := w.DB.VerifLSM()
	for g := 1; g <= layers; g++ {
		sim.Beat()
		for ki := 0; ki < m.nkeys; ki++ {
			c := &call{task: -1, txn: -1, key: ki, kind: "pset", invoke: m.next()}
			c.val = fmt.Sprintf("g%d.%d:%s", g, ki, strings.Repeat("y", 40))
			c.err = errStr(w.DB.Set([]byte(keyNames[ki]), []byte(c.val)))
			synctest.Wait()
			c.ret = m.next()
			m.calls = append(m.calls, c)
			m.res.Trace.Add("layout set k%d -> %q err=%s", ki, trunc([]byte(c.val)), c.err)
		}
		w.DB.VerifRotate()
		synctest.Wait()
		m.res.Faults["rotate"]++
		if g <= 2 {
			if err := lsm.VerifCompact(0, 0, 0, 1.5); err == nil { // L0 -> ingest buffer of the base level
				m.res.Faults["compact_L0_m0"]++
			}
			synctest.Wait()
		}
		if g == 1 {
			for _, tb := range lsm.VerifTables() {
				if tb.Ingest {
					if err := lsm.VerifCompact(0, tb.Level, 1, 1.5); err == nil { // drain into the main tables
						m.res.Faults["compact_L2_m1"]++
					}
					synctest.Wait()
					break
				}
			}
		}
	}
	m.res.Trace.Add("layout done: %s", DescribeTables(w))
}

// spawnBackground starts one maintenance step as a scheduler task: it parks at
// the yield sites of flush / compaction like any other task.
func (m *modeC) spawnBackground(kind string) {
	w := m.w
	db := w.DB
	m.bgSeq++
	name := fmt.Sprintf("bg%d:%s", m.bgSeq, kind)
	m.bgTasks = append(m.bgTasks, w.Sched.Go(name, func() {
		defer func() {
			if r := recover(); r != nil {
				m.res.Violate(w.Sched.Steps, "maintenance_panicked", map[string]string{"op": kind, "panic": "mode_c"}, "%s panicked: %v", name, r)
			}
		}()
		if m.closed || w.DB == nil {
			return
		}
		lsm := db.VerifLSM()
		var err error
		switch kind {
		case "rotate":
			db.VerifRotate()
			m.res.Faults["rotate"]++
		case "l0move":
			err = lsm.VerifCompact(0, 0, 0, 1.5)
		case "compactonce":
			lsm.VerifCompactOnce(0)
		case "drain", "lmax":
			level, mode := -1, uint8(0)
			for _, tb := range lsm.VerifTables() {
				if kind == "drain" && tb.Ingest {
					level, mode = tb.Level, 1
					break
				}
				if kind == "lmax" && tb.Level > level {
					level = tb.Level
				}
			}
			if level < 0 {
				return
			}
			err = lsm.VerifCompact(1, level, mode, 1.5)
		}
		if err == nil {
			m.res.Faults["bg_"+kind]++
		}
		m.res.Trace.Add("%s -> %v", name, err)
	}))
	synctest.Wait() // the new task registers itself as parked
}

func (m *modeC) doClose(task int) {
	c := &call{task: task, txn: -1, kind: "close", invoke: m.next()}
	m.calls = append(m.calls, c)
	// The engine's own compactors are stopped and awaited by Close; the steps
	// started through the accessor are not known to it, so the closing task
	// waits for them itself (no new ones start once closing is set).
	m.closed = true
	for !m.w.Sched.AllDone(m.bgTasks) {
		m.yield("lockwait") // waits like a lock-waiter: yields to every other enabled task
	}
	m.res.Trace.Add("t%d close invoked", task)
	m.res.Faults["close_racing"]++
	err := m.w.DB.Close()
	c.err = errStr(err)
	c.ret = m.next()
	m.res.Trace.Add("t%d close -> %s", task, c.err)
	m.yield("client.closed")
}

// runPlain executes one plain operation (or a small transaction) of a task.
func (m *modeC) runPlain(task, ord int, op sim.Op, step int) {
	if op.K == "txn" {
		func() {
			defer func() {
				if r := recover(); r != nil {
					m.calls = append(m.calls, &call{task: task, txn: ord, kind: "txn", err: fmt.Sprintf("panic: %v", r), val: panicSite(), invoke: m.next(), ret: m.next()})
				}
			}()
			m.runTxn(task, ord, parseScript(op), step)
		}()
		return
	}
	ki := int(op.B) % m.nkeys
	key := []byte(keyNames[ki])
	c := &call{task: task, txn: -1, key: ki, kind: op.K, invoke: m.next()}
	m.calls = append(m.calls, c)
	func() {
		defer func() {
			if r := recover(); r != nil {
				c.err = fmt.Sprintf("panic: %v", r)
				c.val = panicSite()
			}
		}()
		switch op.K {
		case "pset":
			c.val = fmt.Sprintf("p%d.%d:%s", task, step, strings.Repeat("x", int(op.C)))
			c.err = errStr(m.w.DB.Set(key, []byte(c.val)))
		case "pdel":
			c.err = errStr(m.w.DB.Del(key))
		case "pget":
			e, err := m.w.DB.Get(key)
			if err == nil {
				c.found, c.val = true, string(e.Value)
			} else {
				c.err = errStr(err)
			}
		}
	}()
	c.ret = m.next()
	m.res.Trace.Add("t%d %s k%d -> %q found=%v err=%s", task, c.kind, ki, trunc([]byte(c.val)), c.found, c.err)
	m.yield("client.step")
}

type regIn struct {
	op  string // set, del, get
	val string
}
type regOut struct {
	found bool
	val   string
}

// checkLinearizable checks the per-key histories against a register with delete.
func checkLinearizable(res *sim.Result, calls []*call, nkeys int) {
	model := porcupine.Model{
		Init: func() interface{} { return regOut{} },
		Step: func(state, input, output interface{}) (bool, interface{}) {
			st, in := state.(regOut), input.(regIn)
			switch in.op {
			case "set":
				return true, regOut{found: true, val: in.val}
			case "del":
				return true, regOut{}
			default:
				out := output.(regOut)
				return out.found == st.found && (!out.found || out.val == st.val), st
			}
		},
		Equal: func(a, b interface{}) bool { return a.(regOut) == b.(regOut) },
	}
	for k := 0; k < nkeys; k++ {
		var ops []porcupine.Operation
		for _, c := range calls {
			if c.key != k || c.txn != -1 {
				continue
			}
			switch c.kind {
			case "pset":
				if c.err == "" { // an errored write must have no effect: it is left out of the history
					ops = append(ops, porcupine.Operation{ClientId: c.task, Input: regIn{op: "set", val: c.val}, Call: int64(c.invoke), Output: regOut{}, Return: int64(c.ret)})
				}
			case "pdel":
				if c.err == "" {
					ops = append(ops, porcupine.Operation{ClientId: c.task, Input: regIn{op: "del"}, Call: int64(c.invoke), Output: regOut{}, Return: int64(c.ret)})
				}
			case "pget":
				if c.err == "" || c.err == "notfound" {
					ops = append(ops, porcupine.Operation{ClientId: c.task, Input: regIn{op: "get"}, Call: int64(c.invoke), Output: regOut{found: c.found, val: c.val}, Return: int64(c.ret)})
				}
			}
		}
		if len(ops) == 0 {
			continue
		}
		res.Checks++
		switch porcupine.CheckOperationsTimeout(model, ops, 20*time.Second) {
		case porcupine.Illegal:
			var b strings.Builder
			for _, o := range ops {
				fmt.Fprintf(&b, "[c%d %v -> %v @%d-%d] ", o.ClientId, o.Input, o.Output, o.Call, o.Return)
			}
			res.Violate(0, "not_linearizable", map[string]string{"key_history_len": bucket(len(ops))}, "key k%d: history is not linearizable as a register: %s", k, b.String())
		case porcupine.Unknown:
			res.Probes["porcupine_unknown"]++
		}
	}
}

func bucket(n int) string {
	switch {
	case n <= 4:
		return "<=4"
	case n <= 10:
		return "<=10"
	}
	return ">10"
}

// panicSite names the first /repo frame of the panicking stack (called from a deferred recover).
func panicSite() string {
	buf := make([]byte, 16<<10)
	n := runtime.Stack(buf, false)
	var frames []string
	for _, line := range strings.Split(string(buf[:n]), "\n") {
		line = strings.TrimSpace(line)
		if strings.HasPrefix(line, "/repo/") {
			if i := strings.Index(line, " "); i > 0 {
				line = line[:i]
			}
			frames = append(frames, strings.TrimPrefix(line, "/repo/"))
			if len(frames) == 3 {
				break
			}
		}
	}
	return strings.Join(frames, " < ")
}
