package dbsim

import (
	"errors"
	"fmt"
	"os"
	"sort"
	"strconv"
	"strings"
	"testing"
	"testing/synctest"

	"github.com/feichai0017/NoKV/kv"

	"verif/sim"
)

func init() {
	for _, id := range []string{"C03", "C04", "C05"} {
		id := id
		props[id] = sim.PropSpec{
			Gen:  func(r *sim.Rand, tier string) *sim.Case { return genTxnC(r, tier, id) },
			Exec: func(t *testing.T, c *sim.Case) *sim.Result { return execTxnC(t, c, id) },
		}
	}
}

// genTxnC generates 2-4 client tasks, each a short list of transactions.
func genTxnC(r *sim.Rand, tier, prop string) *sim.Case {
	c := &sim.Case{Cfg: GenCfg(r)}
	nkeys := r.Pick(2, 3, 3)
	c.Cfg["keys"] = int64(nkeys)
	c.Cfg["memtable_size"] = r.Pick64(1024, 4096, 1<<20)
	c.Cfg["value_threshold"] = r.Pick64(32, 1<<20)
	c.Cfg["vlog_buckets"] = 1
	c.Cfg["detect_conflicts"] = 1
	if prop == "C05" {
		c.Cfg["detect_conflicts"] = int64(r.Intn(2))
	}
	if prop == "C04" {
		c.Cfg["max_batch_count"] = r.Pick64(0, 3, 4)
		// Disk error (1 run in 3): the n-th write to a WAL segment fails once. The
		// commit that meets it may report the error; everything acknowledged with nil,
		// before, in the same commit batch or after, must still be there.
		if r.Intn(3) == 0 {
			c.Cfg["io_fail_nth"] = int64(1 + r.Intn(8))
			// a WAL write buffer of a few dozen bytes: appends reach the file inside the
			// apply step of a commit request, so ONE request of a commit batch can fail
			c.Cfg["wal_buffer"] = r.Pick64(16, 64, 256, 0)
		}
	}
	// A tiny watermark window forces window rebuilds inside a run (the shipped
	// window needs 65536 commits); 0 = shipped size.
	c.Cfg["wm_window"] = r.Pick64(0, 0, 2, 4)
	// scheduling policy: uniform random or PCT of depth 1..4
	c.Cfg["pct_depth"] = r.Pick64(0, 0, 1, 2, 2, 3, 3, 4)
	c.Cfg["pct_horizon"] = r.Pick64(100, 300, 600)
	c.Cfg["pause_odds"] = r.Pick64(0, 3, 6, 12)
	c.Cfg["pause_budget"] = r.Pick64(0, 1, 1, 2, 3)
	ntasks := r.Pick(2, 3, 4)
	c.Cfg["tasks"] = int64(ntasks)
	// "late committer" shape (1 in 4): task 0 runs a single update transaction;
	// every other task commits a write and then reads everything twice in fresh
	// transactions - whatever point task 0 is preempted at, a complete commit and a
	// later snapshot read of its keys happen around it.
	if r.Intn(4) == 0 {
		c.Cfg["pct_depth"] = r.Pick64(2, 2, 3)
		c.Cfg["pause_budget"] = r.Pick64(1, 1, 2)
		if c.Cfg["pause_odds"] == 0 {
			c.Cfg["pause_odds"] = 6
		}
		// half of them with one long preemption of task 0 (it runs first, is held at
		// the chosen point while the others run to completion, then finishes): right
		// after it got its snapshot, or at its n-th scheduling point whatever it is
		if r.Intn(2) == 0 {
			c.Cfg["hold_site"] = r.Pick64(1, 2, 2)
			c.Cfg["hold_nth"] = 1
			if c.Cfg["hold_site"] == 2 {
				c.Cfg["hold_nth"] = int64(1 + r.Intn(70))
			}
		}
		k0 := r.Intn(nkeys)
		c.Ops = append(c.Ops, sim.Op{K: "txn", A: 0, B: 1, S: fmt.Sprintf("g:%d,s:%d:%d", k0, k0, r.Intn(40))})
		for t := 1; t < ntasks; t++ {
			k := r.Intn(nkeys)
			c.Ops = append(c.Ops, sim.Op{K: "txn", A: int64(t), B: 1, S: fmt.Sprintf("g:%d,s:%d:%d", k, k, r.Intn(40))})
			for rep := 0; rep < 2; rep++ {
				var steps []string
				for kk := 0; kk < nkeys; kk++ {
					steps = append(steps, fmt.Sprintf("g:%d", kk))
				}
				steps = append(steps, "i:0", fmt.Sprintf("g:%d", k0))
				c.Ops = append(c.Ops, sim.Op{K: "txn", A: int64(t), B: int64(rep), S: strings.Join(steps, ",")})
			}
		}
		return c
	}
	for t := 0; t < ntasks; t++ {
		ntx := 1 + r.Intn(3)
		for x := 0; x < ntx; x++ {
			update := r.Intn(10) < 6
			if prop == "C05" && t >= ntasks/2 {
				update = r.Intn(10) < 2 // reader-heavy half
			}
			var steps []string
			ns := 1 + r.Intn(5)
			for s := 0; s < ns; s++ {
				k := r.Intn(nkeys)
				switch x := r.Intn(10); {
				case x < 4:
					steps = append(steps, fmt.Sprintf("g:%d", k))
				case x < 7 && update:
					steps = append(steps, fmt.Sprintf("s:%d:%d", k, r.Intn(40)))
				case x < 8 && update:
					steps = append(steps, fmt.Sprintf("d:%d", k))
				case x < 9:
					steps = append(steps, "i:0")
				default:
					steps = append(steps, "y:0")
				}
			}
			flags := int64(0)
			if update {
				flags |= 1
			}
			if r.Intn(8) == 0 {
				flags |= 2 // discard instead of commit
			}
			c.Ops = append(c.Ops, sim.Op{K: "txn", A: int64(t), B: flags, S: strings.Join(steps, ",")})
		}
	}
	if r.Intn(3) == 0 {
		c.Ops = append(c.Ops, sim.Op{K: "rotate_mid"})
	}
	return c
}

func parseScript(op sim.Op) txnScript {
	sc := txnScript{update: op.B&1 != 0, discard: op.B&2 != 0}
	if op.S == "" {
		return sc
	}
	for _, s := range strings.Split(op.S, ",") {
		f := strings.Split(s, ":")
		st := sim.Op{K: f[0]}
		if len(f) > 1 {
			n, _ := strconv.Atoi(f[1])
			st.A = int64(n)
		}
		if len(f) > 2 {
			n, _ := strconv.Atoi(f[2])
			st.B = int64(n)
		}
		sc.steps = append(sc.steps, st)
	}
	return sc
}

func execTxnC(t *testing.T, c *sim.Case, prop string) (res *sim.Result) {
	res = sim.NewResult() // named result: it survives the recovered end-of-bubble panic
	defer recoverBubbleDeadlock(res)
	synctest.Test(t, func(t *testing.T) {
		w := NewWorld(t, c, res)
		defer w.Cleanup()
		nkeys := int(c.CfgInt("keys", 3))
		m := newModeC(w, res, nkeys)
		// Memtable-index sites are not what these properties are about.
		if err := m.open("skiplist.", "art.", "lsm.flush"); err != nil {
			res.Violate(0, "open_failed", nil, "%v", err)
			return
		}
		if n := int(c.CfgInt("io_fail_nth", 0)); n > 0 {
			seen := 0
			failOp := "write"
			w.FS.Fail = func(ev sim.FSEvent) error {
				if os.Getenv("VERIF_FSPROBE") != "" {
					res.Probes["fs_"+ev.Op+"_"+ev.Class]++
				}
				if ev.Op != failOp || ev.Class != "wal" {
					return nil
				}
				seen++
				if seen != n {
					return nil
				}
				res.Faults["io_error_wal_"+failOp]++
				m.ioFailed = true
				return errors.New("verif: injected disk error (wal write)")
			}
		}
		ntasks := int(c.CfgInt("tasks", 2))
		scripts := make([][]sim.Op, ntasks)
		for _, op := range c.Ops {
			if op.K == "txn" {
				ti := int(op.A) % ntasks
				scripts[ti] = append(scripts[ti], op)
			}
		}
		ord := 0
		ords := make([][]int, ntasks)
		for ti := range scripts {
			for range scripts[ti] {
				ords[ti] = append(ords[ti], ord)
				ord++
			}
		}
		for ti := 0; ti < ntasks; ti++ {
			ti := ti
			m.tasks = append(m.tasks, w.Sched.Go(fmt.Sprintf("client%d", ti), func() {
				for i, op := range scripts[ti] {
					m.runTxn(ti, ords[ti][i], parseScript(op), i)
				}
			}))
		}
		synctest.Wait()
		ok := m.run(6000)
		res.Steps = w.Sched.Steps
		res.Sched = w.Sched.Recorded
		if !ok {
			res.Violate(res.Steps, "no_progress", map[string]string{"phase": "run"}, "client tasks still blocked after %d scheduling steps: %s", res.Steps, m.blockedDesc())
			// Do not try to close a wedged database from the root goroutine: leave
			// the blocked goroutines behind (the bubble ends with synctest's deadlock
			// panic, recovered by recoverBubbleDeadlock).
			w.Sched.Passthrough()
			w.DB = nil
			return
		}
		m.drain()
		checkTxnHistory(m, prop)
		if prop == "C04" {
			checkFinalDump(m)
		}
		res.Nontrivial = countCommits(m) >= 2 && res.Steps > 20
	})
	return res
}

func (m *modeC) blockedDesc() string {
	var b strings.Builder
	for _, t := range m.tasks {
		if !m.w.Sched.Done(t) {
			fmt.Fprintf(&b, "%s@%s parked=%v; ", t.Name, t.Site, m.w.Sched.Parked(t))
		}
	}
	return b.String()
}

type txnRec struct {
	ord       int
	task      int
	rw        bool
	readTs    uint64
	commitTs  uint64
	commitOK  bool
	commitErr string
	commit    *call
	begin     *call
	calls     []*call
	writes    map[int]*call // last write per key
}

func countCommits(m *modeC) int {
	n := 0
	for _, c := range m.calls {
		if c.kind == "commit" && c.err == "" && c.commitTs > 0 {
			n++
		}
	}
	return n
}

func buildTxns(m *modeC) []*txnRec {
	byOrd := map[int]*txnRec{}
	var out []*txnRec
	for _, c := range m.calls {
		tr := byOrd[c.txn]
		if tr == nil {
			tr = &txnRec{ord: c.txn, task: c.task, writes: map[int]*call{}}
			byOrd[c.txn] = tr
			out = append(out, tr)
		}
		tr.calls = append(tr.calls, c)
		switch c.kind {
		case "begin":
			tr.begin, tr.readTs, tr.rw = c, c.readTs, c.rw
		case "set", "del":
			if c.err == "" {
				tr.writes[c.key] = c
			}
		case "commit":
			tr.commit, tr.commitErr = c, c.err
			if c.err == "" && c.commitTs > 0 {
				tr.commitOK, tr.commitTs = true, c.commitTs
			}
		}
	}
	return out
}

// modelAt returns the committed write visible for key at version r (nil = none).
func modelAt(txns []*txnRec, key int, r uint64) (*call, *txnRec) {
	var best *call
	var bestT *txnRec
	for _, t := range txns {
		if !t.commitOK || t.commitTs > r {
			continue
		}
		if w, ok := t.writes[key]; ok && (bestT == nil || t.commitTs > bestT.commitTs) {
			best, bestT = w, t
		}
	}
	return best, bestT
}

func checkTxnHistory(m *modeC, prop string) {
	res := m.res
	txns := buildTxns(m)
	valueOwner := map[string]*txnRec{}
	for _, t := range txns {
		for _, w := range t.writes {
			if w.kind == "set" {
				valueOwner[w.val] = t
			}
		}
	}
	sigBase := func() map[string]string {
		return map[string]string{"wm_window": fmt.Sprint(m.w.C.CfgInt("wm_window", 0) != 0), "detect_conflicts": fmt.Sprint(m.w.C.CfgInt("detect_conflicts", 1))}
	}
	// Snapshot reads (C03a / C05): every read equals the model at the reader's
	// read timestamp overlaid with its own earlier writes.
	for _, t := range txns {
		own := map[int]*call{}
		first := map[int]*call{}
		for _, c := range t.calls {
			switch c.kind {
			case "set", "del":
				if c.err == "" {
					own[c.key] = c
				}
			case "get":
				res.Checks++
				if strings.HasPrefix(c.err, "other:") {
					res.Violate(c.invoke, "read_error", sigBase(), "txn%d Get(k%d): %s", t.ord, c.key, c.err)
					continue
				}
				var expVal string
				expFound := false
				if ow, ok := own[c.key]; ok {
					expFound, expVal = ow.kind == "set", ow.val
				} else if mw, _ := modelAt(txns, c.key, t.readTs); mw != nil && mw.kind == "set" {
					expFound, expVal = true, mw.val
				}
				if f := first[c.key]; f != nil && own[c.key] == nil && (f.found != c.found || f.val != c.val) {
					res.Violate(c.invoke, "unstable_read", sigBase(), "txn%d (readTs %d) read k%d twice: %q/%v then %q/%v", t.ord, t.readTs, c.key, f.val, f.found, c.val, c.found)
				} else if own[c.key] == nil && first[c.key] == nil {
					first[c.key] = c
				}
				if c.found == expFound && (!c.found || c.val == expVal) {
					continue
				}
				class := "snapshot_mismatch"
				sig := sigBase()
				if owner := valueOwner[c.val]; c.found && owner != nil && owner != t {
					switch {
					case !owner.commitOK && m.ioFailed && strings.HasPrefix(owner.commitErr, "other:"):
						// The commit met the injected disk error and reported it: what became of
						// its writes is not settled by the statement (narrow relaxation).
						res.Probes["read_of_io_failed_commit"]++
						continue
					case !owner.commitOK:
						class = "read_uncommitted"
					case owner.commitTs > t.readTs:
						class = "read_from_future"
					default:
						class = "missed_commit" // an older committed value although a newer commit <= readTs exists
					}
				} else if !c.found {
					class = "missed_commit"
				}
				res.Violate(c.invoke, class, sig, "txn%d (readTs %d) Get(k%d) = %q found=%v; snapshot has %q found=%v; commits: %s", t.ord, t.readTs, c.key, c.val, c.found, expVal, expFound, descCommits(txns))
			case "iter":
				res.Checks++
				exp := map[string]string{}
				for k := 0; k < m.nkeys; k++ {
					if ow, ok := own[k]; ok {
						if ow.kind == "set" {
							exp[keyNames[k]] = ow.val
						}
						continue
					}
					if mw, _ := modelAt(txns, k, t.readTs); mw != nil && mw.kind == "set" {
						exp[keyNames[k]] = mw.val
					}
				}
				var expRows []string
				for k, v := range exp {
					expRows = append(expRows, k+"="+v)
				}
				sort.Strings(expRows)
				got := append([]string(nil), c.rows...)
				if strings.Join(got, "|") != strings.Join(expRows, "|") {
					res.Violate(c.invoke, "iter_snapshot_mismatch", sigBase(), "txn%d (readTs %d) iterator = %v; snapshot %v; commits: %s", t.ord, t.readTs, got, expRows, descCommits(txns))
				}
			}
		}
	}
	if prop == "C03" {
		// (b) a read-write commit must fail if a key it read was committed by another
		// transaction after its read timestamp.
		for _, t := range txns {
			if !t.rw || !t.commitOK {
				continue
			}
			readKeys := map[int]bool{}
			wrote := map[int]bool{}
			for _, c := range t.calls {
				switch c.kind {
				case "set", "del":
					wrote[c.key] = true
				case "get":
					if !wrote[c.key] {
						readKeys[c.key] = true
					}
				case "iter":
					for _, row := range c.rows {
						for k := 0; k < m.nkeys; k++ {
							if strings.HasPrefix(row, keyNames[k]+"=") && !wrote[k] {
								readKeys[k] = true
							}
						}
					}
				}
			}
			for _, o := range txns {
				if o == t || !o.commitOK || !(o.commitTs > t.readTs && o.commitTs < t.commitTs) {
					continue
				}
				for k := range o.writes {
					res.Checks++
					if readKeys[k] {
						sg := sigBase()
						// The read watermark only protects a reader whose read timestamp is
						// above the mark when it begins (index 0 is never tracked).
						sg["read_ts_at_or_below_read_mark"] = yn(t.readTs == 0 || t.begin.readMarkAtBegin >= t.readTs)
						res.Violate(t.commit.invoke, "missed_conflict", sg, "txn%d (readTs %d) read k%d and committed at %d although txn%d committed a write to it at %d", t.ord, t.readTs, k, t.commitTs, o.ord, o.commitTs)
					}
				}
			}
		}
	}
	if prop == "C04" || prop == "C03" {
		// commit versions are unique and follow real-time order
		var cs []*txnRec
		for _, t := range txns {
			if t.commitOK {
				cs = append(cs, t)
			}
		}
		for i := range cs {
			for j := range cs {
				if i == j {
					continue
				}
				res.Checks++
				if cs[i].commitTs == cs[j].commitTs && i < j {
					res.Violate(cs[i].commit.invoke, "duplicate_commit_version", sigBase(), "txn%d and txn%d both committed at %d", cs[i].ord, cs[j].ord, cs[i].commitTs)
				}
				if cs[i].commit.ret < cs[j].begin.invoke && cs[i].commitTs >= cs[j].commitTs {
					res.Violate(cs[j].commit.invoke, "commit_version_not_increasing", sigBase(), "txn%d committed at %d and returned before txn%d began, which committed at %d", cs[i].ord, cs[i].commitTs, cs[j].ord, cs[j].commitTs)
				}
			}
		}
	}
}

func descCommits(txns []*txnRec) string {
	var b strings.Builder
	for _, t := range txns {
		if !t.commitOK {
			continue
		}
		fmt.Fprintf(&b, "txn%d@%d{", t.ord, t.commitTs)
		ks := make([]int, 0, len(t.writes))
		for k := range t.writes {
			ks = append(ks, k)
		}
		sort.Ints(ks)
		for _, k := range ks {
			fmt.Fprintf(&b, "k%d=%q ", k, trunc([]byte(t.writes[k].val)))
		}
		b.WriteString("} ")
	}
	return b.String()
}

// checkFinalDump (C04): the stored versions are exactly the writes of the
// successful commits, each at its commit version; nothing of a failed or
// discarded transaction is stored.
func checkFinalDump(m *modeC) {
	txns := buildTxns(m)
	type want struct {
		val string
		del bool
	}
	exp := map[string]want{}
	for _, t := range txns {
		if !t.commitOK {
			continue
		}
		for k, w := range t.writes {
			exp[fmt.Sprintf("%s@%d", keyNames[k], t.commitTs)] = want{val: w.val, del: w.kind == "del"}
		}
	}
	got := map[string]DumpEntry{}
	for _, d := range Dump(m.w) {
		if d.CF != kv.CFDefault {
			continue
		}
		got[fmt.Sprintf("%s@%d", d.Key, d.Version)] = d
	}
	sig := map[string]string{"max_batch_count": fmt.Sprint(m.w.C.CfgInt("max_batch_count", 0))}
	ids := make([]string, 0, len(got)+len(exp))
	for id := range got {
		ids = append(ids, id)
	}
	for id := range exp {
		if _, ok := got[id]; !ok {
			ids = append(ids, id)
		}
	}
	sort.Strings(ids)
	for _, id := range ids {
		m.res.Checks++
		d, stored := got[id]
		w, wanted := exp[id]
		switch {
		case stored && !wanted && m.ioFailed && ioFailedWrite(txns, d):
			m.res.Probes["stored_write_of_io_failed_commit"]++
		case stored && !wanted:
			m.res.Violate(m.res.Steps, "uncommitted_write_stored", sig, "stored entry %s is not a write of any successful commit (commits: %s)", d, descCommits(txns))
		case !stored && wanted:
			m.res.Violate(m.res.Steps, "committed_write_missing", sig, "write %s=%q of a successful commit is not stored", id, w.val)
		case stored && (w.del != (d.Meta&kv.BitDelete != 0) || (!w.del && string(d.Value) != w.val)):
			m.res.Violate(m.res.Steps, "committed_write_differs", sig, "stored %s, committed %q del=%v", d, w.val, w.del)
		}
	}
}

// ioFailedWrite: is the stored entry a write of a commit that reported the injected disk error?
func ioFailedWrite(txns []*txnRec, d DumpEntry) bool {
	for _, t := range txns {
		if t.commitOK || !strings.HasPrefix(t.commitErr, "other:") {
			continue
		}
		for k, w := range t.writes {
			if keyNames[k] == d.Key && (w.kind == "del") == (d.Meta&kv.BitDelete != 0) && (w.kind == "del" || string(d.Value) == w.val) {
				return true
			}
		}
	}
	return false
}

// recoverBubbleDeadlock turns synctest's end-of-bubble "deadlock" panic (tasks
// left blocked inside the SUT after a no_progress violation was recorded) into
// a normal return; any other panic is re-raised.
func recoverBubbleDeadlock(res *sim.Result) {
	if r := recover(); r != nil {
		msg := fmt.Sprint(r)
		if strings.Contains(msg, "deadlock") && len(res.Violations) > 0 {
			return
		}
		panic(r)
	}
}
