package dbsim

import (
	"bytes"
	"fmt"
	"github.com/feichai0017/NoKV/lsm"
	"os"
	"path/filepath"
	"sort"
	"strings"
	"testing"
	"testing/synctest"

	"github.com/feichai0017/NoKV/kv"

	"verif/sim"
)

func init() {
	props["C09"] = sim.PropSpec{Gen: func(r *sim.Rand, tier string) *sim.Case { return genCrash(r, tier, "C09") }, Exec: func(t *testing.T, c *sim.Case) *sim.Result { return execCrash(t, c, "C09") }}
	props["C10"] = sim.PropSpec{Gen: func(r *sim.Rand, tier string) *sim.Case { return genCrash(r, tier, "C10") }, Exec: func(t *testing.T, c *sim.Case) *sim.Result { return execCrash(t, c, "C10") }}
	props["C11"] = sim.PropSpec{Gen: func(r *sim.Rand, tier string) *sim.Case { return genCrash(r, tier, "C11") }, Exec: func(t *testing.T, c *sim.Case) *sim.Result { return execCrash(t, c, "C11") }}
}

func genCrash(r *sim.Rand, tier, prop string) *sim.Case {
	c := &sim.Case{Cfg: GenCfg(r)}
	nkeys := r.Pick(2, 3, 3, 6)
	c.Cfg["keys"] = int64(nkeys)
	// api: 0 plain (every (cf,key) written at most once unless overwrite=1), 2 transactional
	c.Cfg["api"] = int64(r.Pick(0, 2, 2))
	c.Cfg["overwrite"] = int64(r.Pick(0, 0, 1))
	switch prop {
	case "C09":
		c.Cfg["sync_writes"] = 1
	default:
		c.Cfg["sync_writes"] = int64(r.Intn(2))
	}
	c.Cfg["manifest_sync"] = int64(r.Intn(2))
	// crash placement: cut an image at every state-changing FS event whose
	// number is = phase (mod every), up to max images; torn variants included.
	every := r.Pick(1, 2, 3, 5, 7)
	maxImg := 10
	if tier == "thorough" {
		every = r.Pick(1, 1, 2, 3)
		maxImg = 40
	}
	c.Cfg["crash_every"] = int64(every)
	c.Cfg["crash_phase"] = int64(r.Intn(every))
	c.Cfg["crash_max"] = int64(maxImg)
	c.Cfg["crash_skip"] = int64(r.Pick(0, 0, 10, 20, 40))
	n := 6 + r.Intn(14)
	if tier == "thorough" {
		n = 8 + r.Intn(32)
	}
	// Value-log variant (C11, 1 case in 3): out-of-line values in several buckets of
	// tiny segments, so that segments fill, are sealed and collected; the maintenance
	// after the reopen is mostly value-log GC and is followed by three clean reopens
	// (what a GC pass recorded in the manifest is acted upon at the next Open).
	vlogv := prop == "C11" && r.Intn(3) == 0
	if vlogv {
		c.Cfg["api"] = 2
		c.Cfg["value_threshold"] = r.Pick64(32, 64)
		c.Cfg["vlog_file_size"] = r.Pick64(256, 512)
		c.Cfg["vlog_buckets"] = r.Pick64(2, 4)
		c.Cfg["reopen_cycles"] = 3
		n += 6
	}
	written := map[string]bool{}
	// key pattern for plain overwrites: uniform, or a window of two keys that
	// moves on at every rotation with an occasional wide write (L0 tables with
	// disjoint and partially overlapping ranges, as in C01)
	pattern, phase := r.Pick(0, 0, 1, 2), 0
	if pattern == 2 && c.Cfg["api"] == 0 && c.Cfg["overwrite"] == 1 {
		c.Ops = append(c.Ops, GenL0Layout(r, nkeys, 0)...)
	}
	for i := 0; i < n; i++ {
		if r.Intn(100) < 35 {
			m := GenMaint(r)
			if m.K == "reopen" && r.Intn(2) == 0 {
				m = sim.Op{K: "flush"}
			}
			if m.K == "rotate" {
				phase += 2
			}
			c.Ops = append(c.Ops, m)
			continue
		}
		if c.Cfg["api"] == 0 {
			cfi, ki := r.Intn(3), r.Intn(nkeys)
			if pattern == 1 && c.Cfg["overwrite"] == 1 && r.Intn(6) != 0 {
				cfi, ki = 0, (phase+r.Intn(2))%nkeys
			}
			k := pk(cfi, ki)
			if written[k] && c.Cfg["overwrite"] == 0 {
				continue
			}
			written[k] = true
			if r.Intn(6) == 0 {
				c.Ops = append(c.Ops, sim.Op{K: "del", A: int64(cfi), B: int64(ki)})
			} else {
				c.Ops = append(c.Ops, sim.Op{K: "set", A: int64(cfi), B: int64(ki), C: int64(r.Intn(6))})
			}
		} else {
			set := int64(1 + r.Intn((1<<nkeys)-1))
			vc := int64(r.Intn(6))
			if vlogv && r.Intn(4) != 0 {
				vc = int64(3 + r.Intn(3)) // out of line
			}
			c.Ops = append(c.Ops, sim.Op{K: "txn", A: set, B: int64(r.Intn(1 << nkeys)), C: vc, D: int64(r.Pick(0, 0, 0, 2))})
		}
	}
	if prop == "C11" {
		// maintenance schedule applied to every reopened image
		if pattern == 2 {
			// images cut inside the layout script are compacted from L0 after the reopen
			c.Ops = append(c.Ops, sim.Op{K: "flushall", S: "post"}, sim.Op{K: "compact", A: 0, C: int64(r.Intn(3)), D: int64(r.Intn(2)), S: "post"})
		}
		for i := 0; i < 6+r.Intn(6); i++ {
			m := GenMaint(r)
			if m.K == "reopen" || m.K == "advance" {
				m = sim.Op{K: "flushall"}
			}
			if vlogv && r.Intn(3) != 0 {
				m = sim.Op{K: "gc", A: int64(r.Intn(16)), B: int64(r.Intn(2))}
				if r.Intn(4) == 0 {
					m = sim.Op{K: "rungc"}
				}
			}
			m.S = "post"
			c.Ops = append(c.Ops, m)
		}
	}
	return c
}

// batchWrite is one entry of an accepted batch.
type batchWrite struct {
	cf  kv.ColumnFamily
	key string
	val []byte
	del bool
	exp uint64
}

type crashImage struct {
	dir      string
	ev       sim.FSEvent
	torn     int64
	acked    int // number of batches whose call had returned
	inflight int // index of the batch in flight, or -1
	gcRan    bool
	opIdx    int // index of the operation during which the image was cut
}

// tieKeys returns the (cf/key) names that currently have two stored copies of
// one version below L0. Plain-API overwrites all
// carry version 2^64-1; which of two such copies a level's ingest buffer
// returns (and keeps when it is merged) does not depend on recency - known
// finding, root C01.
func tieKeys(w *World, nkeys int, into map[string]bool) {
	if w.DB == nil {
		return
	}
	for _, cf := range cfs {
		for ki := 0; ki < nkeys && ki < len(keyNames); ki++ {
			byVer := map[uint64][]string{}
			for _, cp := range w.DB.VerifLocate(cf, []byte(keyNames[ki])) {
				byVer[cp.Version] = append(byVer[cp.Version], Where(cp))
			}
			for _, wh := range byVer {
				below := 0
				for _, x := range wh {
					if x == "Ln" || x == "Ln-ingest" {
						below++
					}
				}
				// the known defect needs both copies below L0 (L0 and memtables are
				// searched newest-first and before the levels)
				if below >= 2 {
					into[fmt.Sprintf("%d/%s", cf, keyNames[ki])] = true
				}
			}
		}
	}
}

type recEntry struct {
	val     []byte
	del     bool
	version uint64
	readErr string
}

// recoveredSeqs groups the recovered dump per (cf,key), versions ascending.
func recoveredSeqs(d []DumpEntry) map[string][]recEntry {
	out := map[string][]recEntry{}
	sort.SliceStable(d, func(i, j int) bool { return d[i].Version < d[j].Version })
	for _, e := range d {
		k := fmt.Sprintf("%d/%s", e.CF, e.Key)
		out[k] = append(out[k], recEntry{val: e.Value, del: e.Meta&kv.BitDelete != 0, version: e.Version, readErr: e.ReadErr})
	}
	return out
}

// modelSeqs is the expected per-key sequence after applying batches[:j].
func modelSeqs(batches [][]batchWrite, j int, plain bool) map[string][]batchWrite {
	out := map[string][]batchWrite{}
	for b := 0; b < j && b < len(batches); b++ {
		for _, wr := range batches[b] {
			k := fmt.Sprintf("%d/%s", wr.cf, wr.key)
			if plain {
				out[k] = []batchWrite{wr}
			} else {
				out[k] = append(out[k], wr)
			}
		}
	}
	return out
}

func sameSeqs(rec map[string][]recEntry, mod map[string][]batchWrite) bool {
	if len(rec) != len(mod) {
		return false
	}
	for k, rs := range rec {
		ms, ok := mod[k]
		if !ok || len(ms) != len(rs) {
			return false
		}
		for i := range rs {
			if rs[i].readErr != "" || rs[i].del != ms[i].del || (!rs[i].del && !bytes.Equal(rs[i].val, ms[i].val)) {
				return false
			}
		}
	}
	return true
}

func execCrash(t *testing.T, c *sim.Case, prop string) (res *sim.Result) {
	res = sim.NewResult()
	// An Open that fails half-way (reported as a violation) leaves the goroutines it had
	// started behind; synctest ends such a bubble with a deadlock panic.
	defer recoverBubbleDeadlock(res)
	synctest.Test(t, func(t *testing.T) {
		w := NewWorld(t, c, res)
		defer w.Cleanup()
		rejected = nil
		nkeys := int(c.CfgInt("keys", 3))
		plain := c.CfgInt("api", 0) == 0
		var batches [][]batchWrite
		var images []*crashImage
		inflight := -1
		every, phase := int(c.CfgInt("crash_every", 3)), int(c.CfgInt("crash_phase", 0))
		maxImg, skip := int(c.CfgInt("crash_max", 10)), int(c.CfgInt("crash_skip", 0))
		if every < 1 {
			every = 1
		}
		imgRoot := filepath.Join(sim.Scratch(), fmt.Sprintf("img%d", worldSeq))
		defer os.RemoveAll(imgRoot)
		cutting := true
		// tieAfter[i]: keys that had an equal-version tie below L0 at the end of some operation <= i
		tieAfter := make([]map[string]bool, len(c.Ops))
		w.FS.BeforeMutation = func(ev sim.FSEvent, torn int64) {
			// The switch of the CURRENT pointer (manifest creation and rewrite) is a rare
			// event with several steps: always cut there, whatever the sampling phase.
			rare := ev.Class == "current" && len(images) < maxImg+6 && ev.Seq >= 8
			if !cutting || (!rare && (ev.Seq < skip || ev.Seq%every != phase%every || len(images) >= maxImg)) {
				return
			}
			if ev.Class == "lock" {
				return
			}
			dir := filepath.Join(imgRoot, fmt.Sprintf("i%d", len(images)))
			if err := sim.CopyTree(w.Dir, dir); err != nil {
				return
			}
			images = append(images, &crashImage{dir: dir, ev: ev, torn: torn, acked: len(batches), inflight: inflight, gcRan: GCRan(w), opIdx: w.step})
			if torn > 0 {
				res.Faults["crash_image_torn_write"]++
			} else {
				res.Faults["crash_image"]++
			}
			res.Faults["crash_at_"+ev.Op+"_"+ev.Class]++
		}
		if err := w.Open(w.Dir); err != nil {
			res.Violate(0, "open_failed", nil, "%v", err)
			return
		}
		// pending holds the batch in flight; it becomes accepted when its call returns nil.
		var post []sim.Op
		cumTies := map[string]bool{}
		snapTies := func(i int) {
			if i < 0 || w.DB == nil {
				return
			}
			if plain {
				tieKeys(w, nkeys, cumTies)
			} else {
				invKeys(w, nkeys, cumTies)
			}
			tieAfter[i] = map[string]bool{}
			for k := range cumTies {
				tieAfter[i][k] = true
			}
		}
		for i, op := range c.Ops {
			snapTies(i - 1)
			w.step = i
			sim.Beat()
			res.Steps++
			if op.S == "post" {
				post = append(post, op)
				continue
			}
			switch op.K {
			case "set", "del":
				cfi, ki := int(op.A)%3, int(op.B)%nkeys
				wr := batchWrite{cf: cfs[cfi], key: keyNames[ki], del: op.K == "del"}
				if !wr.del {
					// every written value is unique, so a recovered value names its write
					tag := fmt.Sprintf("s%d:", i)
					wr.val = MakeValue(tag, op.C, w.Opt.ValueThreshold)
					if len(wr.val) < len(tag) {
						wr.val = []byte(tag)
					}
				}
				// Images cut during the call see this batch as in flight: it will be
				// batches[acked] if the call succeeds.
				inflight = len(batches)
				pend := []batchWrite{wr}
				var err error
				if wr.del {
					err = w.DB.DelCF(wr.cf, []byte(wr.key))
				} else {
					err = w.DB.SetCF(wr.cf, []byte(wr.key), wr.val)
				}
				synctest.Wait()
				inflight = -1
				res.Trace.Add("%s %d/%d err=%v", op.K, cfi, ki, err)
				if err == nil {
					batches = append(batches, pend)
				} else {
					rejected = append(rejected, pend)
				}
			case "txn":
				if plain {
					continue
				}
				// Compute the batch the transaction will write (same rules as TxnOp).
				inflight = len(batches)
				pendFn := func(writes map[int][]byte, exps map[int]uint64) []batchWrite {
					var out []batchWrite
					for ki := 0; ki < nkeys; ki++ {
						v, ok := writes[ki]
						if !ok {
							continue
						}
						out = append(out, batchWrite{cf: kv.CFDefault, key: keyNames[ki], val: v, del: v == nil, exp: exps[ki]})
					}
					return out
				}
				writes, exps, err := TxnOp(w, op, nkeys, i)
				synctest.Wait()
				inflight = -1
				res.Trace.Add("txn set=%b del=%b err=%v", op.A, op.B, err)
				if err == nil && len(writes) > 0 {
					batches = append(batches, pendFn(writes, exps))
				} else if len(writes) > 0 {
					rejected = append(rejected, pendFn(writes, exps))
				}
			default:
				if op.K == "reopen" {
					cutting = false
				}
				if w.Maint(op) {
					res.Trace.Add("maint %s", op.String())
				}
				cutting = true
			}
			if w.DB == nil {
				return
			}
		}
		snapTies(len(c.Ops) - 1)
		// The last in-flight information for images cut during a txn: the batch
		// that was in flight is batches[img.inflight] if that commit succeeded.
		cutting = false
		_ = w.Close()
		res.Nontrivial = len(images) > 0 && len(batches) > 0

		for n, img := range images {
			sim.Beat()
			var ties map[string]bool
			if img.opIdx >= 0 && img.opIdx < len(tieAfter) {
				ties = tieAfter[img.opIdx]
			}
			checkImage(t, c, res, prop, n, img, batches, plain, post, ties)
			_ = os.RemoveAll(img.dir)
		}
	})
	return res
}

// rejected collects batches whose call reported an error (reset per run; runs
// are sequential inside a worker process).
var rejected [][]batchWrite

func phaseOf(ev sim.FSEvent) string { return ev.Op + "_" + ev.Class }

func checkImage(t *testing.T, c *sim.Case, res *sim.Result, prop string, n int, img *crashImage, batches [][]batchWrite, plain bool, post []sim.Op, ties map[string]bool) {
	nv0 := len(res.Violations) // violations reported before this image
	iw := &World{T: t, C: c, Res: res, Dir: img.dir}
	iw.FS = sim.NewSimFS(img.dir)
	if os.Getenv("VERIF_IMGTRACE") != "" {
		iw.FS.Trace = res.Trace
		res.Trace.Add("--- image %d", n)
	}
	iw.step = n
	sync := c.CfgInt("sync_writes", 0) == 1
	sig := map[string]string{"crash_phase": phaseOf(img.ev), "torn": "no", "sync_writes": "no", "api": "txn", "vlog_gc_ran": "no"}
	if img.gcRan {
		sig["vlog_gc_ran"] = "yes"
	}
	if img.torn > 0 {
		sig["torn"] = "yes"
	}
	if sync {
		sig["sync_writes"] = "yes"
	}
	if plain {
		sig["api"] = "plain"
	}
	// ART memtables mis-order prefix-related user keys (known finding, root C07);
	// the key set of this run contains such pairs from four keys on.
	if c.CfgInt("memtable_art", 0) == 1 && c.CfgInt("keys", 0) >= 4 {
		sig["art_prefix_pair"] = "yes"
	}
	where := fmt.Sprintf("image %d cut before %s (torn=%d, acked batches=%d, inflight=%d)", n, img.ev, img.torn, img.acked, img.inflight)
	if err := iw.Open(img.dir); err != nil {
		kind := "other"
		msg := err.Error()
		switch {
		case strings.Contains(msg, "empty record"):
			kind = "wal_empty_record"
		case strings.Contains(msg, "checksum"), strings.Contains(msg, "crc"):
			kind = "checksum"
		case strings.Contains(msg, "manifest"), strings.Contains(msg, "MANIFEST"), strings.Contains(msg, "CURRENT"):
			kind = "manifest"
		case strings.Contains(msg, "vlog"), strings.Contains(msg, "value log"):
			kind = "vlog"
		}
		res.Violate(n, "reopen_failed", map[string]string{"error": kind, "torn": sig["torn"], "crash_phase": sig["crash_phase"], "sync_writes": sig["sync_writes"]}, "%s: reopen failed: %v", where, msg)
		return
	}
	defer func() {
		_ = iw.Close()
	}()
	res.Faults["image_reopened"]++
	dump := Dump(iw)
	rec := recoveredSeqs(dump)
	res.Checks++
	// equal-version copies below L0 (plain overwrites): seen while the image was
	// being produced, or present in the image itself
	tied := map[string]bool{}
	for k := range ties {
		tied[k] = true
	}
	if plain {
		tieKeys(iw, int(c.CfgInt("keys", 3)), tied)
	} else {
		// transactional runs: "tied" holds version-order inversions instead
		invKeys(iw, int(c.CfgInt("keys", 3)), tied)
	}
	tieSig := func(base map[string]string, keys ...string) map[string]string {
		fact := "equal_version_tie"
		if !plain {
			fact = "version_order_inverted"
		}
		out := map[string]string{fact: "no"}
		for k, v := range base {
			out[k] = v
		}
		for _, k := range keys {
			if tied[k] {
				out[fact] = "yes"
			}
		}
		return out
	}
	allKeys := make([]string, 0, len(tied))
	for k := range tied {
		allKeys = append(allKeys, k)
	}

	// Which prefixes of the accepted batches does the recovered state equal?
	match := -1
	for j := len(batches); j >= 0; j-- {
		if sameSeqs(rec, modelSeqs(batches, j, plain)) {
			match = j
			break
		}
	}
	switch prop {
	case "C09":
		// every acknowledged batch is present with its exact value
		mod := modelSeqs(batches, img.acked, plain)
		keys := make([]string, 0, len(mod))
		for k := range mod {
			keys = append(keys, k)
		}
		sort.Strings(keys)
		for _, k := range keys {
			ms, rs := mod[k], rec[k]
			res.Checks++
			if plain {
				// a later (in-flight or unacknowledged) overwrite may have replaced it
				if len(rs) == 1 && matchesAny(rs[0], batches, img.acked, k) {
					continue
				}
				if len(rs) == 1 && rs[0].readErr == "" && rs[0].del == ms[0].del && (rs[0].del || bytes.Equal(rs[0].val, ms[0].val)) {
					continue
				}
				res.Violate(n, "acked_write_lost", tieSig(sig, k), "%s: key %s: recovered %s, acknowledged %s; copies: %s", where, k, descRec(rs), descMod(ms), DescribeCopies(iw, ms[0].cf, []byte(ms[0].key)))
				continue
			}
			bad := len(rs) < len(ms)
			for i := 0; !bad && i < len(ms); i++ {
				if rs[i].readErr != "" || rs[i].del != ms[i].del || (!rs[i].del && !bytes.Equal(rs[i].val, ms[i].val)) {
					bad = true
				}
			}
			if bad {
				// are all acknowledged writes of the key stored in some container of the image?
				s2 := map[string]string{"expected_stored": "yes"}
				for k2, v := range sig {
					s2[k2] = v
				}
				for _, m := range ms {
					if !StoredCopy(iw, m.cf, []byte(m.key), 0, m.val, m.del) {
						s2["expected_stored"] = "no"
					}
				}
				res.Violate(n, "acked_write_lost", tieSig(s2, k), "%s: key %s: recovered %s, acknowledged %s; copies: %s", where, k, descRec(rs), descMod(ms), DescribeCopies(iw, ms[0].cf, []byte(ms[0].key)))
			}
		}
	case "C10", "C11":
		if prop == "C10" {
			// Do the stored copies themselves (every container, each version taken from
			// a readable copy of exactly that version) equal some prefix? Then the
			// non-prefix view is produced by the read path (a version served by a copy
			// of another version), not by lost or extra data.
			sig["stored_contents_prefix"] = yn(storedMatchesPrefix(iw, int(c.CfgInt("keys", 3)), batches, plain))
			switch {
			case match < 0:
				kind := classifyNonPrefix(rec, batches, plain)
				s2 := map[string]string{"kind": kind}
				for k, v := range sig {
					s2[k] = v
				}
				res.Violate(n, "not_a_prefix", tieSig(s2, allKeys...), "%s: recovered contents equal no prefix of the %d accepted batches: %s", where, len(batches), descDump(dump))
			case sync && match < img.acked:
				res.Violate(n, "prefix_below_acked", tieSig(sig, allKeys...), "%s: recovered prefix %d < acknowledged %d", where, match, img.acked)
			}
			for _, d := range dump {
				if d.ReadErr != "" {
					res.Violate(n, "present_key_unreadable", tieSig(sig, fmt.Sprintf("%d/%s", d.CF, d.Key)), "%s: %s; copies: %s", where, d, DescribeCopies(iw, d.CF, []byte(d.Key)))
				}
			}
		}
	}
	if prop == "C10" && n%2 == 0 && len(res.Violations) == nv0 {
		// A second life on the recovered directory: new writes (keys of their own),
		// memtable rotations, flushes and a compaction, then a clean reopen. Whatever
		// the first recovery produced must still be there: file ids, log pointers and
		// value-log heads handed out after a recovery must not collide with what the
		// recovered state already owns.
		before := dump
		nk := int(c.CfgInt("keys", 3))
		dupID := false
		track := func() { // the known tie / version-order defects can arise in the second life too
			if plain {
				tieKeys(iw, nk, tied)
			} else {
				invKeys(iw, nk, tied)
			}
			// A table installed under the file id of a table the recovered state owns:
			// from here on either file can be unlinked under the other's mapping.
			seen := map[uint64]bool{}
			for _, tb := range iw.DB.VerifLSM().VerifTables() {
				if seen[tb.FileID] && !dupID {
					dupID = true
					res.Violate(n, "duplicate_table_id", map[string]string{"phase": "second_life"}, "%s: after recovery a new table was installed under file id %d, which a recovered table owns: %s", where, tb.FileID, DescribeTables(iw))
				}
				seen[tb.FileID] = true
			}
		}
		for j := 0; j < 3 && !dupID; j++ {
			key := []byte(fmt.Sprintf("second-life-%d-%d", n, j))
			if err := iw.DB.SetCF(kv.CFDefault, key, MakeValue(fmt.Sprintf("x%d.%d:", n, j), int64(2+j), iw.Opt.ValueThreshold)); err != nil {
				break
			}
			synctest.Wait()
			iw.Maint(sim.Op{K: "rotate"})
			iw.Maint(sim.Op{K: "flushall"})
			track()
		}
		if dupID {
			return
		}
		iw.Maint(sim.Op{K: "compact", A: 0})
		track()
		iw.Maint(sim.Op{K: "compactonce"})
		track()
		iw.Maint(sim.Op{K: "flushall"})
		track()
		if dupID {
			return
		}
		_ = iw.Close()
		if err := iw.Open(img.dir); err != nil {
			res.Violate(n, "second_reopen_failed", nil, "%s: after a second life: %v", where, err)
			return
		}
		var after []DumpEntry
		for _, d := range Dump(iw) {
			if !strings.HasPrefix(d.Key, "second-life-") {
				after = append(after, d)
			}
		}
		track()
		res.Faults["second_life_after_recovery"]++
		DiffDumps(iw, "second_life_changed_contents", func(d DumpEntry) map[string]string {
			return tieSig(map[string]string{"api": sig["api"], "vlog_gc_ran": sig["vlog_gc_ran"]}, fmt.Sprintf("%d/%s", d.CF, d.Key))
		}, before, after, where+": after new writes, flushes, a compaction and a clean reopen")
	}
	if prop == "C11" {
		// Background work alone must not change the contents of a reopened database.
		before := dump
		postTies := map[string]bool{}
		for _, op := range post {
			iw.Maint(op)
			if plain {
				tieKeys(iw, int(c.CfgInt("keys", 3)), postTies)
			} else {
				invKeys(iw, int(c.CfgInt("keys", 3)), postTies)
			}
		}
		for i := 0; i < 8 && iw.FlushOne(); i++ {
		}
		after := Dump(iw)
		hz := func(d DumpEntry) map[string]string {
			s := map[string]string{"vlog_gc_ran": "no", "api": sig["api"], "overwrite": fmt.Sprint(c.CfgInt("overwrite", 0))}
			if sig["art_prefix_pair"] == "yes" {
				s["art_prefix_pair"] = "yes"
			}
			if GCRan(iw) || img.gcRan {
				s["vlog_gc_ran"] = "yes"
			}
			k := fmt.Sprintf("%d/%s", d.CF, d.Key)
			if plain {
				// two equal-version copies of this key below L0 (known tie defect), now or
				// while the image was produced?
				tieKeys(iw, int(c.CfgInt("keys", 3)), postTies)
				s["equal_version_tie"] = yn(postTies[k] || tied[k])
			} else {
				invKeys(iw, int(c.CfgInt("keys", 3)), postTies)
				s["version_order_inverted"] = yn(postTies[k] || tied[k])
			}
			return s
		}
		DiffDumps(iw, "maintenance_changed_contents", hz, before, after, where+": maintenance after reopen")
		// and a further clean reopen must not either
		_ = iw.Close()
		if err := iw.Open(img.dir); err != nil {
			res.Violate(n, "second_reopen_failed", nil, "%s: %v", where, err)
			return
		}
		again := Dump(iw)
		DiffDumps(iw, "second_reopen_changed_contents", hz, after, again, where+": second reopen")
		for cyc := 1; cyc < int(c.CfgInt("reopen_cycles", 1)) && len(res.Violations) == nv0; cyc++ {
			_ = iw.Close()
			if err := iw.Open(img.dir); err != nil {
				res.Violate(n, "second_reopen_failed", nil, "%s: reopen cycle %d: %v", where, cyc+1, err)
				return
			}
			DiffDumps(iw, "second_reopen_changed_contents", hz, after, Dump(iw), fmt.Sprintf("%s: reopen cycle %d", where, cyc+1))
		}
	}
}

// invKeys adds the (cf/key) names for which a lower version currently sits in a
// container that the read path searches before a container holding a higher
// version (after a value-log GC re-insertion): the first-hit read path then
// serves - and GC's liveness lookup then sees - the lower version (known
// finding, root C02).
func invKeys(w *World, nkeys int, into map[string]bool) {
	if w.DB == nil {
		return
	}
	before := func(a, b lsm.VerifCopy) bool {
		ra, rb := containerRank(a.Where), containerRank(b.Where)
		if ra != rb {
			return ra < rb
		}
		return a.Where == "L0" && a.FileID > b.FileID // newer L0 table first
	}
	for _, cf := range cfs {
		for ki := 0; ki < nkeys && ki < len(keyNames); ki++ {
			cps := w.DB.VerifLocate(cf, []byte(keyNames[ki]))
			for i := range cps {
				for j := range cps {
					if cps[i].Version < cps[j].Version && before(cps[i], cps[j]) {
						into[fmt.Sprintf("%d/%s", cf, keyNames[ki])] = true
					}
				}
			}
		}
	}
}

// storedMatchesPrefix rebuilds the per-key version sequences from the stored
// copies (not through the read path) and compares them with every prefix.
func storedMatchesPrefix(w *World, nkeys int, batches [][]batchWrite, plain bool) bool {
	if w.DB == nil {
		return false
	}
	raw := map[string][]recEntry{}
	for _, cf := range cfs {
		for ki := 0; ki < nkeys && ki < len(keyNames); ki++ {
			byVer := map[uint64]recEntry{}
			var vers []uint64
			for _, cp := range w.DB.VerifLocate(cf, []byte(keyNames[ki])) {
				r := recEntry{val: cp.Value, del: cp.Meta&kv.BitDelete != 0, version: cp.Version}
				if !r.del && cp.Value == nil && cp.Meta&kv.BitValuePointer != 0 {
					r.readErr = "unreadable copy"
				}
				old, seen := byVer[cp.Version]
				if !seen {
					vers = append(vers, cp.Version)
				}
				if !seen || (old.readErr != "" && r.readErr == "") {
					byVer[cp.Version] = r
				}
			}
			sort.Slice(vers, func(i, j int) bool { return vers[i] < vers[j] })
			for _, v := range vers {
				k := fmt.Sprintf("%d/%s", cf, keyNames[ki])
				raw[k] = append(raw[k], byVer[v])
			}
		}
	}
	for j := len(batches); j >= 0; j-- {
		if sameSeqs(raw, modelSeqs(batches, j, plain)) {
			return true
		}
	}
	return false
}

func matchesAny(r recEntry, batches [][]batchWrite, from int, key string) bool {
	for b := from; b < len(batches); b++ {
		for _, wr := range batches[b] {
			if fmt.Sprintf("%d/%s", wr.cf, wr.key) == key && r.readErr == "" && r.del == wr.del && (r.del || bytes.Equal(r.val, wr.val)) {
				return true
			}
		}
	}
	return false
}

// classifyNonPrefix explains why the recovered contents match no prefix.
func classifyNonPrefix(rec map[string][]recEntry, batches [][]batchWrite, plain bool) string {
	// Partial application of one batch: model(j) <= recovered <= model(j+1), key by key.
	if !plain {
		for j := 0; j < len(batches); j++ {
			if seqsBetween(rec, modelSeqs(batches, j, plain), modelSeqs(batches, j+1, plain)) {
				return "partial_batch"
			}
		}
	}
	// Does some batch appear partially (some of its writes present, others not)?
	known := map[string]int{}
	for b, bw := range batches {
		for _, wr := range bw {
			if !wr.del {
				known[string(wr.val)] = b
			}
		}
	}
	for _, bw := range rejected {
		for _, wr := range bw {
			if !wr.del {
				known[string(wr.val)] = -2
			}
		}
	}
	present := map[int]int{}
	garbage, unreadable, fromRejected := false, false, false
	for _, rs := range rec {
		for _, r := range rs {
			if r.readErr != "" {
				unreadable = true
				continue
			}
			if r.del {
				continue
			}
			b, ok := known[string(r.val)]
			switch {
			case !ok:
				garbage = true
			case b == -2:
				fromRejected = true
			default:
				present[b]++
			}
		}
	}
	switch {
	case unreadable:
		return "unreadable_value"
	case garbage:
		return "value_never_written"
	case fromRejected:
		return "rejected_batch_visible"
	}
	for b, n := range present {
		puts := 0
		for _, wr := range batches[b] {
			if !wr.del {
				puts++
			}
		}
		if n < puts {
			return "partial_batch"
		}
	}
	return "hole_or_reorder"
}

func descRec(rs []recEntry) string {
	var b strings.Builder
	b.WriteString("[")
	for _, r := range rs {
		switch {
		case r.readErr != "":
			fmt.Fprintf(&b, "ERR(%s)@%d ", r.readErr, r.version)
		case r.del:
			fmt.Fprintf(&b, "del@%d ", r.version)
		default:
			fmt.Fprintf(&b, "%q@%d ", trunc(r.val), r.version)
		}
	}
	return b.String() + "]"
}

func descMod(ms []batchWrite) string {
	var b strings.Builder
	b.WriteString("[")
	for _, m := range ms {
		if m.del {
			b.WriteString("del ")
		} else {
			fmt.Fprintf(&b, "%q ", trunc(m.val))
		}
	}
	return b.String() + "]"
}

func descDump(d []DumpEntry) string {
	var b strings.Builder
	for i, e := range d {
		if i > 24 {
			b.WriteString("...")
			break
		}
		b.WriteString(e.String() + "; ")
	}
	return b.String()
}

func recMatches(r recEntry, m batchWrite) bool {
	return r.readErr == "" && r.del == m.del && (r.del || bytes.Equal(r.val, m.val))
}

// seqsBetween reports whether, key by key, lo is a prefix of rec and rec is a prefix of hi.
func seqsBetween(rec map[string][]recEntry, lo, hi map[string][]batchWrite) bool {
	for k, rs := range rec {
		hs := hi[k]
		if len(rs) > len(hs) {
			return false
		}
		for i := range rs {
			if !recMatches(rs[i], hs[i]) {
				return false
			}
		}
	}
	for k, ls := range lo {
		if len(rec[k]) < len(ls) {
			return false
		}
	}
	return true
}
