package dbsim

import (
	"bytes"
	"fmt"
	"strings"
	"time"

	"github.com/feichai0017/NoKV/kv"
	"github.com/feichai0017/NoKV/utils"

	"verif/sim"
)

// DumpEntry is one stored (cf, key, version) with its visible copy.
type DumpEntry struct {
	CF      kv.ColumnFamily
	Key     string
	Version uint64
	Meta    byte // value-pointer bit cleared
	Expires uint64
	Value   []byte
	ReadErr string
}

func (d DumpEntry) ID() string { return fmt.Sprintf("%d/%q@%d", d.CF, d.Key, d.Version) }

func (d DumpEntry) String() string {
	s := fmt.Sprintf("%s meta=%d exp=%d %q", d.ID(), d.Meta, d.Expires, trunc(d.Value))
	if d.ReadErr != "" {
		s += " ERR:" + d.ReadErr
	}
	return s
}

// Dump lists every stored internal key once (the copy the merged iterator
// yields first), values resolved through the value log. Engine-internal keys
// are left out.
func Dump(w *World) []DumpEntry {
	it := w.DB.NewInternalIterator(&utils.Options{IsAsc: true})
	defer it.Close()
	var out []DumpEntry
	seen := map[string]bool{}
	for it.Rewind(); it.Valid(); it.Next() {
		item := it.Item()
		if item == nil || item.Entry() == nil {
			continue
		}
		e := item.Entry()
		cf, uk, ver := kv.SplitInternalKey(e.Key)
		if strings.HasPrefix(string(uk), "!NoKV!") {
			continue
		}
		d := DumpEntry{CF: cf, Key: string(uk), Version: ver, Meta: e.Meta &^ kv.BitValuePointer, Expires: e.ExpiresAt}
		if seen[d.ID()] {
			continue
		}
		seen[d.ID()] = true
		out = append(out, d)
	}
	// The iterator only enumerates the stored (cf,key,version) triples; what each
	// one reads as is taken from a point read at exactly that version, so that
	// duplicate copies of one internal key do not make the dump order-dependent.
	for i := range out {
		d := &out[i]
		e, err := w.DB.GetVersionedEntry(d.CF, []byte(d.Key), d.Version)
		if err != nil {
			d.ReadErr = err.Error()
			d.Meta, d.Expires, d.Value = 0, 0, nil
			continue
		}
		d.Meta, d.Expires, d.Value = e.Meta&^kv.BitValuePointer, e.ExpiresAt, e.Value
	}
	return out
}

// DiffDumps reports differences between two dumps (as violations of class cls).
func DiffDumps(w *World, cls string, sigFn func(DumpEntry) map[string]string, before, after []DumpEntry, what string) {
	bm := map[string]DumpEntry{}
	for _, d := range before {
		bm[d.ID()] = d
	}
	am := map[string]DumpEntry{}
	for _, d := range after {
		am[d.ID()] = d
	}
	for _, d := range before {
		a, ok := am[d.ID()]
		w.Res.Checks++
		// Is the entry as it read before still stored somewhere (then the read
		// path picks another copy), or is it gone from every container?
		stored := func(sig map[string]string) map[string]string {
			// (under any version: a read at version v may have been served by a copy of another version)
			sig["prior_value_stored"] = yn(d.ReadErr == "" && StoredCopy(w, d.CF, []byte(d.Key), 0, d.Value, d.Meta&kv.BitDelete != 0))
			return sig
		}
		switch {
		case !ok:
			w.Res.Violate(w.step, cls, stored(artSig(w, d.Key, withKind(sigOf(sigFn, d), "entry_lost"))), "%s: %s disappeared; copies now: %s tables: %s", what, d, DescribeCopies(w, d.CF, []byte(d.Key)), DescribeTables(w))
		case a.Meta != d.Meta || a.Expires != d.Expires || !bytes.Equal(a.Value, d.Value) || a.ReadErr != d.ReadErr:
			w.Res.Violate(w.step, cls, stored(artSig(w, d.Key, withKind(sigOf(sigFn, d), "entry_changed"))), "%s: %s became %s; copies now: %s", what, d, a, DescribeCopies(w, d.CF, []byte(d.Key)))
		}
	}
	for _, a := range after {
		if _, ok := bm[a.ID()]; !ok {
			w.Res.Violate(w.step, cls, artSig(w, a.Key, withKind(sigOf(sigFn, a), "entry_appeared")), "%s: %s appeared", what, a)
		}
	}
}

// StoredCopy reports whether some container holds a readable copy of (cf,key)
// with this value (or a tombstone when del); version 0 matches any version.
func StoredCopy(w *World, cf kv.ColumnFamily, key []byte, version uint64, val []byte, del bool) bool {
	if w.DB == nil {
		return false
	}
	for _, cp := range w.DB.VerifLocate(cf, key) {
		if version != 0 && cp.Version != version {
			continue
		}
		isDel := cp.Meta&kv.BitDelete != 0
		if del && isDel {
			return true
		}
		if !del && !isDel && cp.Value != nil && bytes.Equal(cp.Value, val) {
			return true
		}
	}
	return false
}

func withKind(sig map[string]string, kind string) map[string]string {
	out := map[string]string{"kind": kind}
	for k, v := range sig {
		out[k] = v
	}
	return out
}

// TxnOp applies one generated multi-key transaction through the Txn API:
// keys in mask A are set (unique values), keys in mask B deleted, D codes a TTL.
// Returns the writes (key index -> value or nil for delete) and the commit error.
func TxnOp(w *World, op sim.Op, nkeys int, step int) (map[int][]byte, map[int]uint64, error) {
	writes := map[int][]byte{}
	expires := map[int]uint64{}
	txn := w.DB.NewTransaction(true)
	defer txn.Discard()
	var ttl time.Duration
	switch op.D % 4 {
	case 1:
		ttl = 5 * time.Second
	case 2:
		ttl = 2 * time.Minute
	}
	for ki := 0; ki < nkeys; ki++ {
		key := []byte(keyNames[ki])
		switch {
		case op.A&(1<<ki) != 0:
			// unique per write, so that a value read back names its write
			tag := fmt.Sprintf("t%d.%d:", step, ki)
			val := MakeValue(tag, op.C+int64(ki), w.Opt.ValueThreshold)
			if len(val) < len(tag) {
				val = []byte(tag)
			}
			e := kv.NewEntry(key, val)
			if ttl > 0 {
				e = e.WithTTL(ttl)
				expires[ki] = e.ExpiresAt
			}
			if err := txn.SetEntry(e); err != nil {
				return nil, nil, err
			}
			writes[ki] = val
		case op.B&(1<<ki) != 0:
			if err := txn.Delete(key); err != nil {
				return nil, nil, err
			}
			writes[ki] = nil
		}
	}
	err := txn.Commit()
	return writes, expires, err
}

func artSig(w *World, key string, sig map[string]string) map[string]string {
	if ArtPrefixPair(w, []byte(key)) {
		sig["art_prefix_pair"] = "yes"
	}
	return sig
}

func sigOf(fn func(DumpEntry) map[string]string, d DumpEntry) map[string]string {
	if fn == nil {
		return nil
	}
	return fn(d)
}
