package dbsim

// Checks C17, C18, C19: Percolator histories executed by the real
// raftstore/kv.Apply on a real NoKV.DB (mode S), maintenance placed by the
// case, compared with the reference model in perco_model_test.go after every
// request and probed at every relevant timestamp after every step.
//
// One oracle serves the three properties; every assertion belongs to exactly
// one property ("domain") and a check reports the assertions of its own
// domain only (the others are counted as probes x<id>:<class>). Lock-view
// divergences are resynchronised narrowly (the model adopts the observed lock
// of that key) so that C17 judges reads relative to the locks the engine
// reports, and C19 alone is charged with the lock life cycle.

import (
	"bytes"
	"fmt"
	"hash/fnv"
	"math"
	"os"
	"sort"
	"strconv"
	"strings"
	"testing"
	"testing/synctest"

	"github.com/feichai0017/NoKV/kv"
	"github.com/feichai0017/NoKV/pb"
	"github.com/feichai0017/NoKV/percolator"
	rkv "github.com/feichai0017/NoKV/raftstore/kv"
	"github.com/feichai0017/NoKV/verifhook"

	"verif/sim"
)

var percoKeys = []string{"k0", "k1", "k2", "zz"}

func init() {
	for _, id := range []int{17, 18, 19} {
		id := id
		props[fmt.Sprintf("C%d", id)] = sim.PropSpec{
			Gen:  func(r *sim.Rand, tier string) *sim.Case { return genPerco(r, tier, id) },
			Exec: execPerco,
		}
	}
}

// ---------------------------------------------------------------------------
// generator

type gTxn struct {
	start, commit  uint64
	keys           []int // keys[0] is the primary
	kinds          map[int]string
	ttl, minCommit uint64
	script         []sim.Op
}

func keyList(keys []int) string {
	s := make([]string, len(keys))
	for i, k := range keys {
		s[i] = strconv.Itoa(k)
	}
	return strings.Join(s, ",")
}

func (t *gTxn) prewrite(keys []int) sim.Op {
	parts := make([]string, len(keys))
	for i, k := range keys {
		kind, ok := t.kinds[k]
		if !ok {
			kind = "P0"
		}
		parts[i] = fmt.Sprintf("%d=%s", k, kind)
	}
	return sim.Op{K: "prewrite", A: int64(t.start), B: int64(t.ttl), C: int64(t.minCommit), D: int64(t.keys[0]), S: strings.Join(parts, ",")}
}
func (t *gTxn) commitOp(keys []int) sim.Op {
	return sim.Op{K: "commit", A: int64(t.start), B: int64(t.commit), S: keyList(keys)}
}
func (t *gTxn) rollbackOp(keys []int) sim.Op {
	return sim.Op{K: "rollback", A: int64(t.start), S: keyList(keys)}
}
func (t *gTxn) resolveOp(keys []int, commit bool) sim.Op {
	op := sim.Op{K: "resolve", A: int64(t.start), S: keyList(keys)}
	if commit {
		op.B = int64(t.commit)
	}
	return op
}
func (t *gTxn) ctsOp(r *sim.Rand, key int, txns []*gTxn) sim.Op {
	var cur uint64
	if t.ttl == 0 {
		cur = uint64(r.Pick64(int64(t.start), int64(t.start)+5, 1000, int64(t.start)-1, 1))
	} else {
		// including callers whose timestamp lies below the lock's start timestamp
		// (an older transaction that met the lock of a newer one)
		e := int64(t.start + t.ttl)
		cur = uint64(r.Pick64(int64(t.start), e-1, e, e, e+1, 1000, int64(t.start)-1, int64(t.start)/2, 1))
	}
	var caller uint64
	switch r.Intn(6) {
	case 0, 1:
		caller = txns[r.Intn(len(txns))].start
	case 2:
		caller = t.commit + 5 // pushes min-commit above the planned commit timestamp
	case 3:
		caller = t.start + 1
	}
	return sim.Op{K: "cts", A: int64(t.start), B: int64(cur), C: int64(caller), D: int64(key*2 + r.Pick(0, 0, 1))}
}

func subset(r *sim.Rand, xs []int) []int {
	var out []int
	for _, x := range xs {
		if r.Intn(2) == 0 {
			out = append(out, x)
		}
	}
	if len(out) == 0 {
		out = append(out, xs[r.Intn(len(xs))])
	}
	return out
}

func genPercoMaint(r *sim.Rand, gc, dense bool) sim.Op {
	for {
		if dense && r.Intn(2) == 0 {
			switch r.Intn(5) {
			case 0:
				return sim.Op{K: "rotate"}
			case 1, 2:
				return sim.Op{K: "flush"}
			case 3:
				return sim.Op{K: "compact", A: 0, B: int64(r.Intn(3)), C: int64(r.Pick(0, 0, 1, 2)), D: int64(r.Intn(2))}
			default:
				return sim.Op{K: "compact", A: int64(r.Pick(1, 2, 3, 4, 5, 6)), B: int64(r.Intn(3)), C: int64(r.Pick(0, 0, 1, 2)), D: int64(r.Intn(2))}
			}
		}
		op := GenMaint(r)
		if (op.K == "gc" || op.K == "rungc") && !gc {
			continue
		}
		return op
	}
}

func genPerco(r *sim.Rand, tier string, prop int) *sim.Case {
	c := &sim.Case{Cfg: GenCfg(r)}
	nkeys := r.Pick(1, 2, 3, 3, 4)
	if nkeys > 3 && c.Cfg["memtable_art"] == 1 {
		nkeys = 3 // as fixART in main_test.go: ART runs use the three prefix-free "k*" names
	}
	// Every open/rotation clears a whole arena; the shipped 64 MiB arena (knob 0)
	// makes a run with reopen steps ~50x dearer and is irrelevant to this layer.
	c.Cfg["arena_size"] = 1 << 20
	ntxn := r.Pick(2, 3, 4, 5, 6)
	gc := r.Intn(16) == 0
	c.Cfg["keys"] = int64(nkeys)
	c.Cfg["txns"] = int64(ntxn)
	c.Cfg["prop"] = int64(prop)
	c.Cfg["gc"] = 0
	if gc {
		c.Cfg["gc"] = 1
	}
	allKeys := make([]int, nkeys)
	for i := range allKeys {
		allKeys[i] = i
	}

	// Unique timestamps from a small increasing pool.
	tsMode := r.Intn(3)
	c.Cfg["ts_mode"] = int64(tsMode)
	txns := make([]*gTxn, ntxn)
	used := map[uint64]bool{}
	perm := r.Perm(2 * ntxn)
	for i := range txns {
		t := &gTxn{kinds: map[int]string{}}
		switch tsMode {
		case 0: // mostly disjoint, increasing
			t.start, t.commit = uint64(20*i+10), uint64(20*i+20)
		case 1: // random pairing: heavily overlapping intervals
			a, b := uint64(10*(perm[2*i]+1)), uint64(10*(perm[2*i+1]+1))
			if a > b {
				a, b = b, a
			}
			t.start, t.commit = a, b
		default: // staggered
			t.start = uint64(10 * (i + 1))
			for k := r.Intn(3); ; k++ {
				t.commit = t.start + 5 + uint64(10*k)
				if !used[t.commit] {
					break
				}
			}
		}
		used[t.start], used[t.commit] = true, true
		p := r.Perm(nkeys)
		nk := 1 + r.Intn(minInt(nkeys, 3))
		t.keys = append(t.keys, p[:nk]...)
		for _, k := range t.keys {
			switch r.Intn(10) {
			case 0, 1:
				t.kinds[k] = "D"
			case 2, 3:
				t.kinds[k] = "L"
			default:
				t.kinds[k] = fmt.Sprintf("P%d", r.Intn(5))
			}
		}
		t.ttl = uint64(r.Pick64(0, 3, 15, 25, 500))
		switch r.Intn(8) {
		case 0:
			t.minCommit = t.start + 1
		case 1:
			t.minCommit = t.commit
		case 2:
			t.minCommit = t.commit + 1
		}
		txns[i] = t
	}
	// Client scripts.
	for _, t := range txns {
		pri, rest := t.keys[:1], t.keys[1:]
		switch v := r.Intn(4); {
		case v <= 1 || len(rest) == 0:
			t.script = append(t.script, t.prewrite(t.keys))
		case v == 2:
			t.script = append(t.script, t.prewrite(pri), t.prewrite(rest))
		default:
			t.script = append(t.script, t.prewrite(rest), t.prewrite(pri))
		}
		switch plan := r.Intn(10); {
		case plan <= 5:
			switch v := r.Intn(3); {
			case v == 0 || len(rest) == 0:
				t.script = append(t.script, t.commitOp(t.keys))
			case v == 1:
				t.script = append(t.script, t.commitOp(pri), t.commitOp(rest))
			default:
				t.script = append(t.script, t.commitOp(pri), t.resolveOp(rest, true))
			}
		case plan <= 7:
			if r.Intn(2) == 0 || len(rest) == 0 {
				t.script = append(t.script, t.rollbackOp(t.keys))
			} else {
				t.script = append(t.script, t.rollbackOp(pri), t.rollbackOp(rest))
			}
		case plan == 8:
			cur := int64(1000)
			t.script = append(t.script, sim.Op{K: "cts", A: int64(t.start), B: cur, D: int64(t.keys[0] * 2)}, t.resolveOp(t.keys, false))
		}
	}

	n := 20 + r.Intn(30)
	if tier == "thorough" {
		n = 20 + r.Intn(60)
	}
	maintPct, dupPct, roguePct, readPct := r.Pick(15, 30, 45), 8, 15, 6
	dense := false
	switch prop {
	case 18:
		dupPct, roguePct = r.Pick(10, 20, 30), r.Pick(15, 25)
		maintPct = r.Pick(10, 20, 35)
	case 19:
		maintPct, dense = r.Pick(30, 45, 60), true
		roguePct = 20
	}
	var sent []sim.Op
	emit := func(op sim.Op) {
		c.Ops = append(c.Ops, op)
		sent = append(sent, op)
	}
	for len(c.Ops) < n {
		x := r.Intn(100)
		switch {
		case x < maintPct:
			c.Ops = append(c.Ops, genPercoMaint(r, gc, dense))
			if dense && r.Intn(3) == 0 {
				c.Ops = append(c.Ops, sim.Op{K: "rotate"}, sim.Op{K: "flush"})
			}
		case x < maintPct+dupPct && len(sent) > 0:
			i := r.Intn(len(sent))
			if r.Intn(2) == 0 && len(sent) > 4 {
				i = len(sent) - 1 - r.Intn(4)
			}
			c.Ops = append(c.Ops, sent[i])
		case x < maintPct+dupPct+roguePct:
			t := txns[r.Intn(ntxn)]
			keys := subset(r, t.keys)
			if r.Intn(4) == 0 {
				keys = subset(r, allKeys)
			}
			switch r.Intn(8) {
			case 0:
				emit(t.prewrite(keys))
			case 1, 2:
				emit(t.commitOp(keys))
			case 3, 4:
				emit(t.rollbackOp(keys))
			case 5:
				emit(t.resolveOp(keys, r.Intn(2) == 0))
			default:
				key := t.keys[0]
				if r.Intn(4) == 0 {
					key = keys[0]
				}
				emit(t.ctsOp(r, key, txns))
			}
		case x < maintPct+dupPct+roguePct+readPct:
			t := txns[r.Intn(ntxn)]
			ts := r.Pick64(int64(t.start), int64(t.commit), int64(t.start)-1, int64(t.commit)+1, -1)
			if r.Intn(2) == 0 {
				c.Ops = append(c.Ops, sim.Op{K: "get", A: ts, B: int64(r.Intn(nkeys))})
			} else {
				c.Ops = append(c.Ops, sim.Op{K: "scan", A: ts, B: r.Pick64(1, 2, 100), C: int64(r.Intn(2)), D: int64(r.Intn(nkeys + 1))})
			}
		default:
			// progress a client script (prefer the oldest unfinished one half of the time)
			var live []*gTxn
			for _, t := range txns {
				if len(t.script) > 0 {
					live = append(live, t)
				}
			}
			if len(live) == 0 {
				if roguePct < 40 {
					roguePct += 10
				}
				continue
			}
			t := live[0]
			if r.Intn(2) == 0 {
				t = live[r.Intn(len(live))]
			}
			emit(t.script[0])
			t.script = t.script[1:]
		}
	}
	return c
}

// ---------------------------------------------------------------------------
// executor

type pPlan struct {
	kind pb.Mutation_Op
	val  []byte
}

type perco struct {
	w     *World
	res   *sim.Result
	prop  string
	nkeys int
	m     []*pKey

	tsSeen  map[uint64]bool
	tsList  []uint64
	planned map[uint64]map[int]pPlan
	applied map[string]bool
	// reported suppresses re-reporting an unchanged mismatch at later steps.
	reported map[string]string
	prevBad  map[string]bool

	step                int
	stepKind            string
	dup                 bool
	changed             bool
	rollbackAfterCommit bool
	foreignHit          map[int]bool
	commits, rollbacks  int
	overlapSeen         bool
	tieSeen             map[string]bool
}

func (p *perco) violate(domain, class string, sig map[string]string, format string, a ...any) {
	if domain != p.prop {
		p.res.Probes["x"+domain+":"+class]++
		return
	}
	p.res.Violate(p.step, class, sig, format, a...)
}

func percoValue(start uint64, ki int, code int64, th int64) []byte {
	if th > 4096 {
		th = 64
	}
	var n int64
	switch code % 5 {
	case 0:
		n = 3
	case 1:
		n = th - 1
	case 2:
		n = th
	case 3:
		n = th + 1
	default:
		n = 3 * th
	}
	b := bytes.Repeat([]byte{'.'}, int(n))
	b[0], b[1], b[2] = 'a'+byte((start/5)%26), '0'+byte(ki), ':'
	return b
}

func (p *perco) keyIdx(s string) (int, bool) {
	v, err := strconv.Atoi(strings.TrimSpace(s))
	if err != nil {
		return 0, false
	}
	if v < 0 {
		v = -v
	}
	return v % p.nkeys, true
}

func (p *perco) parseKeys(s string) []int {
	var out []int
	seen := map[int]bool{}
	for _, part := range strings.Split(s, ",") {
		if ki, ok := p.keyIdx(part); ok && !seen[ki] {
			seen[ki] = true
			out = append(out, ki)
		}
	}
	return out
}

type pMut struct {
	ki   int
	kind pb.Mutation_Op
	code int64
}

func (p *perco) parseMuts(s string) []pMut {
	var out []pMut
	seen := map[int]bool{}
	for _, part := range strings.Split(s, ",") {
		kvp := strings.SplitN(part, "=", 2)
		if len(kvp) != 2 || len(kvp[1]) == 0 {
			continue
		}
		ki, ok := p.keyIdx(kvp[0])
		if !ok || seen[ki] {
			continue
		}
		seen[ki] = true
		m := pMut{ki: ki}
		switch kvp[1][0] {
		case 'D':
			m.kind = pb.Mutation_Delete
		case 'L':
			m.kind = pb.Mutation_Lock
		default:
			m.kind = pb.Mutation_Put
			m.code, _ = strconv.ParseInt(kvp[1][1:], 10, 64)
			if m.code < 0 {
				m.code = 0
			}
		}
		out = append(out, m)
	}
	return out
}

func (p *perco) names(keys []int) [][]byte {
	out := make([][]byte, len(keys))
	for i, k := range keys {
		out[i] = []byte(p.m[k].name)
	}
	return out
}

// apply executes one command through the real apply path.
func (p *perco) apply(reqs ...*pb.Request) (resp *pb.RaftCmdResponse, err error) {
	defer func() {
		if r := recover(); r != nil {
			resp, err = nil, fmt.Errorf("panic: %v", r)
		}
		synctest.Wait()
	}()
	return rkv.Apply(p.w.DB, &pb.RaftCmdRequest{Header: &pb.CmdHeader{RegionId: 1}, Requests: reqs})
}

func (p *perco) observeLock(ki int) (*percolator.Lock, error) {
	return percolator.NewReader(p.w.DB).GetLock([]byte(p.m[ki].name))
}

func (p *perco) requestFailed(kind string, err error) {
	if err == nil {
		err = fmt.Errorf("malformed response")
	}
	p.res.Violate(p.step, "request_error", cloneSig(readErrSig(p.w, kind, err), "level_overlap_seen", yesNo(p.overlapSeen)), "%s: Apply returned %v", kind, err)
}

// request interprets one client step; false if op is not a client request.
func (p *perco) request(op sim.Op) bool {
	switch op.K {
	case "prewrite", "commit", "rollback", "resolve", "cts", "get", "scan":
	default:
		return false
	}
	p.stepKind = op.K
	p.dup, p.changed, p.rollbackAfterCommit = false, false, false
	p.foreignHit = map[int]bool{}
	if op.K != "get" && op.K != "scan" {
		id := op.String()
		p.dup = p.applied[id]
		p.applied[id] = true
	}
	switch op.K {
	case "prewrite":
		p.doPrewrite(op)
	case "commit":
		p.doCommit(op)
	case "rollback":
		p.doRollback(op)
	case "resolve":
		p.doResolve(op)
	case "cts":
		p.doCTS(op)
	case "get":
		p.doGet(op)
	case "scan":
		p.doScan(op)
	}
	return true
}

func (p *perco) doPrewrite(op sim.Op) {
	start, ttl, minCommit := uint64(op.A), uint64(op.B), uint64(op.C)
	muts := p.parseMuts(op.S)
	if start == 0 || start == math.MaxUint64 || len(muts) == 0 {
		return
	}
	pri := int(op.D % int64(p.nkeys))
	if pri < 0 {
		pri = -pri
	}
	primary := p.m[pri].name
	p.seeTs(start)
	req := &pb.PrewriteRequest{PrimaryLock: []byte(primary), StartVersion: start, LockTtl: ttl, MinCommitTs: minCommit}
	if p.planned[start] == nil {
		p.planned[start] = map[int]pPlan{}
	}
	for _, mu := range muts {
		m := &pb.Mutation{Op: mu.kind, Key: []byte(p.m[mu.ki].name)}
		if mu.kind == pb.Mutation_Put {
			m.Value = percoValue(start, mu.ki, mu.code, p.w.Opt.ValueThreshold)
		}
		req.Mutations = append(req.Mutations, m)
		p.planned[start][mu.ki] = pPlan{kind: mu.kind, val: m.Value}
	}
	resp, err := p.apply(&pb.Request{CmdType: pb.CmdType_CMD_PREWRITE, Cmd: &pb.Request_Prewrite{Prewrite: req}})
	if err != nil || len(resp.GetResponses()) != 1 {
		p.requestFailed("prewrite", err)
		return
	}
	perKey := map[string]*pb.KeyError{}
	unattributed := 0
	for _, e := range resp.Responses[0].GetPrewrite().GetErrors() {
		switch {
		case e.GetLocked() != nil:
			perKey[string(e.GetLocked().GetKey())] = e
		case e.GetWriteConflict() != nil:
			perKey[string(e.GetWriteConflict().GetKey())] = e
		default:
			unattributed++
		}
	}
	var tr []string
	for _, mu := range muts {
		k := p.m[mu.ki]
		e := perKey[k.name]
		cls := keyErrClass(e)
		tr = append(tr, fmt.Sprintf("%s=%v:%s", k.name, mu.kind, cls))
		newLock := &pLock{start: start, primary: primary, ttl: ttl, minCommit: minCommit, kind: mu.kind, val: req.Mutations[0].Value}
		for _, m := range req.Mutations {
			if string(m.Key) == k.name {
				newLock.val = m.Value
			}
		}
		if unattributed > 0 && cls == "ok" {
			// An error without a key: follow the observed lock, assert nothing.
			p.res.Probes["prewrite_unattributed_error"]++
			if l, err := p.observeLock(mu.ki); err == nil && l != nil && l.Ts == start && k.lock == nil {
				k.lock = newLock
				p.changed = true
			}
			continue
		}
		own := k.rec(start)
		p.res.Checks++
		switch {
		case k.lock != nil && k.lock.start != start:
			if cls == "ok" {
				p.violate("C19", "lock_not_reported", cloneSig(p.keyFacts(mu.ki, kv.CFLock), "via", "prewrite"),
					"prewrite(start=%d) on %q succeeded although the key is locked by %d", start, k.name, k.lock.start)
				k.lock = newLock
				k.defWrites = append(k.defWrites, start)
				p.changed = true
			} else if cls == "locked" && e.GetLocked().GetLockVersion() != k.lock.start {
				p.violate("C19", "lock_error_mismatch", cloneSig(p.keyFacts(mu.ki, kv.CFLock), "via", "prewrite"),
					"prewrite(start=%d) on %q reports lock %d, model holds %s", start, k.name, e.GetLocked().GetLockVersion(), k.lock)
			}
		case k.lock != nil:
			// Repeated prewrite of a key the transaction still holds: nothing changes
			// (in particular a pushed min-commit timestamp stays).
			if cls == "ok" {
				k.defWrites = append(k.defWrites, start)
				if k.lock.kind != newLock.kind || !bytes.Equal(k.lock.val, newLock.val) {
					// not a repetition (only reachable through shrinking/key folding): follow
					k.lock.kind, k.lock.val = newLock.kind, newLock.val
					p.changed = true
				}
			}
		case own != nil:
			if cls == "ok" {
				fin := "committed"
				if own.kind == pb.Mutation_Rollback {
					fin = "rolled_back"
				}
				p.violate("C19", "lock_after_finish", cloneSig(p.keyFacts(mu.ki, kv.CFLock, kv.CFWrite), "finished", fin),
					"prewrite(start=%d) on %q succeeded although the transaction is already %s on that key", start, k.name, fin)
				k.lock = newLock
				k.defWrites = append(k.defWrites, start)
				p.changed = true
			}
		default:
			switch cls {
			case "ok":
				k.lock = newLock
				k.defWrites = append(k.defWrites, start)
				p.changed = true
			case "locked":
				p.violate("C19", "lock_phantom", cloneSig(p.keyFacts(mu.ki, kv.CFLock), "via", "prewrite"),
					"prewrite(start=%d) on %q refused with lock %d, model holds no lock", start, k.name, e.GetLocked().GetLockVersion())
			}
		}
	}
	p.res.Trace.Add("prewrite s=%d pri=%s ttl=%d mc=%d [%s] other=%d", start, primary, ttl, minCommit, strings.Join(tr, " "), unattributed)
}

// classifyCommit says what committing start@commit on key ki means in the model.
func (p *perco) classifyCommit(ki int, start, commit uint64) string {
	k := p.m[ki]
	own := k.rec(start)
	switch {
	case own != nil && own.kind != pb.Mutation_Rollback:
		return "noop"
	case own != nil:
		return "rolled_back"
	case k.lock != nil && k.lock.start == start:
		if commit < k.lock.minCommit {
			return "min_commit"
		}
		return "apply"
	}
	return "no_lock"
}

// watchCommit installs, for the duration of one commit (or resolve-with-commit)
// request, a reader that runs between the individual database writes of the
// request (yield site db.write.acked on the calling goroutine): a key that the
// transaction holds locked must, at every such moment, either still answer
// "locked" or already show the value being committed - never the state before
// the transaction (lock gone, commit record not there yet). Returns the restore func.
func (p *perco) watchCommit(keys []int, start, commit uint64) func() {
	type watched struct {
		ki   int
		lock pLock
	}
	var ws []watched
	for _, ki := range keys {
		if l := p.m[ki].lock; l != nil && l.start == start && l.kind != pb.Mutation_Lock {
			ws = append(ws, watched{ki, *l})
		}
	}
	prev := verifhook.YieldFn
	if len(ws) == 0 || prev == nil {
		return func() {}
	}
	busy, n := false, 0
	verifhook.YieldFn = func(owner any, site string) {
		if site == "db.write.acked" && !busy && n < 12 {
			busy = true
			n++
			for _, wk := range ws {
				k := p.m[wk.ki]
				resp, err := rkv.Apply(p.w.DB, &pb.RaftCmdRequest{Header: &pb.CmdHeader{RegionId: 1}, Requests: []*pb.Request{
					{CmdType: pb.CmdType_CMD_GET, Cmd: &pb.Request_Get{Get: &pb.GetRequest{Key: []byte(k.name), Version: commit}}}}})
				if err != nil || len(resp.GetResponses()) != 1 {
					continue
				}
				got := getView(resp.Responses[0].GetGet())
				p.res.Checks++
				p.res.Probes["read_between_the_writes_of_a_commit"]++
				okNew := (wk.lock.kind == pb.Mutation_Put && got.found && bytes.Equal(got.val, wk.lock.val)) || (wk.lock.kind == pb.Mutation_Delete && !got.found && !got.blocked)
				if got.blocked || okNew {
					continue
				}
				// same facts as for ordinary read mismatches (the known read-path defects
				// - a lower version written later, an ingest-buffer tie - apply here too)
				sig := cloneSig(p.readFacts(wk.ki, start), "saw", map[bool]string{true: "older_value", false: "not_found"}[got.found])
				p.reportOnce("C17", "read_inside_commit", k.name, got.String(), sig,
					"get %q at %d between the database writes of commit(start=%d, commit=%d) returned %s: neither the lock nor the committed value (%s); copies default: %s write: %s lock: %s",
					k.name, commit, start, commit, got, &wk.lock, DescribeCopies(p.w, cfs[0], []byte(k.name)), DescribeCopies(p.w, cfs[2], []byte(k.name)), DescribeCopies(p.w, cfs[1], []byte(k.name)))
			}
			busy = false
		}
		prev(owner, site)
	}
	return func() { verifhook.YieldFn = prev }
}

func (p *perco) doCommit(op sim.Op) {
	start, commit := uint64(op.A), uint64(op.B)
	keys := p.parseKeys(op.S)
	if start == 0 || commit <= start || len(keys) == 0 {
		return
	}
	p.seeTs(start, commit)
	unwatch := p.watchCommit(keys, start, commit)
	resp, err := p.apply(&pb.Request{CmdType: pb.CmdType_CMD_COMMIT, Cmd: &pb.Request_Commit{Commit: &pb.CommitRequest{
		Keys: p.names(keys), StartVersion: start, CommitVersion: commit}}})
	unwatch()
	if err != nil || len(resp.GetResponses()) != 1 {
		p.requestFailed("commit", err)
		return
	}
	cls := keyErrClass(resp.Responses[0].GetCommit().GetError())
	wants := make([]string, len(keys))
	for i, ki := range keys {
		wants[i] = p.classifyCommit(ki, start, commit)
	}
	p.res.Trace.Add("commit s=%d c=%d keys=%s -> %s model=%v", start, commit, op.S, cls, wants)
	for i, ki := range keys {
		k := p.m[ki]
		p.res.Checks++
		if cls == "ok" {
			switch wants[i] {
			case "apply":
				p.commitKey(ki, commit)
			case "rolled_back":
				p.violate("C18", "commit_after_rollback", cloneSig(p.keyFacts(ki), "lock_on_key", lockOwner(k, start)),
					"commit(start=%d, commit=%d) answered OK although %q carries the rollback record of that transaction", start, commit, k.name)
			case "no_lock":
				p.violate("C18", "commit_ok_without_lock", cloneSig(p.keyFacts(ki), "lock_on_key", lockOwner(k, start)),
					"commit(start=%d, commit=%d) answered OK although %q is neither locked nor committed by that transaction", start, commit, k.name)
			case "min_commit":
				p.violate("C19", "commit_below_min_commit", cloneSig(p.keyFacts(ki), "via", "commit"),
					"commit(start=%d, commit=%d) of %q accepted below the lock's min-commit timestamp %d", start, commit, k.name, k.lock.minCommit)
				p.commitKey(ki, commit)
			}
			continue
		}
		// Refused: whether keys handled before the failing one stay committed is not
		// determined by the statements; follow the observed lock.
		if wants[i] == "apply" {
			if l, err := p.observeLock(ki); err == nil && (l == nil || l.Ts != start) {
				p.commitKey(ki, commit)
			}
		}
		if wants[i] == "noop" && cls == "locked" {
			p.res.Probes["commit_resent_answered_locked"]++
		}
	}
}

func lockOwner(k *pKey, start uint64) string {
	switch {
	case k.lock == nil:
		return "none"
	case k.lock.start == start:
		return "own"
	}
	return "other"
}

func (p *perco) doRollback(op sim.Op) {
	start := uint64(op.A)
	keys := p.parseKeys(op.S)
	if start == 0 || len(keys) == 0 {
		return
	}
	p.seeTs(start)
	resp, err := p.apply(&pb.Request{CmdType: pb.CmdType_CMD_BATCH_ROLLBACK, Cmd: &pb.Request_BatchRollback{BatchRollback: &pb.BatchRollbackRequest{
		Keys: p.names(keys), StartVersion: start}}})
	if err != nil || len(resp.GetResponses()) != 1 {
		p.requestFailed("rollback", err)
		return
	}
	cls := keyErrClass(resp.Responses[0].GetBatchRollback().GetError())
	p.res.Trace.Add("rollback s=%d keys=%s -> %s", start, op.S, cls)
	if cls != "ok" {
		p.res.Probes["rollback_error_"+cls]++
		return
	}
	for _, ki := range keys {
		p.rollbackKey(ki, start)
	}
}

func (p *perco) doResolve(op sim.Op) {
	start, commit := uint64(op.A), uint64(op.B)
	keys := p.parseKeys(op.S)
	if start == 0 || (commit != 0 && commit <= start) || len(keys) == 0 {
		return
	}
	p.seeTs(start, commit)
	unwatch := func() {}
	if commit != 0 {
		unwatch = p.watchCommit(keys, start, commit)
	}
	resp, err := p.apply(&pb.Request{CmdType: pb.CmdType_CMD_RESOLVE_LOCK, Cmd: &pb.Request_ResolveLock{ResolveLock: &pb.ResolveLockRequest{
		Keys: p.names(keys), StartVersion: start, CommitVersion: commit}}})
	unwatch()
	if err != nil || len(resp.GetResponses()) != 1 {
		p.requestFailed("resolve", err)
		return
	}
	r := resp.Responses[0].GetResolveLock()
	cls := keyErrClass(r.GetError())
	p.res.Trace.Add("resolve s=%d c=%d keys=%s -> %s n=%d", start, commit, op.S, cls, r.GetResolvedLocks())
	for _, ki := range keys {
		k := p.m[ki]
		if k.lock == nil || k.lock.start != start || k.rec(start) != nil {
			continue
		}
		p.res.Checks++
		if commit == 0 {
			if cls == "ok" {
				p.rollbackKey(ki, start)
			} else if l, err := p.observeLock(ki); err == nil && (l == nil || l.Ts != start) {
				p.rollbackKey(ki, start)
			}
			continue
		}
		below := commit < k.lock.minCommit
		switch {
		case cls == "ok" && below:
			p.violate("C19", "commit_below_min_commit", cloneSig(p.keyFacts(ki), "via", "resolve"),
				"resolve(start=%d, commit=%d) committed %q below the lock's min-commit timestamp %d", start, commit, k.name, k.lock.minCommit)
			p.commitKey(ki, commit)
		case cls == "ok":
			p.commitKey(ki, commit)
		case !below:
			if l, err := p.observeLock(ki); err == nil && (l == nil || l.Ts != start) {
				p.commitKey(ki, commit)
			}
		}
	}
}

func (p *perco) doCTS(op sim.Op) {
	lockTs, cur, caller := uint64(op.A), uint64(op.B), uint64(op.C)
	d := op.D
	if d < 0 {
		d = -d
	}
	ki, rb := int(d/2)%p.nkeys, d%2 == 1
	if lockTs == 0 {
		return
	}
	p.seeTs(lockTs)
	k := p.m[ki]
	resp, err := p.apply(&pb.Request{CmdType: pb.CmdType_CMD_CHECK_TXN_STATUS, Cmd: &pb.Request_CheckTxnStatus{CheckTxnStatus: &pb.CheckTxnStatusRequest{
		PrimaryKey: []byte(k.name), LockTs: lockTs, CurrentTs: cur, CallerStartTs: caller, RollbackIfNotExist: rb}}})
	if err != nil || len(resp.GetResponses()) != 1 {
		p.requestFailed("cts", err)
		return
	}
	r := resp.Responses[0].GetCheckTxnStatus()
	cls, action := keyErrClass(r.GetError()), r.GetAction()
	p.res.Trace.Add("cts key=%s lock_ts=%d cur=%d caller=%d rb=%v -> %s action=%v commit=%d ttl=%d", k.name, lockTs, cur, caller, rb, cls, action, r.GetCommitVersion(), r.GetLockTtl())
	p.res.Checks++
	switch {
	case k.lock != nil && k.lock.start == lockTs:
		l := k.lock
		expired := l.ttl != 0 && cur >= l.start+l.ttl
		if action == pb.CheckTxnStatusAction_CheckTxnStatusTTLExpireRollback {
			if !expired {
				p.violate("C19", "rollback_unexpired", cloneSig(p.keyFacts(ki), "ttl_zero", yesNo(l.ttl == 0)),
					"check-txn-status(current_ts=%d) rolled back %q whose lock %s has not expired", cur, k.name, l)
			} else {
				p.res.Probes["cts_expired_rollback"]++
			}
			p.rollbackKey(ki, lockTs)
		} else if !expired && cls == "ok" && caller > 0 && l.minCommit < caller+1 {
			l.minCommit = caller + 1
			p.changed = true
			p.res.Probes["cts_min_commit_pushed"]++
		}
	case k.lock != nil:
		// another transaction's lock: nothing is determined
	default:
		own := k.rec(lockTs)
		if own == nil && action == pb.CheckTxnStatusAction_CheckTxnStatusLockNotExistRollback {
			p.rollbackKey(ki, lockTs)
		}
		if own != nil && own.kind != pb.Mutation_Rollback && r.GetCommitVersion() != own.commit {
			p.res.Probes["cts_commit_version_differs"]++
		}
	}
}

func yesNo(b bool) string {
	if b {
		return "yes"
	}
	return "no"
}

func tsOf(a int64) uint64 {
	if a < 0 {
		return math.MaxUint64
	}
	return uint64(a)
}

func getView(r *pb.GetResponse) pRead {
	switch {
	case r.GetError() != nil && r.GetError().GetLocked() != nil:
		return pRead{blocked: true, lockTs: r.GetError().GetLocked().GetLockVersion()}
	case r.GetNotFound():
		return pRead{}
	}
	return pRead{found: true, val: r.GetValue()}
}

func (p *perco) doGet(op sim.Op) {
	ts := tsOf(op.A)
	if ts == 0 {
		return
	}
	b := op.B
	if b < 0 {
		b = -b
	}
	ki := int(b) % p.nkeys
	k := p.m[ki]
	resp, err := p.apply(&pb.Request{CmdType: pb.CmdType_CMD_GET, Cmd: &pb.Request_Get{Get: &pb.GetRequest{Key: []byte(k.name), Version: ts}}})
	if err != nil || len(resp.GetResponses()) != 1 {
		p.requestFailed("get", err)
		return
	}
	got, exp := getView(resp.Responses[0].GetGet()), k.readAt(ts)
	p.res.Trace.Add("get %s@%d -> %s", k.name, ts, got)
	p.res.Checks++
	if !exp.same(got) {
		p.readMismatch("get", ki, ts, exp, got, 1)
	}
}

// scanExpect walks the model as a forward scan does.
func (p *perco) scanExpect(ts uint64, startIdx int, include bool, limit int) (kvs []string, errKey string) {
	if limit <= 0 {
		limit = 1
	}
	for ki := 0; ki < p.nkeys && len(kvs) < limit; ki++ {
		if startIdx >= 0 && (ki < startIdx || (ki == startIdx && !include)) {
			continue
		}
		r := p.m[ki].readAt(ts)
		if r.blocked {
			return kvs, p.m[ki].name
		}
		if r.found {
			kvs = append(kvs, p.m[ki].name+"="+string(r.val))
		}
	}
	return kvs, ""
}

func scanResult(r *pb.ScanResponse) (kvs []string, errKey string, malformed string) {
	for _, e := range r.GetKvs() {
		kvs = append(kvs, string(e.GetKey())+"="+string(e.GetValue()))
	}
	if e := r.GetError(); e != nil {
		if e.GetLocked() == nil {
			return kvs, "", "error " + keyErrClass(e)
		}
		errKey = string(e.GetLocked().GetKey())
	}
	return kvs, errKey, ""
}

func (p *perco) doScan(op sim.Op) {
	ts := tsOf(op.A)
	if ts == 0 {
		return
	}
	limit, include := int(op.B), op.C%2 != 0
	d := op.D
	if d < 0 {
		d = -d
	}
	startIdx := int(d)%(p.nkeys+1) - 1
	var startKey []byte
	if startIdx >= 0 {
		startKey = []byte(p.m[startIdx].name)
	}
	resp, err := p.apply(&pb.Request{CmdType: pb.CmdType_CMD_SCAN, Cmd: &pb.Request_Scan{Scan: &pb.ScanRequest{
		StartKey: startKey, Limit: uint32(limit), Version: ts, IncludeStart: include}}})
	if err != nil || len(resp.GetResponses()) != 1 {
		p.requestFailed("scan", err)
		return
	}
	gotKvs, gotErr, bad := scanResult(resp.Responses[0].GetScan())
	expKvs, expErr := p.scanExpect(ts, startIdx, include, limit)
	p.res.Trace.Add("scan from=%q incl=%v limit=%d @%d -> %d kvs err=%q %s", startKey, include, limit, ts, len(gotKvs), gotErr, bad)
	p.res.Checks++
	if bad == "" && gotErr == expErr && strings.Join(gotKvs, "\x00") == strings.Join(expKvs, "\x00") {
		return
	}
	// Attribute to the first key whose view differs.
	view := func(kvs []string, errKey, name string) string {
		if name == errKey {
			return "locked"
		}
		for _, e := range kvs {
			if strings.HasPrefix(e, name+"=") {
				return e
			}
		}
		return "absent"
	}
	ki := 0
	for i := 0; i < p.nkeys; i++ {
		if view(gotKvs, gotErr, p.m[i].name) != view(expKvs, expErr, p.m[i].name) {
			ki = i
			break
		}
	}
	sig := cloneSig(p.readFacts(ki, p.m[ki].readAt(ts).src), "api", "scan_request", "key_has_write_record", yesNo(len(p.m[ki].recs) > 0))
	p.reportOnce("C17", "scan_mismatch", fmt.Sprintf("scanreq|%v|%d|%v|%d", startIdx, limit, include, ts), fmt.Sprint(gotKvs, gotErr), sig,
		"scan(from=%q include=%v limit=%d version=%d) = %q locked-at=%q %s; model: %q locked-at=%q", startKey, include, limit, ts, truncAll(gotKvs), gotErr, bad, truncAll(expKvs), expErr)
}

func truncAll(s []string) []string {
	out := make([]string, len(s))
	for i, x := range s {
		if len(x) > 20 {
			x = x[:20] + "~"
		}
		out[i] = x
	}
	return out
}

// reportOnce reports a mismatch unless the same observation was already
// reported for the same subject at an earlier step.
func (p *perco) reportOnce(domain, class, subject, observed string, sig map[string]string, format string, a ...any) {
	id := class + "|" + subject
	if p.reported[id] == observed {
		return
	}
	p.reported[id] = observed
	p.violate(domain, class, sig, format, a...)
}

func (p *perco) readMismatch(api string, ki int, ts uint64, exp, got pRead, nts int) {
	k := p.m[ki]
	class := readClass(exp, got)
	sig := cloneSig(p.readFacts(ki, exp.src), "api", api, "key_has_write_record", yesNo(len(k.recs) > 0))
	p.reportOnce("C17", class, api+"|"+k.name, fmt.Sprintf("%d:%s", ts, got), sig,
		"%s %q at version %d = %s; model: %s (lock %s; %d probe timestamps differ); copies default: %s write: %s lock: %s",
		api, k.name, ts, got, exp, k.lock, nts, DescribeCopies(p.w, cfs[0], []byte(k.name)), DescribeCopies(p.w, cfs[2], []byte(k.name)), DescribeCopies(p.w, cfs[1], []byte(k.name)))
	if api == "get" && ts == math.MaxUint64 && exp.blocked != got.blocked {
		p.reportOnce("C19", "lock_error_view", k.name, got.String(), cloneSig(sig, "via", "get"),
			"get %q at the maximum version = %s; model lock: %s", k.name, got, k.lock)
	}
}

func lockDiff(exp *pLock, got *percolator.Lock) string {
	switch {
	case exp == nil && got == nil:
		return ""
	case exp == nil || got == nil || exp.start != got.Ts:
		return "owner"
	case exp.minCommit != got.MinCommitTs:
		return "min_commit"
	case exp.ttl != got.TTL:
		return "ttl"
	case exp.primary != string(got.Primary):
		return "primary"
	case exp.kind != got.Kind:
		return "kind"
	}
	return ""
}

func descLock(l *percolator.Lock) string {
	if l == nil {
		return "none"
	}
	return fmt.Sprintf("lock{start=%d primary=%q ttl=%d min_commit=%d kind=%v}", l.Ts, l.Primary, l.TTL, l.MinCommitTs, l.Kind)
}

// probe compares every lock and every read (GET and SCAN at every probe
// timestamp) with the model.
func (p *perco) probe() {
	bad := map[string]bool{}
	newEffect, newKey := "", -1
	noteNew := func(id, effect string, ki int) {
		bad[id] = true
		if !p.prevBad[id] && newKey < 0 {
			newEffect, newKey = effect, ki
		}
	}
	digest := fnv.New64a()

	// 1. locks (C19)
	for ki, k := range p.m {
		got, err := p.observeLock(ki)
		p.res.Checks++
		if err != nil {
			p.reportOnce("C19", "lock_read_error", k.name, err.Error(), readErrSig(p.w, "GetLock", err), "GetLock(%q): %v", k.name, err)
			continue
		}
		fmt.Fprintf(digest, "L%d:%s;", ki, descLock(got))
		diff := lockDiff(k.lock, got)
		if diff == "" {
			continue
		}
		class := "lock_mismatch"
		switch {
		case got == nil:
			class = "lock_lost"
		case k.removed[got.Ts] || k.rec(got.Ts) != nil:
			class = "lock_reappeared"
		case k.lock == nil:
			class = "lock_phantom"
		case diff == "owner":
			class = "lock_replaced"
		}
		sig := cloneSig(p.lockFacts(ki, k.lock, got), "after", p.stepKind, "foreign_rollback", yesNo(p.foreignHit[ki]), "field", diff, "repeated_request", yesNo(p.dup))
		p.violate("C19", class, sig, "after step %d (%s): GetLock(%q) = %s; model: %s; lock-column copies: %s", p.step, p.stepKind, k.name, descLock(got), k.lock, DescribeCopies(p.w, cfs[1], []byte(k.name)))
		noteNew(fmt.Sprintf("lock|%s|%s", k.name, descLock(got)), class+":"+diff, ki)
		// narrow resynchronisation: adopt the observed lock of this key
		if got == nil {
			k.lock = nil
		} else {
			nl := &pLock{start: got.Ts, primary: string(got.Primary), ttl: got.TTL, minCommit: got.MinCommitTs, kind: got.Kind}
			if pl, ok := p.planned[got.Ts][ki]; ok {
				nl.val = pl.val
			}
			k.lock = nl
		}
	}

	// 2. reads (C17)
	type agg struct {
		ts       uint64
		exp, got pRead
		n        int
	}
	mism := map[string]*agg{}
	var order []string
	note := func(api string, ki int, ts uint64, exp, got pRead) {
		id := api + "|" + strconv.Itoa(ki)
		a := mism[id]
		if a == nil {
			a = &agg{ts: ts, exp: exp, got: got}
			mism[id] = a
			order = append(order, id)
		}
		a.n++
		noteNew(fmt.Sprintf("read|%s|%d|%d|%s", api, ki, ts, got), readClass(exp, got), ki)
	}
	for _, ts := range p.probeTs() {
		reqs := make([]*pb.Request, 0, p.nkeys+1)
		for _, k := range p.m {
			reqs = append(reqs, &pb.Request{CmdType: pb.CmdType_CMD_GET, Cmd: &pb.Request_Get{Get: &pb.GetRequest{Key: []byte(k.name), Version: ts}}})
		}
		reqs = append(reqs, &pb.Request{CmdType: pb.CmdType_CMD_SCAN, Cmd: &pb.Request_Scan{Scan: &pb.ScanRequest{Limit: 100, Version: ts}}})
		resp, err := p.apply(reqs...)
		if err != nil || len(resp.GetResponses()) != len(reqs) {
			p.reportOnce("C17", "read_error", "probe", fmt.Sprint(err), cloneSig(readErrSig(p.w, "get/scan", fmt.Errorf("%v", err)), "level_overlap_seen", yesNo(p.overlapSeen)), "GET/SCAN probe at version %d: %v", ts, err)
			continue
		}
		gets := make([]pRead, p.nkeys)
		for ki, k := range p.m {
			got, exp := getView(resp.Responses[ki].GetGet()), k.readAt(ts)
			gets[ki] = got
			p.res.Checks++
			fmt.Fprintf(digest, "G%d@%d:%s;", ki, ts, got)
			if !exp.same(got) {
				note("get", ki, ts, exp, got)
			} else if got.blocked && got.lockTs != exp.lockTs {
				p.reportOnce("C19", "lock_error_mismatch", k.name, got.String(), cloneSig(p.keyFacts(ki, kv.CFLock), "via", "get"), "get %q at %d reports lock %d, model holds %s", k.name, ts, got.lockTs, k.lock)
			}
		}
		// SCAN seen key by key: keys before the lock error are decided, the key
		// of the error is blocked, later keys were not visited.
		sc := resp.Responses[p.nkeys].GetScan()
		kvs, errKey, malformed := scanResult(sc)
		fmt.Fprintf(digest, "S@%d:%q,%s;", ts, kvs, errKey)
		byKey := map[string][]byte{}
		for _, e := range sc.GetKvs() {
			byKey[string(e.GetKey())] = e.GetValue()
		}
		known := len(byKey) == len(sc.GetKvs())
		for name := range byKey {
			ok := false
			for _, k := range p.m {
				ok = ok || k.name == name
			}
			known = known && ok
		}
		if !known || malformed != "" || !sort.SliceIsSorted(sc.GetKvs(), func(i, j int) bool { return bytes.Compare(sc.GetKvs()[i].GetKey(), sc.GetKvs()[j].GetKey()) < 0 }) {
			p.reportOnce("C17", "scan_malformed", "probe", fmt.Sprint(kvs, errKey, malformed), map[string]string{"vlog_gc_ran": yesNo(GCRan(p.w)), "level_overlap_seen": yesNo(p.overlapSeen)}, "scan(version=%d) = %q locked-at=%q %s", ts, truncAll(kvs), errKey, malformed)
			continue
		}
		for ki, k := range p.m {
			var view pRead
			if k.name == errKey {
				view = pRead{blocked: true, lockTs: sc.GetError().GetLocked().GetLockVersion()}
			} else if v, ok := byKey[k.name]; ok {
				view = pRead{found: true, val: v}
			}
			p.res.Checks += 2
			if exp := k.readAt(ts); !exp.same(view) {
				note("scan", ki, ts, exp, view)
			}
			if !gets[ki].same(view) {
				id := "scan_vs_get|" + strconv.Itoa(ki)
				if mism[id] == nil {
					mism[id] = &agg{ts: ts, exp: gets[ki], got: view}
					order = append(order, id)
				}
				mism[id].n++
				noteNew(fmt.Sprintf("svg|%d|%d|%s|%s", ki, ts, gets[ki], view), "scan_get_disagree", ki)
			}
			if k.name == errKey {
				break
			}
		}
	}
	for _, id := range order {
		a := mism[id]
		parts := strings.SplitN(id, "|", 2)
		ki, _ := strconv.Atoi(parts[1])
		if parts[0] == "scan_vs_get" {
			k := p.m[ki]
			sig := cloneSig(p.readFacts(ki, k.readAt(a.ts).src), "key_has_write_record", yesNo(len(k.recs) > 0), "get", viewKind(a.exp), "scan", viewKind(a.got))
			p.reportOnce("C17", "scan_get_disagree", k.name, fmt.Sprintf("%d:%s/%s", a.ts, a.exp, a.got), sig,
				"at version %d GET %q = %s but SCAN shows %s (%d probe timestamps differ); model: %s, lock %s", a.ts, k.name, a.exp, a.got, a.n, k.readAt(a.ts), k.lock)
			continue
		}
		p.readMismatch(parts[0], ki, a.ts, a.exp, a.got, a.n)
	}

	// 3. C18: a request that must change nothing changed something observable.
	if p.stepKind != "" && !strings.HasPrefix(p.stepKind, "maint") && !p.changed && (p.dup || p.rollbackAfterCommit) {
		p.res.Checks++
		if newKey >= 0 {
			why := "repeated_request"
			if !p.dup {
				why = "rollback_after_commit"
			}
			sig := cloneSig(p.keyFacts(newKey, kv.CFLock, kv.CFDefault, kv.CFWrite), "request", p.stepKind, "why", why, "effect", newEffect)
			p.violate("C18", "noop_changed_state", sig, "step %d: %s (%s) must change nothing, but afterwards key %q shows %s", p.step, p.stepKind, why, p.m[newKey].name, newEffect)
		} else {
			p.res.Probes["noop_request_checked"]++
		}
	}
	p.prevBad = bad
	p.res.Trace.Add("probe step=%d ts=%d digest=%x", p.step, len(p.tsList), digest.Sum64())
}

func viewKind(r pRead) string {
	switch {
	case r.blocked:
		return "locked"
	case r.found:
		return "value"
	}
	return "not_found"
}

func execPerco(t *testing.T, c *sim.Case) *sim.Result {
	res := sim.NewResult()
	synctest.Test(t, func(t *testing.T) {
		w := NewWorld(t, c, res)
		defer w.Cleanup()
		if err := w.Open(w.Dir); err != nil {
			res.Violate(0, "open_failed", nil, "%v", err)
			return
		}
		nkeys := int(c.CfgInt("keys", 3))
		if nkeys < 1 {
			nkeys = 1
		}
		if nkeys > len(percoKeys) {
			nkeys = len(percoKeys)
		}
		p := &perco{w: w, res: res, prop: fmt.Sprintf("C%d", c.CfgInt("prop", 17)), nkeys: nkeys,
			tsSeen: map[uint64]bool{}, planned: map[uint64]map[int]pPlan{}, applied: map[string]bool{},
			reported: map[string]string{}, prevBad: map[string]bool{}, foreignHit: map[int]bool{}, tieSeen: map[string]bool{}}
		if c.Property != "" {
			p.prop = c.Property
		}
		for i := 0; i < nkeys; i++ {
			p.m = append(p.m, &pKey{name: percoKeys[i], removed: map[uint64]bool{}})
		}
		gc := c.CfgInt("gc", 0) == 1
		for i, op := range c.Ops {
			w.step, p.step = i, i
			sim.Beat()
			res.Steps++
			if !p.request(op) {
				if (op.K == "gc" || op.K == "rungc") && !gc {
					continue
				}
				p.stepKind = "maint:" + op.K
				p.dup, p.changed, p.rollbackAfterCommit = false, false, false
				p.foreignHit = map[int]bool{}
				if !w.Maint(op) {
					continue
				}
				res.Trace.Add("maint %s", op.String())
			}
			if w.DB == nil {
				return
			}
			p.noteOverlap()
			p.noteTies()
			p.probe()
			if dk := os.Getenv("VERIF_COPIES"); dk != "" {
				fmt.Fprintf(os.Stderr, "step %d %s: default %s | write %s | lock %s\n", i, op.String(), DescribeCopies(w, cfs[0], []byte(dk)), DescribeCopies(w, cfs[2], []byte(dk)), DescribeCopies(w, cfs[1], []byte(dk)))
			}
		}
		res.Nontrivial = p.commits > 0 && (res.Faults["flush"] > 0 || res.Faults["clean_reopen"] > 0)
		if p.commits > 0 {
			res.Probes["runs_with_commit"]++
		}
		if p.rollbacks > 0 {
			res.Probes["runs_with_rollback"]++
		}
	})
	return res
}
