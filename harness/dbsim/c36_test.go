package dbsim

import (
	"bytes"
	"fmt"
	"os"
	"path/filepath"
	"sort"
	"testing"
	"testing/synctest"

	"github.com/feichai0017/NoKV/kv"
	myraft "github.com/feichai0017/NoKV/raft"
	"github.com/feichai0017/NoKV/raftstore/engine"

	"verif/sim"
)

func init() {
	props["C36"] = sim.PropSpec{Gen: genC36, Exec: execC36}
}

// C36: a database whose WAL also carries one or two raft groups
// (engine.OpenWALStorage on db.WAL()/db.Manifest(), exactly what a store does).
// Steps: transactional DB writes that rotate and flush memtables, raft
// Append/SetHardState/MaybeCompact, WAL watchdog passes (auto-GC on), flushes,
// compactions; at generated points the WAL is synced and a process-crash image
// of the directory is cut (or the database is cleanly reopened). After reopen
// every acknowledged DB write must be readable and every raft entry above the
// group's truncation point must be returned by the reopened storage.
func genC36(r *sim.Rand, tier string) *sim.Case {
	c := &sim.Case{Cfg: GenCfg(r)}
	c.Cfg["keys"] = 3
	c.Cfg["memtable_size"] = r.Pick64(512, 1024, 2048)
	c.Cfg["value_threshold"] = 1 << 20
	c.Cfg["wal_watchdog"] = 1
	c.Cfg["groups"] = int64(r.Pick(1, 2))
	c.Cfg["api"] = 2
	n := 10 + r.Intn(25)
	for i := 0; i < n; i++ {
		switch x := r.Intn(100); {
		case x < 25:
			c.Ops = append(c.Ops, sim.Op{K: "txn", A: int64(1 + r.Intn(7)), B: int64(r.Intn(8)), C: int64(r.Pick(1, 4, 5))})
		case x < 45:
			c.Ops = append(c.Ops, sim.Op{K: "rappend", A: int64(r.Intn(2)), B: int64(1 + r.Intn(3)), C: int64(r.Intn(10))})
		case x < 52:
			c.Ops = append(c.Ops, sim.Op{K: "rhs", A: int64(r.Intn(2))})
		case x < 62:
			c.Ops = append(c.Ops, sim.Op{K: "rcompact", A: int64(r.Intn(2)), B: int64(r.Pick(1, 2, 4, 8))})
		case x < 72:
			c.Ops = append(c.Ops, sim.Op{K: "watchdog"})
		case x < 80:
			c.Ops = append(c.Ops, sim.Op{K: "rotate"})
		case x < 88:
			c.Ops = append(c.Ops, sim.Op{K: r.PickS("flush", "flush", "flushall")})
		case x < 92:
			c.Ops = append(c.Ops, sim.Op{K: "compact", A: int64(r.Pick(0, 0, 6)), B: int64(r.Intn(3)), C: int64(r.Intn(3)), D: int64(r.Intn(2))})
		case x < 96:
			c.Ops = append(c.Ops, sim.Op{K: "crash"})
		default:
			c.Ops = append(c.Ops, sim.Op{K: "reopen"})
		}
	}
	c.Ops = append(c.Ops, sim.Op{K: "crash"})
	return c
}

type c36Image struct {
	dir             string
	step            int
	nbatches        int
	groups          []*raftModel
	watchdogRemoved int
}

type raftModel struct {
	id        uint64
	ws        *engine.WALStorage
	entries   []myraft.Entry // the log the peer believes it persisted (index ascending)
	truncated uint64         // highest index compacted away
	term      uint64
	hs        myraft.HardState
	seg       map[uint64]string // entry index -> WAL segment file its (latest) record was appended to
}

func (g *raftModel) last() uint64 {
	if len(g.entries) == 0 {
		return g.truncated
	}
	return g.entries[len(g.entries)-1].Index
}

func execC36(t *testing.T, c *sim.Case) *sim.Result {
	res := sim.NewResult()
	synctest.Test(t, func(t *testing.T) {
		w := NewWorld(t, c, res)
		defer w.Cleanup()
		if err := w.Open(w.Dir); err != nil {
			res.Violate(0, "open_failed", nil, "%v", err)
			return
		}
		nkeys := int(c.CfgInt("keys", 3))
		ngroups := int(c.CfgInt("groups", 1))
		var batches [][]batchWrite
		groups := make([]*raftModel, ngroups)
		openGroups := func(iw *World, gs []*raftModel) error {
			for i := range gs {
				ws, err := openWALStorageSafe(engine.WALStorageConfig{GroupID: uint64(i + 1), WAL: iw.DB.WAL(), Manifest: iw.DB.Manifest()})
				if err != nil {
					return fmt.Errorf("group %d: %w", i+1, err)
				}
				if gs[i] == nil {
					gs[i] = &raftModel{id: uint64(i + 1), term: 1}
				}
				gs[i].ws = ws
			}
			return nil
		}
		if err := openGroups(w, groups); err != nil {
			res.Violate(0, "open_failed", nil, "%v", err)
			return
		}
		imgN := 0
		// WAL segments that received LSM writes (a segment without any is flushed
		// as an empty memtable and removed without a retention check - known finding)
		lsmSegs := map[string]bool{}
		var images []c36Image
		defer func() {
			for _, im := range images {
				_ = os.RemoveAll(im.dir)
			}
		}()
		for i, op := range c.Ops {
			w.step = i
			sim.Beat()
			res.Steps++
			switch op.K {
			case "txn":
				writes, exps, err := TxnOp(w, op, nkeys, i)
				synctest.Wait()
				res.Trace.Add("txn set=%b del=%b err=%v", op.A, op.B, err)
				if err == nil && len(writes) > 0 {
					var bw []batchWrite
					for ki := 0; ki < nkeys; ki++ {
						if v, ok := writes[ki]; ok {
							bw = append(bw, batchWrite{key: keyNames[ki], val: v, del: v == nil, exp: exps[ki]})
						}
					}
					batches = append(batches, bw)
				}
				if err == nil {
					lsmSegs[fmt.Sprintf("%05d.wal", w.DB.WAL().ActiveSegment())] = true
				}
			case "rappend":
				g := groups[int(op.A)%ngroups]
				next := g.last() + 1
				// sometimes a new leader overwrites the uncommitted tail
				if op.C == 0 && len(g.entries) > 1 && g.entries[len(g.entries)-1].Index > g.hs.Commit {
					next = g.entries[len(g.entries)-1].Index
					g.term++
				}
				var ents []myraft.Entry
				for k := 0; k < int(op.B); k++ {
					ents = append(ents, myraft.Entry{Index: next + uint64(k), Term: g.term, Data: []byte(fmt.Sprintf("g%d-i%d-t%d-s%d", g.id, next+uint64(k), g.term, i))})
				}
				err := g.ws.Append(ents)
				res.Trace.Add("raft g%d append [%d..%d] term %d err=%v", g.id, ents[0].Index, ents[len(ents)-1].Index, g.term, err)
				if err == nil {
					// later conflicting appends win
					keep := g.entries[:0:0]
					for _, e := range g.entries {
						if e.Index < ents[0].Index {
							keep = append(keep, e)
						}
					}
					g.entries = append(keep, ents...)
					res.Faults["raft_append"]++
					if g.seg == nil {
						g.seg = map[uint64]string{}
					}
					for _, e := range ents {
						g.seg[e.Index] = fmt.Sprintf("%05d.wal", w.DB.WAL().ActiveSegment())
					}
				}
			case "rhs":
				g := groups[int(op.A)%ngroups]
				hs := myraft.HardState{Term: g.term, Vote: 1, Commit: g.last()}
				if hs.Commit < g.hs.Commit {
					hs.Commit = g.hs.Commit
				}
				if err := g.ws.SetHardState(hs); err == nil {
					g.hs = hs
				}
				res.Trace.Add("raft g%d hardstate term=%d commit=%d", g.id, hs.Term, hs.Commit)
			case "rcompact":
				g := groups[int(op.A)%ngroups]
				applied := g.hs.Commit
				retain := uint64(op.B)
				err := g.ws.MaybeCompact(applied, retain)
				res.Trace.Add("raft g%d compact applied=%d retain=%d err=%v", g.id, applied, retain, err)
				if err == nil && applied > retain && applied-retain > g.truncated {
					g.truncated = applied - retain
					keep := g.entries[:0:0]
					for _, e := range g.entries {
						if e.Index > g.truncated {
							keep = append(keep, e)
						}
					}
					g.entries = keep
					res.Faults["raft_truncate"]++
				}
			case "watchdog":
				before := walSegments(w.Dir)
				w.DB.VerifWatchdogOnce()
				synctest.Wait()
				after := walSegments(w.Dir)
				if len(after) < len(before) {
					res.Faults["watchdog_removed_segment"] += len(before) - len(after)
				}
				// Invariant at the moment of removal: the watchdog never deletes a segment
				// that holds a raft entry above the group's truncation index.
				still := map[string]bool{}
				for _, sname := range walSegments(w.Dir) {
					still[sname] = true
				}
				for _, sname := range after {
					still[sname] = true
				}
				removedNow := map[string]bool{}
				for _, sname := range before {
					if !still[sname] {
						removedNow[sname] = true
					}
				}
				for _, g := range groups {
					for _, e := range g.entries {
						if sname := g.seg[e.Index]; removedNow[sname] && e.Index > g.truncated {
							res.Violate(i, "watchdog_removed_needed_segment", map[string]string{"truncation_recorded": yn(g.truncated > 0)},
								"watchdog pass removed %s, which holds entry %d of group %d (truncated through %d, log [%d..%d]); segments %v -> %v",
								sname, e.Index, g.id, g.truncated, g.entries[0].Index, g.last(), before, after)
							delete(g.seg, e.Index) // reported once
							break
						}
					}
				}
				res.Trace.Add("watchdog %v -> %v", before, after)
			case "crash", "reopen":
				if err := w.DB.WAL().Sync(); err != nil {
					res.Probes["wal_sync_error"]++
				}
				if op.K == "crash" {
					// Images are only cut here; they are opened after the main instance
					// has been closed (one world at a time owns the simulation hooks).
					imgN++
					dir := filepath.Join(sim.Scratch(), fmt.Sprintf("c36img%d-%d", worldSeq, imgN))
					if err := sim.CopyTree(w.Dir, dir); err != nil {
						continue
					}
					res.Faults["crash_image"]++
					snap := make([]*raftModel, len(groups))
					for gi, g := range groups {
						cp := *g
						cp.ws = nil
						cp.entries = append([]myraft.Entry(nil), g.entries...)
						snap[gi] = &cp
					}
					images = append(images, c36Image{dir: dir, step: i, nbatches: len(batches), groups: snap, watchdogRemoved: res.Faults["watchdog_removed_segment"]})
					continue
				}
				if err := w.Close(); err != nil {
					res.Violate(i, "close_error", nil, "%v", err)
				}
				res.Faults["clean_reopen"]++
				nv := len(res.Violations)
				if !checkC36(w, batches, groups, fmt.Sprintf("clean reopen at step %d", i), false) {
					return
				}
				if len(res.Violations) > nv {
					// The models no longer describe this database; a run ends at its first damaged reopen.
					return
				}
				if err := openGroups(w, groups); err != nil {
					res.Violate(i, "raft_reopen_failed", map[string]string{"image": "no"}, "%v", err)
					return
				}
			default:
				before := walSegments(w.Dir)
				if w.Maint(op) {
					res.Trace.Add("maint %s", op.String())
				}
				// the same invariant for segments removed by flush / rotation / close+open
				still := map[string]bool{}
				for _, sname := range walSegments(w.Dir) {
					still[sname] = true
				}
				for _, g := range groups {
					for _, e := range g.entries {
						sname := g.seg[e.Index]
						if sname == "" || still[sname] || e.Index <= g.truncated {
							continue
						}
						was := false
						for _, b := range before {
							was = was || b == sname
						}
						if !was {
							continue
						}
						res.Violate(i, "maintenance_removed_needed_segment", map[string]string{"op": op.K, "truncation_recorded": yn(g.truncated > 0), "segment_had_lsm_writes": yn(lsmSegs[sname])},
							"%s removed %s, which holds entry %d of group %d (truncated through %d, log [%d..%d]); segments %v -> %v",
							op.String(), sname, e.Index, g.id, g.truncated, g.entries[0].Index, g.last(), before, walSegments(w.Dir))
						delete(g.seg, e.Index)
						break
					}
				}
			}
			if w.DB == nil {
				return
			}
			// Two installed tables with one file id (a retained WAL segment replayed and
			// flushed again, known finding): from here on either table's file can be
			// truncated or unlinked under the other's mapping and the process dies with
			// SIGBUS at an arbitrary later read. Report it where it arises and end the run.
			seen := map[uint64]bool{}
			for _, tb := range w.DB.VerifLSM().VerifTables() {
				if seen[tb.FileID] {
					res.Violate(i, "duplicate_table_id", map[string]string{"after": op.K}, "after %s two installed tables carry file id %d: %s", op.String(), tb.FileID, DescribeTables(w))
					w.Sched.Passthrough()
					return
				}
				seen[tb.FileID] = true
			}
		}
		res.Nontrivial = res.Faults["crash_image"] > 0 && res.Faults["raft_append"] > 0 && len(batches) > 0
		_ = w.Close()
		for _, im := range images {
			sim.Beat()
			iw := &World{T: t, C: c, Res: res, Dir: im.dir, FS: sim.NewSimFS(im.dir)}
			iw.step = im.step
			saved := res.Faults["watchdog_removed_segment"]
			res.Faults["watchdog_removed_segment"] = im.watchdogRemoved
			checkC36(iw, batches[:im.nbatches], im.groups, fmt.Sprintf("crash image at step %d", im.step), true)
			res.Faults["watchdog_removed_segment"] = saved
		}
	})
	return res
}

func walSegments(dir string) []string {
	m, _ := filepath.Glob(filepath.Join(dir, "*.wal"))
	out := make([]string, 0, len(m))
	for _, p := range m {
		out = append(out, filepath.Base(p))
	}
	sort.Strings(out)
	return out
}

// checkC36 opens the directory of iw and compares DB contents and raft logs
// with the models; for images the instance is closed again. Returns false when
// the (clean-reopen) world could not be opened.
func checkC36(iw *World, batches [][]batchWrite, groups []*raftModel, where string, image bool) bool {
	res := iw.Res
	if err := iw.Open(iw.Dir); err != nil {
		res.Violate(iw.step, "reopen_failed", map[string]string{"image": yn(image)}, "%s: %v", where, err)
		return false
	}
	if image {
		defer func() { _ = iw.Close() }()
	}
	res.Faults["reopened"]++
	// (1) every acknowledged DB write is readable
	rec := recoveredSeqs(Dump(iw))
	mod := modelSeqs(batches, len(batches), false)
	keys := make([]string, 0, len(mod))
	for k := range mod {
		keys = append(keys, k)
	}
	sort.Strings(keys)
	for _, k := range keys {
		ms, rs := mod[k], rec[k]
		res.Checks++
		bad := len(rs) < len(ms)
		for i := 0; !bad && i < len(ms); i++ {
			if !recMatches(rs[i], ms[i]) {
				bad = true
			}
		}
		if bad {
			// Are the acknowledged versions stored but shadowed? A WAL segment retained
			// for raft is replayed into a memtable on reopen although its entries were
			// flushed long ago; the old versions then sit in the first container the
			// read path consults (known first-hit defect, see C02).
			versions := map[uint64]bool{}
			var cf kv.ColumnFamily = kv.CFDefault
			for _, cp := range iw.DB.VerifLocate(cf, []byte(k[2:])) {
				versions[cp.Version] = true
			}
			if len(versions) >= len(ms) {
				res.Violate(iw.step, "db_write_shadowed_after_segment_replay", map[string]string{"image": yn(image)},
					"%s: key %s: recovered %s, acknowledged %s (all %d versions are stored: %s); wal segments %v", where, k, descRec(rs), descMod(ms), len(versions), DescribeCopies(iw, cf, []byte(k[2:])), walSegments(iw.Dir))
				continue
			}
			res.Violate(iw.step, "db_write_lost_with_wal_segment", map[string]string{"image": yn(image), "watchdog_removed": yn(res.Faults["watchdog_removed_segment"] > 0)},
				"%s: key %s: recovered %s, acknowledged %s; wal segments %v", where, k, descRec(rs), descMod(ms), walSegments(iw.Dir))
		}
	}
	// (2) every raft entry above the truncation point is returned
	for _, g := range groups {
		ws, err := openWALStorageSafe(engine.WALStorageConfig{GroupID: g.id, WAL: iw.DB.WAL(), Manifest: iw.DB.Manifest()})
		res.Checks++
		sig := map[string]string{"image": yn(image), "watchdog_removed": yn(res.Faults["watchdog_removed_segment"] > 0), "truncated": yn(g.truncated > 0)}
		if err != nil {
			res.Violate(iw.step, "raft_reopen_failed", sig, "%s: group %d: %v; wal segments %v", where, g.id, err, walSegments(iw.Dir))
			continue
		}
		if len(g.entries) == 0 {
			continue
		}
		lo, hi := g.entries[0].Index, g.entries[len(g.entries)-1].Index
		first, _ := ws.FirstIndex()
		last, _ := ws.LastIndex()
		if first > lo || last < hi {
			res.Violate(iw.step, "raft_entries_lost", sig, "%s: group %d: storage has [%d,%d], peer persisted [%d,%d] (truncated through %d); wal segments %v", where, g.id, first, last, lo, hi, g.truncated, walSegments(iw.Dir))
			continue
		}
		got, err := ws.Entries(lo, hi+1, 1<<30)
		if err != nil {
			res.Violate(iw.step, "raft_entries_lost", sig, "%s: group %d: Entries(%d,%d): %v", where, g.id, lo, hi+1, err)
			continue
		}
		for i, e := range g.entries {
			if i >= len(got) || got[i].Index != e.Index || got[i].Term != e.Term || !bytes.Equal(got[i].Data, e.Data) {
				res.Violate(iw.step, "raft_entry_differs", sig, "%s: group %d index %d: recovered %v, persisted term %d %q", where, g.id, e.Index, descEntry(got, i), e.Term, e.Data)
				break
			}
		}
	}
	return true
}

func descEntry(es []myraft.Entry, i int) string {
	if i >= len(es) {
		return "<missing>"
	}
	return fmt.Sprintf("{index %d term %d %q}", es[i].Index, es[i].Term, es[i].Data)
}

// openWALStorageSafe turns a panic of the replay (etcd's MemoryStorage panics on
// a log with a hole) into an error.
func openWALStorageSafe(cfg engine.WALStorageConfig) (ws *engine.WALStorage, err error) {
	defer func() {
		if r := recover(); r != nil {
			ws, err = nil, fmt.Errorf("OpenWALStorage panicked: %v", r)
		}
	}()
	return engine.OpenWALStorage(cfg)
}
