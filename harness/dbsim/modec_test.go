package dbsim

import (
	"errors"
	"fmt"
	"os"
	"strings"
	"testing/synctest"
	"time"

	NoKV "github.com/feichai0017/NoKV"
	"github.com/feichai0017/NoKV/utils"
	"github.com/feichai0017/NoKV/verifhook"

	"verif/sim"
)

// Mode C: 2-4 client tasks and every engine worker are tasks of the seeded
// scheduler; they park at the verifhook yield sites in the oracle, the
// watermarks, the commit pipeline and at harness-level call boundaries. The
// root goroutine releases exactly one task at a time.

// call is one API call of a client task, stamped with scheduler-ordered
// sequence numbers (never with time).
type call struct {
	task     int
	txn      int    // transaction ordinal within the run (-1 for plain ops)
	kind     string // begin, get, iter, set, del, commit, discard, pset, pdel, pget, close
	key      int
	val      string // written or returned value ("" = none / not found)
	found    bool
	err      string
	invoke   int
	ret      int
	readTs   uint64
	commitTs uint64
	rw       bool
	rows     []string // iterator output key=value
	// readMarkAtBegin is the oracle's read watermark observed right after the
	// transaction began (diagnostics for missed conflicts).
	readMarkAtBegin uint64
}

type modeC struct {
	w       *World
	res     *sim.Result
	seq     int
	calls   []*call
	tasks   []*sim.Task
	nkeys   int
	lastCTs map[int]uint64 // task id -> commit ts from the txn.committs event
	closed  bool
	bgSeq   int
	bgTasks []*sim.Task
	// ioFailed: the injected disk error has fired in this run.
	ioFailed bool
}

func (m *modeC) next() int { m.seq++; return m.seq }

// yield is the harness-level scheduling point between API calls of a task.
func (m *modeC) yield(site string) { m.w.Sched.Yield(nil, site) }

func newModeC(w *World, res *sim.Result, nkeys int) *modeC {
	m := &modeC{w: w, res: res, nkeys: nkeys, lastCTs: map[int]uint64{}}
	return m
}

// openC opens the world's DB in mode C with the given ignored site prefixes.
func (m *modeC) open(ignorePrefixes ...string) error {
	w := m.w
	w.ModeC = true
	if err := w.Open(w.Dir); err != nil {
		return err
	}
	w.Sched.Trace = m.res.Trace
	w.DB.VerifSetWatermarkWindow(int(w.C.CfgInt("wm_window", 0)))
	w.Sched.Ignore = func(site string) bool {
		for _, p := range ignorePrefixes {
			if strings.HasPrefix(site, p) {
				return true
			}
		}
		return false
	}
	if hs := w.C.CfgInt("hold_site", 0); hs > 0 {
		w.Sched.HoldTask, w.Sched.HoldNth, w.Sched.HoldFirst = "client0", int(w.C.CfgInt("hold_nth", 1)), true
		if hs == 1 {
			w.Sched.HoldSite = "orc.readts.waited"
		}
	}
	if d := int(w.C.CfgInt("pct_depth", 0)); d > 0 {
		w.Sched.UsePCT(d, int(w.C.CfgInt("pct_horizon", 300)))
		if odds := int(w.C.CfgInt("pause_odds", 0)); odds > 0 {
			w.Sched.PauseOdds = odds
			w.Sched.PauseBudget = int(w.C.CfgInt("pause_budget", 0))
			w.Sched.PauseAt = map[string]bool{}
			for _, site := range []string{"wm.begin.published", "wm.add.added", "orc.readts.waited", "commit.batch.formed", "commit.vlog.written", "commit.applied",
				"txn.commit.written", "orc.donecommit", "db.write.enqueued", "db.write.acked", "client.begin", "client.step", "lock.pre"} {
				w.Sched.PauseAt[site] = true
			}
			if only := os.Getenv("VERIF_PAUSE_ONLY"); only != "" {
				w.Sched.PauseAt = map[string]bool{only: true}
				w.Sched.PauseOdds = 2
			}
		}
	}
	verifhook.EventFn = func(owner any, site string, a, b int64) {
		if site == "txn.committs" {
			if t := w.Sched.Current(); t != nil {
				m.lastCTs[t.ID] = uint64(a)
			}
		}
	}
	return nil
}

// run drives the scheduler until every client task is done; returns false when
// the run ended with clients still blocked (deadlock / no progress).
func (m *modeC) run(maxSteps int) bool {
	idle := 0
	for steps := 0; steps < maxSteps; steps++ {
		sim.Beat()
		if m.w.Sched.AllDone(m.tasks) {
			return true
		}
		if !m.w.Sched.StepAny() {
			// Nothing is parked: tasks wait for the SUT or for a timer. Let fake time pass.
			time.Sleep(time.Millisecond)
			synctest.Wait()
			m.res.SimTime += time.Millisecond
			idle++
			if idle > 3000 {
				return false
			}
			continue
		}
		idle = 0
	}
	return m.w.Sched.AllDone(m.tasks)
}

// drain lets engine workers finish whatever is pending (fair, bounded).
func (m *modeC) drain() {
	for i := 0; i < 2000 && m.w.Sched.StepAny(); i++ {
	}
}

func errStr(err error) string {
	if err == nil {
		return ""
	}
	switch {
	case errors.Is(err, utils.ErrConflict):
		return "conflict"
	case errors.Is(err, utils.ErrTxnTooBig):
		return "toobig"
	case errors.Is(err, utils.ErrBlockedWrites):
		return "blocked"
	case errors.Is(err, utils.ErrKeyNotFound):
		return "notfound"
	case errors.Is(err, utils.ErrDBClosed):
		return "closed"
	case errors.Is(err, utils.ErrHotKeyWriteThrottle):
		return "throttled"
	}
	return "other:" + scrub(err.Error())
}

// txnScript is one generated transaction of a client task.
type txnScript struct {
	update bool
	// steps: each is (kind, key): g=get, s=set, d=delete, i=iterate, y=extra yield
	steps   []sim.Op
	discard bool
}

// runTxn executes one transaction script on the calling task, recording calls.
func (m *modeC) runTxn(task, ord int, sc txnScript, step int) {
	begin := &call{task: task, txn: ord, kind: "begin", rw: sc.update, invoke: m.next()}
	m.calls = append(m.calls, begin)
	txn := m.w.DB.NewTransaction(sc.update)
	begin.readTs = txn.ReadTs()
	begin.readMarkAtBegin = m.w.DB.VerifReadMarkDoneUntil()
	begin.ret = m.next()
	m.res.Trace.Add("t%d txn%d begin rw=%v readTs=%d", task, ord, sc.update, begin.readTs)
	m.yield("client.begin")
	for si, st := range sc.steps {
		ki := int(st.A) % m.nkeys
		key := []byte(keyNames[ki])
		c := &call{task: task, txn: ord, key: ki, readTs: begin.readTs, rw: sc.update, invoke: m.next()}
		switch st.K {
		case "g":
			c.kind = "get"
			item, err := txn.Get(key)
			if err == nil {
				v, verr := item.ValueCopy(nil)
				if verr != nil {
					c.err = "other:" + scrub(verr.Error())
				}
				c.val, c.found = string(v), true
			} else {
				c.err = errStr(err)
			}
		case "s":
			if !sc.update {
				continue
			}
			c.kind = "set"
			c.val = fmt.Sprintf("w%d.%d.%d:%s", step, ord, si, strings.Repeat(".", int(st.B)%40))
			c.err = errStr(txn.Set(key, []byte(c.val)))
		case "d":
			if !sc.update {
				continue
			}
			c.kind = "del"
			c.err = errStr(txn.Delete(key))
		case "i":
			c.kind = "iter"
			it := txn.NewIterator(NoKV.IteratorOptions{})
			for it.Rewind(); it.Valid(); it.Next() {
				e := it.Item().Entry()
				v, _ := it.Item().ValueCopy(nil)
				c.rows = append(c.rows, string(e.Key)+"="+string(v))
			}
			it.Close()
		default:
			m.yield("client.pause")
			continue
		}
		c.ret = m.next()
		m.calls = append(m.calls, c)
		m.res.Trace.Add("t%d txn%d %s k%d -> %q found=%v err=%s rows=%d", task, ord, c.kind, ki, trunc([]byte(c.val)), c.found, c.err, len(c.rows))
		m.yield("client.step")
	}
	end := &call{task: task, txn: ord, readTs: begin.readTs, rw: sc.update, invoke: m.next()}
	if sc.discard || !sc.update {
		end.kind = "discard"
		txn.Discard()
	} else {
		end.kind = "commit"
		delete(m.lastCTs, m.w.Sched.Current().ID)
		err := txn.Commit()
		end.err = errStr(err)
		if err == nil {
			end.commitTs = m.lastCTs[m.w.Sched.Current().ID]
		}
	}
	end.ret = m.next()
	m.calls = append(m.calls, end)
	m.res.Trace.Add("t%d txn%d %s err=%s commitTs=%d", task, ord, end.kind, end.err, end.commitTs)
	m.yield("client.end")
}
