package dbsim

import (
	"bytes"
	"testing"

	"github.com/feichai0017/NoKV/kv"
	"github.com/feichai0017/NoKV/utils"

	"verif/sim"
)

func init() {
	props["C08"] = sim.PropSpec{Gen: genC08, Exec: execC08}
}

// genC08: the C01 (plain) and C02 (versioned, strictly increasing versions)
// workloads under a value-log heavy configuration: values around the threshold,
// 1-4 buckets, tiny value-log files (rotation inside a batch), GC passes of
// every kind between and after the writes.
func genC08(r *sim.Rand, tier string) *sim.Case {
	var c *sim.Case
	api := r.Intn(2)
	if api == 0 {
		c = genC01(r, tier)
	} else {
		forceOrder = 0
		c = genC02(r, tier)
		forceOrder = -1
	}
	c.Cfg["api"] = int64(api)
	c.Cfg["value_threshold"] = r.Pick64(32, 64)
	c.Cfg["vlog_file_size"] = r.Pick64(256, 512, 1024)
	c.Cfg["vlog_buckets"] = r.Pick64(1, 1, 2, 4)
	// most values go out of line so that value-log files fill, rotate and become GC candidates
	for i := range c.Ops {
		if (c.Ops[i].K == "set" || c.Ops[i].K == "vset") && r.Intn(10) < 7 {
			c.Ops[i].C = int64(3 + r.Intn(3))
		}
	}
	// densify GC: replace some maintenance steps by GC steps and append a GC tail
	for i := range c.Ops {
		switch c.Ops[i].K {
		case "advance", "compactonce", "watchdog":
			if r.Intn(2) == 0 {
				c.Ops[i] = sim.Op{K: "gc", A: int64(r.Intn(16)), B: int64(r.Intn(2))}
			} else {
				c.Ops[i] = sim.Op{K: "rungc"}
			}
		}
	}
	for i := 0; i < 4; i++ {
		c.Ops = append(c.Ops, sim.Op{K: "gc", A: int64(r.Intn(16)), B: int64(r.Intn(2))})
		if r.Intn(2) == 0 {
			c.Ops = append(c.Ops, GenMaint(r))
		}
	}
	return c
}

func execC08(t *testing.T, c *sim.Case) *sim.Result {
	var res *sim.Result
	if c.CfgInt("api", 0) == 0 {
		c.Cfg["iter_check"] = 1
		res = execC01(t, c)
	} else {
		res = execC02(t, c)
	}
	// Only runs in which a GC pass really touched data, or values really went out of line, count.
	res.Nontrivial = res.Nontrivial && (res.Faults["vlog_gc_rewrite"]+res.Faults["vlog_gc_run"]+res.Faults["vlog_gc_attempt_failed"] > 0)
	return res
}

// iterCheckPlain reads every live default-CF key through DB.NewIterator with
// Item.ValueCopy (key-only mode, so the value log is read lazily) and compares
// with the model.
func iterCheckPlain(w *World, model *plainModel, nkeys int) {
	it := w.DB.NewIterator(&utils.Options{IsAsc: true, OnlyUseKey: true})
	defer it.Close()
	seen := map[string][]byte{}
	errored := map[string]bool{} // keys whose value could not be read (reported as read_error)
	for it.Rewind(); it.Valid(); it.Next() {
		item := it.Item()
		e := item.Entry()
		if e == nil || e.CF != kv.CFDefault {
			continue
		}
		vc, ok := item.(interface {
			ValueCopy([]byte) ([]byte, error)
		})
		if !ok {
			continue
		}
		val, err := vc.ValueCopy(nil)
		if err != nil {
			w.Res.Violate(w.step, "read_error", readErrSig(w, "Iterator.ValueCopy", err, []byte{byte(kv.CFDefault)}, e.Key), "ValueCopy(%q): %v; copies: %s", e.Key, err, DescribeCopies(w, kv.CFDefault, e.Key))
			errored[string(e.Key)] = true
			continue
		}
		if _, dup := seen[string(e.Key)]; !dup {
			seen[string(e.Key)] = append([]byte(nil), val...)
		}
	}
	for ki := 0; ki < nkeys; ki++ {
		exp := model.m[pk(0, ki)]
		if exp == nil || !exp.written || exp.deleted {
			continue
		}
		w.Res.Checks++
		got, ok := seen[keyNames[ki]]
		if ok && bytes.Equal(got, exp.val) {
			continue
		}
		if !ok && errored[keyNames[ki]] {
			continue // the key was yielded; its unreadable value is already reported
		}
		// where the expected and the returned copy are stored (same facts as point reads)
		_, sig := diagnose(w, kv.CFDefault, []byte(keyNames[ki]), exp, ok, got)
		sig["api"] = "iterator_valuecopy"
		if _, has := sig["vlog_gc_ran"]; !has {
			sig["vlog_gc_ran"] = "no"
		}
		w.Res.Violate(w.step, "iterator_value_mismatch", sig, "iterator ValueCopy(%q) = %q (present=%v); model %q", keyNames[ki], trunc(got), ok, trunc(exp.val))
	}
}
