package dbsim

import (
	"bytes"
	"errors"
	"fmt"
	"testing"
	"testing/synctest"

	"github.com/feichai0017/NoKV/kv"
	"github.com/feichai0017/NoKV/utils"

	"verif/sim"
)

func init() {
	props["C01"] = sim.PropSpec{Gen: genC01, Exec: execC01}
}

func genC01(r *sim.Rand, tier string) *sim.Case {
	c := &sim.Case{Cfg: GenCfg(r)}
	nkeys := r.Pick(1, 2, 3, 6)
	ncf := r.Pick(1, 1, 3)
	c.Cfg["keys"] = int64(nkeys)
	c.Cfg["cfs"] = int64(ncf)
	n := 10 + r.Intn(30)
	if tier == "thorough" {
		n = 10 + r.Intn(50)
	}
	maintPct := r.Pick(20, 40, 60)
	// key pattern: 0 = uniform; 1 = a window of two keys that moves on at every
	// rotation, with an occasional wide write - L0 tables with disjoint and
	// partially overlapping key ranges (what compaction planning has to get right).
	pattern := r.Pick(0, 0, 1, 2)
	phase := 0
	if pattern == 2 {
		c.Ops = append(c.Ops, GenL0Layout(r, nkeys, 0)...)
	}
	pickKey := func() int64 {
		if pattern == 0 || r.Intn(6) == 0 {
			return int64(r.Intn(nkeys))
		}
		return int64((phase + r.Intn(2)) % nkeys)
	}
	for i := 0; i < n; i++ {
		if r.Intn(100) < maintPct {
			m := GenMaint(r)
			if m.K == "rotate" {
				phase += 2
			}
			c.Ops = append(c.Ops, m)
			continue
		}
		if r.Intn(5) == 0 {
			c.Ops = append(c.Ops, sim.Op{K: "del", A: int64(r.Intn(ncf)), B: pickKey()})
		} else {
			c.Ops = append(c.Ops, sim.Op{K: "set", A: int64(r.Intn(ncf)), B: pickKey(), C: int64(r.Intn(6))})
		}
	}
	return c
}

type plainVal struct {
	val     []byte
	deleted bool
	written bool
}

type plainModel struct {
	m map[string]*plainVal
}

func pk(cf, key int) string { return fmt.Sprintf("%d/%d", cf, key) }

func execC01(t *testing.T, c *sim.Case) *sim.Result {
	res := sim.NewResult()
	synctest.Test(t, func(t *testing.T) {
		w := NewWorld(t, c, res)
		defer w.Cleanup()
		if err := w.Open(w.Dir); err != nil {
			res.Violate(0, "open_failed", nil, "%v", err)
			return
		}
		model := &plainModel{m: map[string]*plainVal{}}
		nkeys := int(c.CfgInt("keys", 3))
		w.TrackTies = nkeys
		ncf := int(c.CfgInt("cfs", 1))
		for i, op := range c.Ops {
			w.step = i
			sim.Beat()
			res.Steps++
			switch op.K {
			case "set", "del":
				cfi, ki := int(op.A)%ncf, int(op.B)%nkeys
				cf, key := cfs[cfi], []byte(keyNames[ki])
				var err error
				var val []byte
				if op.K == "set" {
					val = MakeValue(fmt.Sprintf("s%d:", i), op.C, w.Opt.ValueThreshold)
					err = w.DB.SetCF(cf, key, val)
				} else {
					err = w.DB.DelCF(cf, key)
				}
				synctest.Wait()
				res.Trace.Add("%s %d/%d len=%d err=%v", op.K, cfi, ki, len(val), err)
				if err == nil {
					model.m[pk(cfi, ki)] = &plainVal{val: val, deleted: op.K == "del", written: true}
				} else {
					res.Probes["write_error"]++
				}
			default:
				if !w.Maint(op) {
					continue
				}
				res.Trace.Add("maint %s", op.String())
			}
			if w.DB == nil {
				return
			}
			checkPlain(w, model, ncf, nkeys)
			if c.CfgInt("iter_check", 0) == 1 && w.DB != nil {
				iterCheckPlain(w, model, nkeys)
			}
		}
		res.Nontrivial = res.Faults["flush"] > 0 || res.Faults["clean_reopen"] > 0
	})
	return res
}

// checkPlain reads every (cf,key) and compares with the model; on mismatch
// it diagnoses where the copies live and resynchronises that key only.
func checkPlain(w *World, model *plainModel, ncf, nkeys int) {
	for cfi := 0; cfi < ncf; cfi++ {
		for ki := 0; ki < nkeys; ki++ {
			cf, key := cfs[cfi], []byte(keyNames[ki])
			exp := model.m[pk(cfi, ki)]
			e, err := w.DB.GetCF(cf, key)
			w.Res.Checks++
			var got []byte
			found := false
			switch {
			case err == nil && e != nil:
				found, got = true, e.Value
			case errors.Is(err, utils.ErrKeyNotFound):
			default:
				w.Res.Violate(w.step, "read_error", readErrSig(w, "GetCF", err, []byte{byte(cf)}, key), "GetCF(%v,%q): %v; copies: %s", cf, key, err, DescribeCopies(w, cf, key))
				continue
			}
			expFound := exp != nil && exp.written && !exp.deleted
			if found == expFound && (!found || bytes.Equal(got, exp.val)) {
				continue
			}
			class, sig := diagnose(w, cf, key, exp, found, got)
			w.Res.Violate(w.step, class, sig, "GetCF(%v,%q) = found:%v %q; model: %s", cf, key, found, trunc(got), descExp(exp))
			// narrow resync
			if found {
				model.m[pk(cfi, ki)] = &plainVal{val: append([]byte(nil), got...), written: true}
			} else {
				model.m[pk(cfi, ki)] = &plainVal{deleted: true, written: true}
			}
		}
	}
}

func descExp(exp *plainVal) string {
	if exp == nil || !exp.written {
		return "never written"
	}
	if exp.deleted {
		return "deleted"
	}
	return fmt.Sprintf("%q", trunc(exp.val))
}

func trunc(b []byte) []byte {
	if len(b) > 24 {
		return b[:24]
	}
	return b
}

// diagnose classifies a read mismatch by locating every stored copy of the key.
func diagnose(w *World, cf kv.ColumnFamily, key []byte, exp *plainVal, found bool, got []byte) (string, map[string]string) {
	copies := w.DB.VerifLocate(cf, key)
	sig := map[string]string{"expected_stored": "no", "same_version": "no"}
	if ArtPrefixPair(w, key) {
		sig["art_prefix_pair"] = "yes"
	}
	if GCRan(w) {
		sig["vlog_gc_ran"] = "yes"
	}
	if w.TieSeen[fmt.Sprintf("%d/%s", cf, key)] {
		sig["equal_version_tie_seen"] = "yes"
	}
	var expCopy, gotCopy = -1, -1
	for i, cp := range copies {
		isDel := cp.Meta&kv.BitDelete != 0
		if exp != nil && exp.written && expCopy < 0 {
			if exp.deleted && isDel {
				expCopy = i
			} else if !exp.deleted && !isDel && bytes.Equal(cp.Value, exp.val) {
				expCopy = i
			}
		}
		if found && gotCopy < 0 && !isDel && bytes.Equal(cp.Value, got) {
			gotCopy = i
		}
		if !found && gotCopy < 0 && isDel {
			gotCopy = i
		}
	}
	if expCopy >= 0 {
		sig["expected_stored"] = "yes"
		sig["expected_in"] = Where(copies[expCopy])
	}
	if gotCopy >= 0 {
		sig["returned_from"] = Where(copies[gotCopy])
	}
	if expCopy >= 0 && gotCopy >= 0 && copies[expCopy].Version == copies[gotCopy].Version {
		sig["same_version"] = "yes"
	}
	class := "stale_read"
	switch {
	case exp == nil || !exp.written:
		class = "phantom_value"
	case found && gotCopy < 0:
		class = "corrupt_value"
	case exp.deleted && found:
		class = "resurrected"
	case !exp.deleted && !found && expCopy < 0:
		class = "lost"
	case !exp.deleted && !found:
		class = "hidden"
	}
	if sig["same_version"] == "yes" && sig["expected_stored"] == "yes" {
		class = "shadowed_equal_version"
	}
	return class, sig
}
