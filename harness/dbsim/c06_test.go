package dbsim

import (
	"bytes"
	"fmt"
	"sort"
	"strings"
	"testing"
	"testing/synctest"
	"time"

	NoKV "github.com/feichai0017/NoKV"
	"github.com/feichai0017/NoKV/kv"
	"github.com/feichai0017/NoKV/utils"

	"verif/sim"
)

func init() {
	props["C06"] = sim.PropSpec{Gen: genC06, Exec: execC06}
}

// boundPool holds bound and seek targets: stored keys and strings between them.
var boundPool = []string{"", "a", "b", "j", "k", "k0", "k0\x00", "k0\x01", "k1", "k2", "k3", "k\xff", "l", "zz", "zzz"}

const (
	itReverse = 1 << iota
	itKeyOnly
	itAllVersions
	itLower
	itUpper
	itPrefix
	itSince
	itPending
)

func genC06(r *sim.Rand, tier string) *sim.Case {
	c := &sim.Case{Cfg: GenCfg(r)}
	nkeys := r.Pick(3, 6, 8)
	c.Cfg["keys"] = int64(nkeys)
	api := r.Pick(0, 2, 2)
	c.Cfg["api"] = int64(api)
	c.Cfg["value_threshold"] = r.Pick64(32, 64, 1<<20)
	n := 12 + r.Intn(30)
	if r.Intn(3) == 0 {
		// Layout prefix: every key written once (a subset twice, into a second table),
		// then moved down into the sorted run of the last level, where levels are read
		// through the concatenating iterator; the random part then scans that.
		wr := func(ki int) sim.Op {
			if api == 0 {
				return sim.Op{K: "set", B: int64(ki), C: int64(r.Intn(6))}
			}
			return sim.Op{K: "txn", A: int64(1) << uint(ki), C: int64(r.Intn(6))}
		}
		for ki := 0; ki < nkeys; ki++ {
			c.Ops = append(c.Ops, wr(ki))
			if r.Intn(3) == 0 {
				c.Ops = append(c.Ops, sim.Op{K: "rotate"})
			}
		}
		c.Ops = append(c.Ops, sim.Op{K: "rotate"}, sim.Op{K: "flushall"},
			sim.Op{K: "compact", A: 0, B: 2, C: 2, D: 1}, sim.Op{K: "compact", A: 6, B: 0, C: 2},
			sim.Op{K: "iter", A: int64(r.Intn(256)), B: int64(r.Intn(len(boundPool))), C: int64(r.Intn(len(boundPool))), D: int64(r.Intn(1 << 20))})
		n = 6 + r.Intn(20)
	}
	for i := 0; i < n; i++ {
		switch x := r.Intn(100); {
		case x < 25:
			m := GenMaint(r)
			if m.K == "gc" || m.K == "rungc" {
				m = sim.Op{K: "flush"}
			}
			c.Ops = append(c.Ops, m)
		case x < 55:
			c.Ops = append(c.Ops, sim.Op{K: "iter", A: int64(r.Intn(256)), B: int64(r.Intn(len(boundPool))), C: int64(r.Intn(len(boundPool))), D: int64(r.Intn(1 << 20))})
		default:
			if api == 0 {
				if r.Intn(5) == 0 {
					c.Ops = append(c.Ops, sim.Op{K: "del", B: int64(r.Intn(nkeys))})
				} else {
					c.Ops = append(c.Ops, sim.Op{K: "set", B: int64(r.Intn(nkeys)), C: int64(r.Intn(6))})
				}
			} else {
				c.Ops = append(c.Ops, sim.Op{K: "txn", A: int64(r.Intn(1 << nkeys)), B: int64(r.Intn(1 << nkeys)), C: int64(r.Intn(6)), D: int64(r.Pick(0, 0, 1, 2))})
			}
		}
	}
	c.Ops = append(c.Ops, sim.Op{K: "iter", A: int64(r.Intn(256)), B: int64(r.Intn(len(boundPool))), C: int64(r.Intn(len(boundPool))), D: int64(r.Intn(1 << 20))})
	return c
}

type mvEntry struct {
	version uint64
	val     []byte
	del     bool
	exp     uint64
}

type iterRow struct {
	key     string
	val     []byte
	version uint64
}

func (r iterRow) String() string { return fmt.Sprintf("%q@%d=%q", r.key, r.version, trunc(r.val)) }

// scanModel computes what an iterator with the given options must yield from a
// full Rewind; hist maps user key -> versions in commit order.
func scanModel(hist map[string][]mvEntry, pending map[string]mvEntry, readTs, since uint64, now uint64,
	reverse, all bool, lower, upper, prefix []byte, useLower, useUpper, usePrefix bool) []iterRow {
	keys := map[string]bool{}
	for k := range hist {
		keys[k] = true
	}
	for k := range pending {
		keys[k] = true
	}
	sorted := make([]string, 0, len(keys))
	for k := range keys {
		sorted = append(sorted, k)
	}
	sort.Strings(sorted)
	var out []iterRow
	for _, k := range sorted {
		if useLower && len(lower) > 0 && bytes.Compare([]byte(k), lower) < 0 {
			continue
		}
		if useUpper && len(upper) > 0 && bytes.Compare([]byte(k), upper) >= 0 {
			continue
		}
		if usePrefix && len(prefix) > 0 && !strings.HasPrefix(k, string(prefix)) {
			continue
		}
		// visible versions, newest first
		var vis []mvEntry
		if p, ok := pending[k]; ok {
			p.version = readTs
			vis = append(vis, p)
		}
		h := hist[k]
		for i := len(h) - 1; i >= 0; i-- {
			if h[i].version > readTs {
				continue
			}
			if _, ok := pending[k]; ok && h[i].version == readTs {
				continue // shadowed by the pending write at the same internal key
			}
			vis = append(vis, h[i])
		}
		if since > 0 {
			f := vis[:0:0]
			for _, e := range vis {
				if e.version > since {
					f = append(f, e)
				}
			}
			vis = f
		}
		live := func(e mvEntry) bool { return !e.del && (e.exp == 0 || e.exp > now) }
		if !all {
			if len(vis) > 0 && live(vis[0]) {
				out = append(out, iterRow{key: k, val: vis[0].val, version: vis[0].version})
			}
			continue
		}
		var rows []iterRow
		for _, e := range vis {
			if live(e) {
				rows = append(rows, iterRow{key: k, val: e.val, version: e.version})
			}
		}
		if reverse {
			for i, j := 0, len(rows)-1; i < j; i, j = i+1, j-1 {
				rows[i], rows[j] = rows[j], rows[i]
			}
		}
		out = append(out, rows...)
	}
	if reverse {
		// keys descending; rows of one key keep their (already reversed) order
		var rev []iterRow
		for i := len(out) - 1; i >= 0; {
			j := i
			for j > 0 && out[j-1].key == out[i].key {
				j--
			}
			rev = append(rev, out[j:i+1]...)
			i = j - 1
		}
		out = rev
	}
	return out
}

// seekModel returns the suffix of rows an iterator must yield after Seek(target).
func seekModel(rows []iterRow, target []byte, reverse bool, lower, upper []byte, useLower, useUpper bool) []iterRow {
	if len(target) == 0 {
		return rows
	}
	if !reverse {
		if useUpper && len(upper) > 0 && bytes.Compare(target, upper) >= 0 {
			return nil
		}
		for i, r := range rows {
			if bytes.Compare([]byte(r.key), target) >= 0 {
				return rows[i:]
			}
		}
		return nil
	}
	if useLower && len(lower) > 0 && bytes.Compare(target, lower) < 0 {
		return nil
	}
	for i, r := range rows {
		if bytes.Compare([]byte(r.key), target) <= 0 {
			return rows[i:]
		}
	}
	return nil
}

func execC06(t *testing.T, c *sim.Case) *sim.Result {
	res := sim.NewResult()
	synctest.Test(t, func(t *testing.T) {
		w := NewWorld(t, c, res)
		defer w.Cleanup()
		if err := w.Open(w.Dir); err != nil {
			res.Violate(0, "open_failed", nil, "%v", err)
			return
		}
		nkeys := int(c.CfgInt("keys", 3))
		plain := c.CfgInt("api", 0) == 0
		hist := map[string][]mvEntry{}
		c06TieSeen = map[string]bool{}
		for i, op := range c.Ops {
			w.step = i
			sim.Beat()
			res.Steps++
			switch op.K {
			case "set", "del":
				if !plain {
					continue
				}
				ki := int(op.B) % nkeys
				var err error
				e := mvEntry{version: ^uint64(0), del: op.K == "del"}
				if op.K == "set" {
					e.val = MakeValue(fmt.Sprintf("s%d:", i), op.C, w.Opt.ValueThreshold)
					if len(e.val) == 0 {
						e.val = []byte{'e'}
					}
					err = w.DB.Set([]byte(keyNames[ki]), e.val)
				} else {
					err = w.DB.Del([]byte(keyNames[ki]))
				}
				synctest.Wait()
				res.Trace.Add("%s %d err=%v", op.K, ki, err)
				if err == nil {
					hist[keyNames[ki]] = []mvEntry{e}
				}
			case "txn":
				if plain {
					continue
				}
				writes, exps, err := TxnOp(w, op, nkeys, i)
				synctest.Wait()
				res.Trace.Add("txn set=%b del=%b err=%v", op.A, op.B, err)
				if err != nil || len(writes) == 0 {
					continue
				}
				rt := w.DB.NewTransaction(false)
				ver := rt.ReadTs()
				rt.Discard()
				for ki := 0; ki < nkeys; ki++ {
					v, ok := writes[ki]
					if !ok {
						continue
					}
					hist[keyNames[ki]] = append(hist[keyNames[ki]], mvEntry{version: ver, val: v, del: v == nil, exp: exps[ki]})
				}
			case "iter":
				checkIter(w, op, hist, plain, nkeys)
			default:
				if w.Maint(op) {
					res.Trace.Add("maint %s", op.String())
				}
			}
			if w.DB == nil {
				return
			}
			if plain && op.K != "iter" {
				tieKeys(w, nkeys, c06TieSeen)
			}
		}
		res.Nontrivial = res.Checks > 0 && (res.Faults["flush"] > 0 || res.Faults["rotate"] > 0)
	})
	return res
}

// c06TieSeen: default-CF keys of the current run that had two equal-version
// copies with one below L0 at the end of some earlier step (runs are sequential
// inside a worker process). After the ingest buffer is merged only the older
// copy may be left, so the fact has to be remembered.
var c06TieSeen map[string]bool

func checkIter(w *World, op sim.Op, hist map[string][]mvEntry, plain bool, nkeys int) {
	bits := int(op.A)
	reverse, keyOnly, all := bits&itReverse != 0, bits&itKeyOnly != 0, bits&itAllVersions != 0
	useLower, useUpper, usePrefix := bits&itLower != 0, bits&itUpper != 0, bits&itPrefix != 0
	lower, upper := []byte(boundPool[int(op.B)%len(boundPool)]), []byte(boundPool[int(op.C)%len(boundPool)])
	prefix := []byte(boundPool[int(op.D)%len(boundPool)])
	targets := [][]byte{nil, []byte(boundPool[int(op.D>>4)%len(boundPool)]), []byte(boundPool[int(op.D>>8)%len(boundPool)])}
	// ... and the smallest and the largest key of the key space: the first key of
	// the first table and the last key of the last table of every sorted run.
	lo, hi := keyNames[0], keyNames[0]
	for _, k := range keyNames[:nkeys] {
		if k < lo {
			lo = k
		}
		if k > hi {
			hi = k
		}
	}
	targets = append(targets, []byte(lo), []byte(hi))
	now := uint64(time.Now().Unix())
	sigBase := func() map[string]string {
		s := map[string]string{"iterator": "txn", "reverse": yn(reverse), "all_versions": yn(all), "key_only": yn(keyOnly)}
		if plain {
			s["iterator"] = "db"
		}
		s["memtable"] = "skiplist"
		if w.usedART {
			s["memtable"] = "art"
		}
		return s
	}
	if plain {
		if usePrefix {
			usePrefix = false // DB iterators take no prefix option that filters keys
		}
		all = false
		opt := &utils.Options{IsAsc: !reverse, OnlyUseKey: keyOnly}
		if useLower {
			opt.LowerBound = lower
		}
		if useUpper {
			opt.UpperBound = upper
		}
		rows := scanModel(hist, nil, ^uint64(0), 0, now, reverse, false, lower, upper, nil, useLower, useUpper, false)
		for ti, target := range targets {
			if ti > 0 && len(target) == 0 {
				continue // DBIterator.Seek has no "empty key = rewind" convention
			}
			it := w.DB.NewIterator(opt)
			if ti == 0 {
				it.Rewind()
			} else {
				it.Seek(target)
			}
			var got []iterRow
			for n := 0; it.Valid() && n < 200; it.Next() {
				n++
				item := it.Item()
				e := item.Entry()
				if e.CF != kv.CFDefault {
					continue
				}
				val := e.Value
				if vc, ok := item.(interface {
					ValueCopy([]byte) ([]byte, error)
				}); ok {
					v, err := vc.ValueCopy(nil)
					if err != nil {
						w.Res.Violate(w.step, "iter_value_error", sigBase(), "ValueCopy(%q): %v", e.Key, err)
					}
					val = v
				}
				got = append(got, iterRow{key: string(e.Key), val: append([]byte(nil), val...), version: e.Version})
			}
			_ = it.Close()
			exp := seekModel(rows, target, reverse, lower, upper, useLower, useUpper)
			curSeekTarget = target
			compareRows(w, hist, sigBase(), ti > 0, exp, got, false, fmt.Sprintf("DB iterator opts{rev=%v keyonly=%v lower=%q(%v) upper=%q(%v)} seek=%q", reverse, keyOnly, lower, useLower, upper, useUpper, target))
		}
		// one DB iterator positioned several times (page, resume at last key, rewind)
		it := w.DB.NewIterator(opt)
		defer func() { _ = it.Close() }()
		read := func(limit int) []iterRow {
			var got []iterRow
			for n := 0; it.Valid() && n < limit; it.Next() {
				item := it.Item()
				e := item.Entry()
				if e.CF != kv.CFDefault {
					continue
				}
				n++
				val := e.Value
				if vc, ok := item.(interface {
					ValueCopy([]byte) ([]byte, error)
				}); ok {
					if v, err := vc.ValueCopy(nil); err == nil {
						val = v
					}
				}
				got = append(got, iterRow{key: string(e.Key), val: append([]byte(nil), val...), version: e.Version})
			}
			return got
		}
		reused := func(step string) map[string]string {
			s := sigBase()
			s["reused_iterator"] = step
			return s
		}
		desc := fmt.Sprintf("reused DB iterator opts{rev=%v keyonly=%v lower=%q(%v) upper=%q(%v)}", reverse, keyOnly, lower, useLower, upper, useUpper)
		page := 1 + int(op.D>>20)%3
		it.Rewind()
		got := read(page)
		exp := seekModel(rows, nil, reverse, lower, upper, useLower, useUpper)
		if len(exp) > page {
			exp = exp[:page]
		}
		curSeekTarget = nil
		compareRows(w, hist, reused("page"), false, exp, got, false, desc+" first page after Rewind")
		if len(got) > 0 {
			last := []byte(got[len(got)-1].key)
			it.Seek(last)
			g2 := read(200)
			curSeekTarget = last
			compareRows(w, hist, reused("resume"), true, seekModel(rows, last, reverse, lower, upper, useLower, useUpper), g2, false, fmt.Sprintf("%s Seek(%q) = last key handed out", desc, last))
		}
		it.Rewind()
		g4 := read(200)
		curSeekTarget = nil
		compareRows(w, hist, reused("rewind"), false, seekModel(rows, nil, reverse, lower, upper, useLower, useUpper), g4, false, desc+" Rewind after use")
		return
	}
	// transactional iterator
	update := bits&itPending != 0
	txn := w.DB.NewTransaction(update)
	defer txn.Discard()
	pending := map[string]mvEntry{}
	if update {
		// one pending overwrite and one pending delete
		k1, k2 := keyNames[int(op.D>>12)%nkeys], keyNames[int(op.D>>16)%nkeys]
		pv := []byte(fmt.Sprintf("p%d:pending", w.step))
		if err := txn.Set([]byte(k1), pv); err == nil {
			pending[k1] = mvEntry{val: pv}
		}
		if k2 != k1 {
			if err := txn.Delete([]byte(k2)); err == nil {
				pending[k2] = mvEntry{del: true}
			}
		}
	}
	readTs := txn.ReadTs()
	var since uint64
	if bits&itSince != 0 && readTs > 1 {
		since = uint64(op.D>>3)%readTs + 1
		if since >= readTs {
			since = readTs - 1
		}
	}
	opt := NoKV.IteratorOptions{Reverse: reverse, AllVersions: all, KeyOnly: keyOnly, SinceTs: since}
	if useLower {
		opt.LowerBound = lower
	}
	if useUpper {
		opt.UpperBound = upper
	}
	if usePrefix {
		opt.Prefix = prefix
	}
	rows := scanModel(hist, pending, readTs, since, now, reverse, all, lower, upper, prefix, useLower, useUpper, usePrefix)
	for ti, target := range targets {
		it := txn.NewIterator(opt)
		if ti == 0 {
			it.Rewind()
		} else {
			it.Seek(target)
		}
		var got []iterRow
		for n := 0; it.Valid() && n < 400; it.Next() {
			n++
			item := it.Item()
			e := item.Entry()
			val, err := item.ValueCopy(nil)
			if err != nil {
				w.Res.Violate(w.step, "iter_value_error", sigBase(), "ValueCopy(%q): %v", e.Key, err)
			}
			got = append(got, iterRow{key: string(e.Key), val: append([]byte(nil), val...), version: e.Version})
		}
		it.Close()
		exp := seekModel(rows, target, reverse, lower, upper, useLower, useUpper)
		curSeekTarget = target
		compareRows(w, hist, sigBase(), ti > 0, exp, got, true, fmt.Sprintf("Txn iterator readTs=%d opts{rev=%v all=%v keyonly=%v since=%d lower=%q(%v) upper=%q(%v) prefix=%q(%v) pending=%d} seek=%q",
			readTs, reverse, all, keyOnly, since, lower, useLower, upper, useUpper, prefix, usePrefix, len(pending), target))
		// each value equals a point read of the same key (latest-version mode only)
		if !all && since == 0 && ti == 0 {
			for _, g := range got {
				item, err := txn.Get([]byte(g.key))
				w.Res.Checks++
				if err != nil {
					w.Res.Violate(w.step, "iter_vs_point_read", sigBase(), "iterator yields %s but Txn.Get fails: %v", g, err)
					continue
				}
				pv, _ := item.ValueCopy(nil)
				if !bytes.Equal(pv, g.val) {
					w.Res.Violate(w.step, "iter_vs_point_read", sigBase(), "iterator yields %s but Txn.Get returns %q", g, trunc(pv))
				}
			}
		}
	}
	// One iterator object positioned several times: read a page, resume at the
	// last key handed out, seek twice to one target, rewind. Every positioning
	// call must behave like the same call on a fresh iterator.
	it := txn.NewIterator(opt)
	defer it.Close()
	read := func(limit int) []iterRow {
		var got []iterRow
		for n := 0; it.Valid() && n < limit; it.Next() {
			n++
			item := it.Item()
			e := item.Entry()
			val, err := item.ValueCopy(nil)
			if err != nil {
				w.Res.Violate(w.step, "iter_value_error", sigBase(), "ValueCopy(%q): %v", e.Key, err)
			}
			got = append(got, iterRow{key: string(e.Key), val: append([]byte(nil), val...), version: e.Version})
		}
		return got
	}
	reused := func(step string) map[string]string {
		s := sigBase()
		s["reused_iterator"] = step
		return s
	}
	desc := fmt.Sprintf("reused Txn iterator readTs=%d opts{rev=%v all=%v keyonly=%v since=%d lower=%q(%v) upper=%q(%v) prefix=%q(%v) pending=%d}",
		readTs, reverse, all, keyOnly, since, lower, useLower, upper, useUpper, prefix, usePrefix, len(pending))
	page := 1 + int(op.D>>20)%3
	it.Rewind()
	got := read(page)
	exp := seekModel(rows, nil, reverse, lower, upper, useLower, useUpper)
	if len(exp) > page {
		exp = exp[:page]
	}
	curSeekTarget = nil
	compareRows(w, hist, reused("page"), false, exp, got, true, desc+" first page after Rewind")
	if len(got) > 0 {
		last := []byte(got[len(got)-1].key)
		it.Seek(last)
		g2 := read(400)
		curSeekTarget = last
		compareRows(w, hist, reused("resume"), true, seekModel(rows, last, reverse, lower, upper, useLower, useUpper), g2, true, fmt.Sprintf("%s Seek(%q) = last key handed out", desc, last))
	}
	if t := targets[1]; len(t) > 0 {
		it.Seek(t)
		_ = read(1)
		it.Seek(t)
		g3 := read(400)
		curSeekTarget = t
		compareRows(w, hist, reused("seek_twice"), true, seekModel(rows, t, reverse, lower, upper, useLower, useUpper), g3, true, fmt.Sprintf("%s second Seek(%q)", desc, t))
	}
	it.Rewind()
	g4 := read(400)
	curSeekTarget = nil
	compareRows(w, hist, reused("rewind"), false, seekModel(rows, nil, reverse, lower, upper, useLower, useUpper), g4, true, desc+" Rewind after use")
}

// curSeekTarget is the target of the probe being compared (single-threaded).
var curSeekTarget []byte

func yn(b bool) string {
	if b {
		return "yes"
	}
	return "no"
}

// compareRows compares an iterator's output with the model's and classifies the first difference.
func compareRows(w *World, hist map[string][]mvEntry, sig map[string]string, seek bool, exp, got []iterRow, withVersion bool, what string) {
	w.Res.Checks++
	sig["seek"] = yn(seek)
	if seek {
		// Is the seek target prefix-related to a stored key (the ART engine orders
		// internal keys by raw bytes, known finding under C07)?
		sig["seek_prefix_related"] = "no"
		for k := range hist {
			t := string(curSeekTarget)
			if t != k && (strings.HasPrefix(k, t) || strings.HasPrefix(t, k)) {
				sig["seek_prefix_related"] = "yes"
			}
		}
	}
	same := len(exp) == len(got)
	for i := 0; same && i < len(exp); i++ {
		if exp[i].key != got[i].key || !bytes.Equal(exp[i].val, got[i].val) || (withVersion && exp[i].version != got[i].version) {
			same = false
		}
	}
	if same {
		return
	}
	// classify
	expKeys, gotKeys := map[string]int{}, map[string]int{}
	for _, r := range exp {
		expKeys[r.key]++
	}
	for _, r := range got {
		gotKeys[r.key]++
	}
	class := "iter_wrong_value"
	detailKey := ""
	for _, r := range got {
		if expKeys[r.key] == 0 {
			class, detailKey = "iter_extra_key", r.key
			break
		}
	}
	if class == "iter_wrong_value" {
		for _, r := range exp {
			if gotKeys[r.key] == 0 {
				class, detailKey = "iter_missing_key", r.key
				break
			}
		}
	}
	if class == "iter_wrong_value" {
		for k, n := range gotKeys {
			if n > expKeys[k] {
				class, detailKey = "iter_duplicate_key", k
			}
		}
	}
	if class == "iter_wrong_value" {
		// same key multiset: order or values differ
		order := true
		for i := range exp {
			if i < len(got) && exp[i].key != got[i].key {
				order = false
			}
		}
		if !order {
			class = "iter_order"
		}
	}
	if class == "iter_extra_key" {
		// is the extra key one whose newest visible version is a tombstone/expired entry?
		h := hist[detailKey]
		sig["extra_key_newest_is_dead"] = "no"
		if len(h) > 0 && (h[len(h)-1].del || h[len(h)-1].exp != 0) {
			sig["extra_key_newest_is_dead"] = "yes"
		}
	}
	if sig["iterator"] == "db" {
		// Plain-API data: every write of a key has the same version. Do copies of
		// the differing key sit in a level's ingest buffer / deeper level (known
		// tie-order defect, see C01)?
		diffKey := detailKey
		if diffKey == "" {
			for i := range exp {
				if i < len(got) && (exp[i].key != got[i].key || !bytes.Equal(exp[i].val, got[i].val)) {
					diffKey = exp[i].key
					break
				}
			}
		}
		sig["equal_version_copies_below_l0"] = "no"
		sig["equal_version_tie_seen"] = yn(diffKey != "" && c06TieSeen[fmt.Sprintf("%d/%s", kv.CFDefault, diffKey)])
		if detailKey == "" {
			detailKey = diffKey
		}
		if diffKey != "" {
			n := 0
			for _, cp := range w.DB.VerifLocate(kv.CFDefault, []byte(diffKey)) {
				if wh := Where(cp); wh == "Ln" || wh == "Ln-ingest" {
					n++
				}
			}
			if n >= 1 && len(w.DB.VerifLocate(kv.CFDefault, []byte(diffKey))) >= 2 {
				sig["equal_version_copies_below_l0"] = "yes"
			}
		}
	}
	w.Res.Violate(w.step, class, sig, "%s (key %q): got %v; expected %v; copies: %s tables: %s", what, detailKey, got, exp, DescribeCopies(w, kv.CFDefault, []byte(detailKey)), DescribeTables(w))
}
