package dbsim

import (
	"bytes"
	"errors"
	"fmt"
	"math"
	"testing"
	"testing/synctest"

	"github.com/feichai0017/NoKV/kv"
	"github.com/feichai0017/NoKV/utils"

	"verif/sim"
)

func init() {
	props["C02"] = sim.PropSpec{Gen: genC02, Exec: execC02}
}

// forceOrder lets other generators (C08) reuse genC02 with a fixed version order.
var forceOrder = -1

var versionPool = []uint64{1, 2, 3, 4, 5, 6, math.MaxUint64}

func genC02(r *sim.Rand, tier string) *sim.Case {
	c := &sim.Case{Cfg: GenCfg(r)}
	nkeys := r.Pick(1, 2, 3)
	ncf := r.Pick(1, 1, 3)
	c.Cfg["keys"] = int64(nkeys)
	c.Cfg["cfs"] = int64(ncf)
	// order: 0 = versions written in increasing order per key (never repeated),
	// 1 = increasing with repeats, 2 = arbitrary order
	order := r.Pick(0, 0, 1, 2)
	if forceOrder >= 0 {
		order = forceOrder
	}
	c.Cfg["order"] = int64(order)
	n := 10 + r.Intn(30)
	if tier == "thorough" {
		n = 10 + r.Intn(50)
	}
	maintPct := r.Pick(20, 40, 60)
	next := map[string]int{}
	// "long chains" shape (1 in 6): inline values of a few KiB, so that the version
	// chain of one key spans several 8 KiB blocks, with table targets of 512 bytes,
	// so that every compaction into a level's sorted run splits its output; all
	// versions written in increasing order, pushed down level by level, then read.
	if forceOrder < 0 && r.Intn(6) == 0 {
		c.Cfg["order"], c.Cfg["cfs"] = 0, 1
		c.Cfg["memtable_size"], c.Cfg["value_threshold"], c.Cfg["value_scale"], c.Cfg["sst_max"] = 1<<20, 1<<20, 48, 512
		c.Cfg["memtable_art"] = 0
		for vi := 0; vi < 6; vi++ {
			for ki := 0; ki < nkeys; ki++ {
				c.Ops = append(c.Ops, sim.Op{K: "vset", A: 0, B: int64(ki), C: 5, D: int64(vi)})
			}
			if vi%2 == 1 || r.Intn(2) == 0 {
				c.Ops = append(c.Ops, sim.Op{K: "rotate"}, sim.Op{K: "flushall"})
			}
		}
		c.Ops = append(c.Ops, sim.Op{K: "rotate"}, sim.Op{K: "flushall"},
			sim.Op{K: "compact", A: 0}, sim.Op{K: "compact", A: 6, B: 1}, sim.Op{K: "compact", A: 6, B: int64(r.Intn(3))}, sim.Op{K: "compactonce"})
		n = 4 + r.Intn(6)
	}
	for i := 0; i < n; i++ {
		if r.Intn(100) < maintPct {
			c.Ops = append(c.Ops, GenMaint(r))
			continue
		}
		cfi, ki := r.Intn(ncf), r.Intn(nkeys)
		var vi int
		k := pk(cfi, ki)
		switch order {
		case 0:
			vi = next[k]
			if vi >= 6 {
				continue
			}
			next[k] = vi + 1
		case 1:
			vi = next[k]
			if vi > 5 {
				vi = 5
			}
			if r.Intn(2) == 0 && next[k] < 5 {
				next[k]++
			}
		default:
			vi = r.Intn(len(versionPool))
		}
		kind := "vset"
		if r.Intn(5) == 0 {
			kind = "vdel"
		}
		c.Ops = append(c.Ops, sim.Op{K: kind, A: int64(cfi), B: int64(ki), C: int64(r.Intn(6)), D: int64(vi)})
	}
	return c
}

type verEntry struct {
	version uint64
	seq     int
	val     []byte
	del     bool
}

// expectVersioned returns the most recently written entry among those with the
// greatest version <= v.
func expectVersioned(hist []verEntry, v uint64) *verEntry {
	var best *verEntry
	for i := range hist {
		e := &hist[i]
		if e.version > v {
			continue
		}
		if best == nil || e.version > best.version || (e.version == best.version && e.seq > best.seq) {
			best = e
		}
	}
	return best
}

func execC02(t *testing.T, c *sim.Case) *sim.Result {
	res := sim.NewResult()
	synctest.Test(t, func(t *testing.T) {
		w := NewWorld(t, c, res)
		defer w.Cleanup()
		if err := w.Open(w.Dir); err != nil {
			res.Violate(0, "open_failed", nil, "%v", err)
			return
		}
		hist := map[string][]verEntry{}
		nkeys := int(c.CfgInt("keys", 3))
		ncf := int(c.CfgInt("cfs", 1))
		w.TrackTies = nkeys
		for i, op := range c.Ops {
			w.step = i
			sim.Beat()
			res.Steps++
			switch op.K {
			case "vset", "vdel":
				cfi, ki := int(op.A)%ncf, int(op.B)%nkeys
				cf, key := cfs[cfi], []byte(keyNames[ki])
				ver := versionPool[int(op.D)%len(versionPool)]
				var err error
				var val []byte
				if op.K == "vset" {
					val = MakeValue(fmt.Sprintf("s%d:", i), op.C, w.Opt.ValueThreshold)
					if len(val) == 0 {
						val = []byte{'e'}
					}
					err = w.DB.SetVersionedEntry(cf, key, ver, val, 0)
				} else {
					err = w.DB.DeleteVersionedEntry(cf, key, ver)
				}
				synctest.Wait()
				res.Trace.Add("%s %d/%d v=%d len=%d err=%v", op.K, cfi, ki, ver, len(val), err)
				if err == nil {
					hist[pk(cfi, ki)] = append(hist[pk(cfi, ki)], verEntry{version: ver, seq: i, val: val, del: op.K == "vdel"})
				}
			default:
				if !w.Maint(op) {
					continue
				}
				res.Trace.Add("maint %s", op.String())
			}
			if w.DB == nil {
				return
			}
			checkVersioned(w, hist, ncf, nkeys)
		}
		res.Nontrivial = res.Faults["flush"] > 0 || res.Faults["clean_reopen"] > 0
	})
	return res
}

var probeVersions = []uint64{1, 2, 3, 4, 5, 6, 7, math.MaxUint64 - 1, math.MaxUint64}

func checkVersioned(w *World, hist map[string][]verEntry, ncf, nkeys int) {
	for cfi := 0; cfi < ncf; cfi++ {
		for ki := 0; ki < nkeys; ki++ {
			cf, key := cfs[cfi], []byte(keyNames[ki])
			h := hist[pk(cfi, ki)]
			for _, v := range probeVersions {
				exp := expectVersioned(h, v)
				e, err := w.DB.GetVersionedEntry(cf, key, v)
				w.Res.Checks++
				found := false
				switch {
				case err == nil && e != nil:
					found = true
				case errors.Is(err, utils.ErrKeyNotFound):
				default:
					w.Res.Violate(w.step, "read_error", readErrSig(w, "GetVersionedEntry", err, []byte{byte(cf)}, key), "GetVersionedEntry(%v,%q,%d): %v; copies: %s", cf, key, v, err, DescribeCopies(w, cf, key))
					continue
				}
				if !found && exp == nil {
					continue
				}
				if found && exp != nil {
					gotDel := e.Meta&kv.BitDelete != 0
					if gotDel == exp.del && (gotDel || bytes.Equal(e.Value, exp.val)) {
						continue
					}
				}
				// Mismatch: which write (if any) did the engine return?
				var got *verEntry
				if found {
					gotDel := e.Meta&kv.BitDelete != 0
					// A returned tombstone cannot name its write; take the candidate with
					// the expected version if there is one, else the greatest version.
					for i := len(h) - 1; i >= 0; i-- {
						if h[i].version <= v && h[i].del == gotDel && (gotDel || bytes.Equal(h[i].val, e.Value)) {
							if got == nil || (exp != nil && h[i].version == exp.version && got.version != exp.version) ||
								(h[i].version > got.version && (exp == nil || got.version != exp.version)) {
								got = &h[i]
							}
						}
					}
				}
				class, sig := classifyVersioned(w, cf, key, h, v, exp, got, found)
				w.Res.Violate(w.step, class, sig, "GetVersionedEntry(%v,%q,%d) = %s; expected %s; copies: %s tables: %s", cf, key, v, descGot(found, e), descVer(exp), DescribeCopies(w, cf, key), DescribeTables(w))
			}
		}
	}
}

func descGot(found bool, e *kv.Entry) string {
	if !found {
		return "not found"
	}
	return fmt.Sprintf("meta=%d %q", e.Meta, trunc(e.Value))
}

func descVer(e *verEntry) string {
	if e == nil {
		return "not found"
	}
	if e.del {
		return fmt.Sprintf("tombstone@%d(step %d)", e.version, e.seq)
	}
	return fmt.Sprintf("%q@%d(step %d)", trunc(e.val), e.version, e.seq)
}

// containerRank orders containers the way the read path consults them.
func containerRank(where string) int {
	switch {
	case where == "mem0":
		return 0
	case len(where) > 3 && where[:3] == "imm":
		return 1 + int(where[3]-'0')
	case where == "L0":
		return 20
	}
	// "L<n>" or "L<n>-ingest"
	return 20 + 2*int(where[1]-'0')
}

// classifyVersioned names a versioned-read mismatch and collects the
// categorical facts that separate the known defects from anything new.
func classifyVersioned(w *World, cf kv.ColumnFamily, key []byte, h []verEntry, v uint64, exp, got *verEntry, found bool) (string, map[string]string) {
	class, sig := "wrong_version_read", map[string]string{}
	// Hazards of this key's history (the preconditions of the known defects):
	// a lower version written after a higher one, one version written twice, a
	// value-log GC pass (which re-inserts entries under their original key).
	sig["hist_out_of_order"], sig["hist_dup_version"], sig["vlog_gc_ran"] = "no", "no", "no"
	for i := range h {
		for j := i + 1; j < len(h); j++ {
			if h[j].version < h[i].version {
				sig["hist_out_of_order"] = "yes"
			}
			if h[j].version == h[i].version {
				sig["hist_dup_version"] = "yes"
			}
		}
	}
	if GCRan(w) {
		sig["vlog_gc_ran"] = "yes"
	}
	switch {
	case !found:
		class = "missing_version"
	case exp == nil:
		class = "phantom_version"
	case got == nil:
		class = "corrupt_value"
	case got.version == exp.version:
		class = "shadowed_equal_version"
	case got.version < exp.version:
		class = "lower_version_returned"
	}
	if ArtPrefixPair(w, key) {
		sig["art_prefix_pair"] = "yes"
	}
	if exp == nil {
		return class, sig
	}
	copies := w.DB.VerifLocate(cf, key)
	expLocs, gotLocs := map[string]bool{}, map[string]bool{}
	expRank, gotRank := 1000, 1000
	for _, cp := range copies {
		loc := fmt.Sprintf("%s#%d", cp.Where, cp.FileID)
		if cp.Version == exp.version {
			expLocs[loc] = true
			if r := containerRank(cp.Where); r < expRank {
				expRank = r
			}
		}
		if got != nil && cp.Version == got.version {
			gotLocs[loc] = true
			if r := containerRank(cp.Where); r < gotRank {
				gotRank = r
			}
		}
	}
	sig["expected_stored"] = "no"
	if len(expLocs) > 0 {
		sig["expected_stored"] = "yes"
	}
	switch class {
	case "shadowed_equal_version":
		sig["equal_version_copies"] = "single"
		if len(expLocs) > 1 {
			sig["equal_version_copies"] = "multi"
		}
	case "lower_version_returned":
		// The read path stops at the first container holding any version <= v.
		sig["returned_in_earlier_searched_container"] = "no"
		if gotRank < expRank {
			sig["returned_in_earlier_searched_container"] = "yes"
		}
	}
	return class, sig
}
