package dbsim

import (
	"testing"

	"verif/sim"
)

var props = map[string]sim.PropSpec{}

// The ART memtable engine misorders (and at version 2^64-1 even loses)
// prefix-related user keys such as "k"/"k1" or "k0"/"k0\x00": SSTs flushed from
// it are then unsorted, lookups miss, compactions misbehave. That defect is
// decided where it belongs (C07, engine unitsim, known finding). So that it does
// not speak for every engine-level property - and cannot make runs of unrelated
// checks crash or hang - cases that use the ART engine are generated over the
// prefix-free part of the key alphabet (the first three names) only, and a
// reopen never switches a larger key set to the ART engine.
func fixART(c *sim.Case) *sim.Case {
	if c.Cfg["keys"] > 3 && c.Cfg["memtable_art"] == 1 {
		c.Cfg["keys"] = 3
		// folding six keys onto three makes "write each key once" scripts overwrite
		if _, ok := c.Cfg["overwrite"]; ok {
			c.Cfg["overwrite"] = 1
		}
	}
	if c.Cfg["keys"] > 3 {
		c.Cfg["reopen_flip"] = 0
	}
	return c
}

func TestVerif(t *testing.T) {
	wrapped := map[string]sim.PropSpec{}
	for id, p := range props {
		gen := p.Gen
		p.Gen = func(r *sim.Rand, tier string) *sim.Case { return fixART(gen(r, tier)) }
		wrapped[id] = p
	}
	sim.Main(t, "dbsim", wrapped)
}
