package logsim

import (
	"bytes"
	"fmt"
	"os"
	"path/filepath"
	"sort"
	"testing"

	"github.com/feichai0017/NoKV/vfs"
	"github.com/feichai0017/NoKV/wal"

	"verif/sim"
)

// C13: WAL replays exactly what was appended, tolerating any torn tail.
//
// Phase 1 drives one wal.Manager on SimFS with generated typed records,
// rotations, segment switches, syncs and clean reopen, and compares every
// replay with the list of appended records (type, payload, segment, offset).
// Phase 2 enumerates truncation offsets of the newest segment on the closed
// directory: VerifyDir + Open + Replay must give exactly the records that end
// at or before the cut; records appended afterwards must replay after them.

func init() { props["C13"] = sim.PropSpec{Gen: genC13, Exec: execC13, NoShrink: noShrink} }

const c13MinSegment = 64 << 10

func genC13(r *sim.Rand, tier string) *sim.Case {
	c := &sim.Case{Cfg: map[string]int64{
		// Values below the minimum are clamped to 64 KiB by wal.Open.
		"segment_size": r.Pick64(1, c13MinSegment, c13MinSegment, c13MinSegment, 128<<10),
		"buffer_size":  r.Pick64(0, 512, 4096, 4096, 64<<10),
		"sample_seed":  int64(r.Intn(1 << 30)),
		"post_records": int64(1 + r.Intn(3)),
		// Newest segments up to this size are cut at every byte; larger ones at
		// every record boundary +-8 bytes plus "samples" seeded offsets.
		"every_byte_limit": 3072,
		"samples":          96,
		// Estimated enumeration cost per run is capped (see cuts): multi-segment
		// logs get a thinned cut list, single small segments stay exhaustive.
		"cut_work_ms": 3000,
	}}
	if tier == "thorough" {
		c.Cfg["every_byte_limit"] = 8192
		c.Cfg["samples"] = 256
		c.Cfg["cut_work_ms"] = 40000
	}
	shape := r.Intn(10) // 0-5: small log, 6-8: medium, 9: several segments of big records
	n := 1 + r.Intn(12)
	if shape >= 6 {
		n = 8 + r.Intn(30)
	}
	if tier == "thorough" && shape >= 8 {
		n = 20 + r.Intn(80)
	}
	for i := 0; i < n; i++ {
		switch x := r.Intn(40); {
		case x == 0:
			c.Ops = append(c.Ops, sim.Op{K: "rotate"})
		case x == 1:
			c.Ops = append(c.Ops, sim.Op{K: "switch", A: int64(r.Intn(3))})
		case x == 2:
			c.Ops = append(c.Ops, sim.Op{K: "sync"})
		case x == 3:
			c.Ops = append(c.Ops, sim.Op{K: "reopen"})
		case x == 4:
			c.Ops = append(c.Ops, sim.Op{K: "check"})
		case x == 6 || (x == 7 && shape == 9):
			// a record about as large as, or larger than, a whole segment (the writer
			// gives it a segment of its own; replay must still return it)
			seg := int(c.Cfg["segment_size"])
			if seg < c13MinSegment {
				seg = c13MinSegment
			}
			c.Ops = append(c.Ops, sim.Op{K: "app", A: int64(r.Intn(4)), B: int64(seg + r.Pick(-9, -8, 0, 1, 5000)), C: int64(r.Intn(3)), D: int64(r.Intn(4) / 3)})
		case x == 5 && shape >= 6:
			// A record that exactly fills, or misses by a few bytes, the active segment.
			c.Ops = append(c.Ops, sim.Op{K: "fillseg", A: int64(r.Intn(4)), B: int64(r.Intn(7)) - 3, C: int64(r.Intn(3))})
		default:
			var sz int
			switch y := r.Intn(20); {
			case y == 0:
				sz = 0
			case y == 1:
				sz = 1
			case y < 12:
				sz = 2 + r.Intn(60)
			case y < 17:
				sz = 100 + r.Intn(1500)
			default:
				if shape == 9 && r.Intn(3) == 0 {
					// a record larger than a whole segment (the writer gives it a segment of its own)
					sz = c13MinSegment + r.Pick(-9, -8, 0, 1, 4096, 70000)
				} else if shape == 9 {
					sz = 20000 + r.Intn(20961) // up to 40 KiB
				} else if shape >= 6 {
					sz = 2000 + r.Intn(6000)
				} else {
					sz = 100 + r.Intn(600)
				}
			}
			c.Ops = append(c.Ops, sim.Op{K: "app", A: int64(r.Intn(4)), B: int64(sz), C: int64(r.Intn(3)), D: int64(r.Intn(4) / 3)})
		}
	}
	return c
}

type walRec struct {
	seg     uint32
	off     int64
	typ     wal.RecordType
	payload []byte
}

func (r walRec) end() int64 { return r.off + int64(len(r.payload)) + 9 }

type c13World struct {
	c    *sim.Case
	res  *sim.Result
	dir  string
	fs   *sim.SimFS
	m    *wal.Manager
	recs []walRec
	step int
}

func (w *c13World) cfg(fs vfs.FS, dir string) wal.Config {
	return wal.Config{Dir: dir, SegmentSize: w.c.CfgInt("segment_size", c13MinSegment), BufferSize: int(w.c.CfgInt("buffer_size", 0)), FS: fs}
}

func (w *c13World) segSize() int64 {
	s := w.c.CfgInt("segment_size", c13MinSegment)
	if s < c13MinSegment {
		s = c13MinSegment
	}
	return s
}

// replayAll collects Replay's output; a panic of the SUT is returned as error.
func replayAll(m *wal.Manager) (out []walRec, err error) {
	perr := guard(func() {
		err = m.Replay(func(info wal.EntryInfo, payload []byte) error {
			out = append(out, walRec{seg: info.SegmentID, off: info.Offset, typ: info.Type, payload: append([]byte(nil), payload...)})
			if int(info.Length) != len(payload)+1 {
				return fmt.Errorf("harness: EntryInfo.Length %d for a payload of %d bytes", info.Length, len(payload))
			}
			return nil
		})
	})
	if perr != nil {
		return out, perr
	}
	return out, err
}

// diffRecs compares a replayed sequence with the expectation. kind is one of
// "", "missing" (got is a strict prefix), "extra" (exp is a strict prefix),
// "different" (first difference inside both).
func diffRecs(got, exp []walRec) (kind, detail string) {
	n := minI(len(got), len(exp))
	for i := 0; i < n; i++ {
		g, e := got[i], exp[i]
		if g.typ != e.typ || !bytes.Equal(g.payload, e.payload) || g.seg != e.seg || g.off != e.off {
			return "different", fmt.Sprintf("record #%d: replayed {seg=%d off=%d type=%d payload=%s}, appended {seg=%d off=%d type=%d payload=%s}",
				i, g.seg, g.off, g.typ, head(g.payload), e.seg, e.off, e.typ, head(e.payload))
		}
	}
	switch {
	case len(got) < len(exp):
		e := exp[len(got)]
		return "missing", fmt.Sprintf("replay returned %d records, expected %d; first missing {seg=%d off=%d type=%d len=%d}", len(got), len(exp), e.seg, e.off, e.typ, len(e.payload))
	case len(got) > len(exp):
		g := got[len(exp)]
		return "extra", fmt.Sprintf("replay returned %d records, expected %d; first extra {seg=%d off=%d type=%d payload=%s}", len(got), len(exp), g.seg, g.off, g.typ, head(g.payload))
	}
	return "", ""
}

func (w *c13World) open() bool {
	var m *wal.Manager
	var err error
	perr := guard(func() { m, err = wal.Open(w.cfg(w.fs, w.dir)) })
	if perr != nil {
		err = perr
	}
	if err != nil {
		w.res.Violate(w.step, "open_error", map[string]string{"phase": "clean"}, "wal.Open on a cleanly closed directory: %v", err)
		return false
	}
	w.m = m
	return true
}

func (w *c13World) checkReplay(what string) {
	if err := w.m.Sync(); err != nil {
		w.res.Violate(w.step, "sync_error", nil, "Sync: %v", err)
		return
	}
	got, err := replayAll(w.m)
	w.res.Checks++
	kind, detail := diffRecs(got, w.recs)
	w.res.Trace.Add("replay %s n=%d err=%s diff=%s", what, len(got), errS(err), kind)
	if err != nil {
		w.res.Violate(w.step, "replay_error", map[string]string{"phase": "clean"}, "%s: Replay of %d appended records failed: %v", what, len(w.recs), err)
		return
	}
	if kind != "" {
		w.res.Violate(w.step, "replay_mismatch", map[string]string{"phase": "clean", "kind": kind}, "%s: %s", what, detail)
	}
	// Per-segment replay must give the same records, segment by segment.
	bySeg := map[uint32][]walRec{}
	var segs []int
	for _, r := range w.recs {
		if _, ok := bySeg[r.seg]; !ok {
			segs = append(segs, int(r.seg))
		}
		bySeg[r.seg] = append(bySeg[r.seg], r)
	}
	sort.Ints(segs)
	for _, s := range segs {
		var got []walRec
		err := w.m.ReplaySegment(uint32(s), func(info wal.EntryInfo, payload []byte) error {
			got = append(got, walRec{seg: info.SegmentID, off: info.Offset, typ: info.Type, payload: append([]byte(nil), payload...)})
			return nil
		})
		w.res.Checks++
		kind, detail := diffRecs(got, bySeg[uint32(s)])
		if err != nil || kind != "" {
			w.res.Violate(w.step, "replay_mismatch", map[string]string{"phase": "clean", "kind": "segment_" + kind}, "%s: ReplaySegment(%d) err=%v %s", what, s, err, detail)
		}
	}
}

func (w *c13World) appendRecs(batch []wal.Record) {
	var infos []wal.EntryInfo
	var err error
	perr := guard(func() { infos, err = w.m.AppendRecords(batch...) })
	if perr != nil {
		err = perr
	}
	w.res.Trace.Add("append n=%d err=%s", len(batch), errS(err))
	if err != nil || len(infos) != len(batch) {
		w.res.Violate(w.step, "append_error", nil, "AppendRecords(%d records): infos=%d err=%v", len(batch), len(infos), err)
		return
	}
	for i, inf := range infos {
		w.res.Trace.Add(" rec seg=%d off=%d len=%d type=%d", inf.SegmentID, inf.Offset, inf.Length, inf.Type)
		w.recs = append(w.recs, walRec{seg: inf.SegmentID, off: inf.Offset, typ: batch[i].Type, payload: batch[i].Payload})
	}
}

func execC13(t *testing.T, c *sim.Case) *sim.Result {
	res := sim.NewResult()
	dir := newDir("c13-")
	defer os.RemoveAll(dir)
	w := &c13World{c: c, res: res, dir: dir}
	w.fs = sim.NewSimFS(dir)
	w.fs.Trace = res.Trace
	if !w.open() {
		return res
	}
	var batch []wal.Record
	flush := func() {
		if len(batch) > 0 {
			w.appendRecs(batch)
			batch = nil
		}
	}
	for i, op := range c.Ops {
		w.step = i
		res.Steps++
		if op.K != "app" {
			flush()
		}
		switch op.K {
		case "app":
			n := int(op.B)
			if n < 0 {
				n = 0
			}
			if n > 256<<10 {
				n = 256 << 10
			}
			if int64(n) >= w.segSize()-9 {
				res.Probes["record_as_large_as_a_segment"]++
			}
			batch = append(batch, wal.Record{Type: wal.RecordType(uint64(op.A) % 4), Payload: fill(n, op.C, uint64(i)+1)})
			if op.D%2 == 0 || len(batch) >= 4 {
				flush()
			}
		case "fillseg":
			remaining := w.segSize() - w.m.ActiveSize()
			n := remaining - 9 + op.B
			if n < 0 {
				n = 0
			}
			if n > 64<<10 {
				n = 64 << 10
			}
			res.Probes["segment_fill_record"]++
			w.appendRecs([]wal.Record{{Type: wal.RecordType(uint64(op.A) % 4), Payload: fill(int(n), op.C, uint64(i)+1)}})
		case "rotate":
			err := w.m.Rotate()
			res.Trace.Add("rotate err=%s", errS(err))
			if err != nil {
				res.Violate(i, "rotate_error", nil, "Rotate: %v", err)
			}
			res.Faults["rotate"]++
		case "switch":
			id := w.m.ActiveSegment() + 1 + uint32(uint64(op.A)%3)
			err := w.m.SwitchSegment(id, true)
			res.Trace.Add("switch %d err=%s", id, errS(err))
			if err != nil {
				res.Violate(i, "rotate_error", nil, "SwitchSegment(%d,true): %v", id, err)
			}
			res.Faults["switch_segment"]++
		case "sync":
			if err := w.m.Sync(); err != nil {
				res.Violate(i, "sync_error", nil, "Sync: %v", err)
			}
		case "check":
			w.checkReplay("mid-run")
		case "reopen":
			if err := w.m.Close(); err != nil {
				res.Violate(i, "close_error", nil, "Close: %v", err)
			}
			if err := wal.VerifyDir(dir, w.fs); err != nil {
				res.Violate(i, "verify_error", map[string]string{"phase": "clean"}, "VerifyDir after clean close: %v", err)
			}
			if !w.open() {
				return res
			}
			res.Faults["clean_reopen"]++
			w.checkReplay("after clean reopen")
		}
	}
	flush()
	w.checkReplay("final")
	segsUsed := map[uint32]bool{}
	for _, r := range w.recs {
		segsUsed[r.seg] = true
	}
	if len(segsUsed) > 1 {
		res.Probes["multi_segment_log"]++
	}
	if err := w.m.Close(); err != nil {
		res.Violate(len(c.Ops), "close_error", nil, "Close: %v", err)
	}
	w.m = nil
	w.cuts()
	res.Nontrivial = res.Faults["truncation_points"] > 0 && len(w.recs) > 0
	return res
}

func segFiles(dir string) (ids []int) {
	files, _ := filepath.Glob(filepath.Join(dir, "*.wal"))
	for _, f := range files {
		var id int
		if _, err := fmt.Sscanf(filepath.Base(f), "%05d.wal", &id); err == nil {
			ids = append(ids, id)
		}
	}
	sort.Ints(ids)
	return ids
}

func segPath(dir string, id int) string { return filepath.Join(dir, fmt.Sprintf("%05d.wal", id)) }

// cutClass says where inside the newest segment a truncation offset falls.
func cutClass(last []walRec, cut int64) string {
	for _, r := range last {
		if cut > r.off && cut < r.end() {
			if cut-r.off < 4 {
				return "length_header"
			}
			if cut-r.off == 4 {
				return "after_header"
			}
			if cut >= r.end()-4 {
				return "checksum"
			}
			return "body"
		}
	}
	return "record_boundary"
}

func (w *c13World) cuts() {
	res := w.res
	ids := segFiles(w.dir)
	if len(ids) == 0 {
		return
	}
	lastID := ids[len(ids)-1]
	content, err := os.ReadFile(segPath(w.dir, lastID))
	if err != nil {
		res.Violate(0, "harness", nil, "read newest segment: %v", err)
		return
	}
	var older, last []walRec
	for _, r := range w.recs {
		if int(r.seg) == lastID {
			last = append(last, r)
		} else {
			older = append(older, r)
		}
	}
	size := int64(len(content))
	set := map[int]struct{}{0: {}, int(size): {}}
	if size <= w.c.CfgInt("every_byte_limit", 8192) {
		for i := int64(0); i <= size; i++ {
			set[int(i)] = struct{}{}
		}
		res.Probes["segment_cut_at_every_byte"]++
	} else {
		for _, r := range last {
			for d := int64(-8); d <= 8; d++ {
				for _, b := range []int64{r.off, r.end()} {
					if x := b + d; x >= 0 && x <= size {
						set[int(x)] = struct{}{}
					}
				}
			}
		}
		rr := sim.NewRand(uint64(w.c.CfgInt("sample_seed", 1)), 0, 13)
		for i := 0; i < int(w.c.CfgInt("samples", 256)); i++ {
			set[rr.Intn(int(size)+1)] = struct{}{}
		}
		res.Probes["segment_cut_sampled"]++
	}
	img := newDir("c13img-")
	defer os.RemoveAll(img)
	for _, id := range ids[:len(ids)-1] {
		b, err := os.ReadFile(segPath(w.dir, id))
		if err == nil {
			err = os.WriteFile(segPath(img, id), b, 0o644)
		}
		if err != nil {
			res.Violate(0, "harness", nil, "copy segment: %v", err)
			return
		}
	}
	cutList := sortedInts(set)
	// Work cap. Every cut re-reads the whole log four times and allocates reader
	// buffers per segment (VerifyDir: 256 KiB fixed), so the cost of one cut grows
	// with the size and the segment count of the log. The estimate below (in
	// microseconds, calibrated on this machine: 0.35 ms base, ~1 GB/s) bounds the
	// enumeration of one run; when the cut list exceeds it, keep for every record
	// of the newest segment its boundary, the 5 bytes after its start and the 5
	// bytes before its end (all structurally distinct places: length header,
	// type, checksum) and stride through the remaining offsets.
	total := size
	for _, id := range ids[:len(ids)-1] {
		if st, err := os.Stat(segPath(w.dir, id)); err == nil {
			total += st.Size()
		}
	}
	res.Probes["log_segments_total"] += len(ids)
	res.Probes["log_kib_total"] += int(total >> 10)
	bufSize := w.c.CfgInt("buffer_size", 0)
	if bufSize <= 0 {
		bufSize = 256 << 10
	}
	perCutUs := 350 + 8*total/1000 + int64(len(ids)-1)*3*(256<<10+3*bufSize)/2000
	if allowed := int(w.c.CfgInt("cut_work_ms", 3000) * 1000 / perCutUs); len(cutList) > allowed {
		keep := map[int]struct{}{0: {}, int(size): {}}
		for _, r := range last {
			for d := int64(0); d <= 5; d++ {
				if x := r.off + d; x <= size {
					keep[int(x)] = struct{}{}
				}
				if x := r.end() - d; x >= 0 && x <= size {
					keep[int(x)] = struct{}{}
				}
			}
		}
		var rest []int
		for _, c := range cutList {
			if _, ok := keep[c]; !ok {
				rest = append(rest, c)
			}
		}
		if room := allowed - len(keep); room > 0 && len(rest) > 0 {
			stride := (len(rest) + room - 1) / room
			for i := 0; i < len(rest); i += stride {
				keep[rest[i]] = struct{}{}
			}
		}
		cutList = sortedInts(keep)
		res.Probes["cut_list_thinned_by_work_cap"]++
	}
	nPost := int(w.c.CfgInt("post_records", 2))
	fs := vfs.OSFS{}
	// Every recovery pass allocates 256 KiB readers; collect by hand (cost only).
	gc, restoreGC := startGCPacer()
	defer restoreGC()
	for n, cut := range cutList {
		if n%64 == 0 {
			sim.Beat()
		}
		gc.after()
		// Restore the image: older segments are untouched by construction, any
		// segment created by the previous iteration's appends is removed.
		for _, id := range segFiles(img) {
			if id >= lastID {
				_ = os.Remove(segPath(img, id))
			}
		}
		if err := os.WriteFile(segPath(img, lastID), content[:cut], 0o644); err != nil {
			res.Violate(0, "harness", nil, "write cut segment: %v", err)
			return
		}
		res.Faults["truncation_points"]++
		where := cutClass(last, int64(cut))
		res.Faults["cut_in_"+where]++
		sig := map[string]string{"cut_in": where}
		exp := append([]walRec(nil), older...)
		for _, r := range last {
			if r.end() <= int64(cut) {
				exp = append(exp, r)
			}
		}
		tr := fmt.Sprintf("cut %d/%d %s", cut, size, where)
		if err := wal.VerifyDir(img, fs); err != nil {
			res.Trace.Add("%s verify err=%s", tr, errS(err))
			res.Violate(n, "cut_verify_error", sig, "newest segment cut at %d of %d (%s): VerifyDir: %v", cut, size, where, err)
			continue
		}
		var m *wal.Manager
		var oerr error
		if perr := guard(func() { m, oerr = wal.Open(w.cfg(fs, img)) }); perr != nil {
			oerr = perr
		}
		if oerr != nil {
			res.Trace.Add("%s open err=%s", tr, errS(oerr))
			res.Violate(n, "cut_open_error", sig, "newest segment cut at %d of %d (%s): Open: %v", cut, size, where, oerr)
			continue
		}
		got, rerr := replayAll(m)
		res.Checks++
		kind, detail := diffRecs(got, exp)
		if rerr != nil {
			res.Violate(n, "cut_replay_error", sig, "newest segment cut at %d of %d (%s): Replay: %v", cut, size, where, rerr)
		} else if kind != "" {
			res.Violate(n, "cut_replay_mismatch", map[string]string{"cut_in": where, "kind": kind}, "newest segment cut at %d of %d (%s): %s", cut, size, where, detail)
		}
		// Append after recovery, then everything must replay in order.
		var post []wal.Record
		for j := 0; j < nPost; j++ {
			sz := []int{0, 1, 5, 37, 300, 2000}[(n+j*3+cut)%6]
			post = append(post, wal.Record{Type: wal.RecordType((n + j) % 4), Payload: fill(sz, int64(j+2), uint64(n*8+j)+0x5000)})
		}
		var infos []wal.EntryInfo
		var aerr error
		if perr := guard(func() { infos, aerr = m.AppendRecords(post...) }); perr != nil {
			aerr = perr
		}
		if aerr == nil {
			aerr = m.Sync()
		}
		if aerr != nil || len(infos) != len(post) {
			res.Trace.Add("%s append err=%s", tr, errS(aerr))
			res.Violate(n, "append_after_cut_error", sig, "newest segment cut at %d of %d (%s): AppendRecords/Sync after recovery: %v", cut, size, where, aerr)
			_ = m.Close()
			continue
		}
		exp2 := append([]walRec(nil), exp...)
		for j, inf := range infos {
			exp2 = append(exp2, walRec{seg: inf.SegmentID, off: inf.Offset, typ: post[j].Type, payload: post[j].Payload})
		}
		got2, rerr2 := replayAll(m)
		res.Checks++
		kind2, detail2 := diffRecs(got2, exp2)
		res.Trace.Add("%s n=%d err=%s diff=%s | post n=%d err=%s diff=%s", tr, len(got), errS(rerr), kind, len(got2), errS(rerr2), kind2)
		if rerr2 != nil {
			res.Violate(n, "append_after_cut_replay_error", sig, "newest segment cut at %d of %d (%s), %d records appended after recovery: Replay: %v", cut, size, where, len(post), rerr2)
		} else if kind2 != "" {
			res.Violate(n, "append_after_cut_mismatch", map[string]string{"cut_in": where, "kind": kind2}, "newest segment cut at %d of %d (%s), %d records appended after recovery: %s", cut, size, where, len(post), detail2)
		}
		if err := m.Close(); err != nil {
			res.Violate(n, "close_error", sig, "Close after cut: %v", err)
		}
		// Every 16th cut: the log recovered and extended once must also survive
		// a second recovery pass unchanged.
		if n%16 == 0 && rerr2 == nil && kind2 == "" {
			if err := wal.VerifyDir(img, fs); err != nil {
				res.Violate(n, "cut_verify_error", map[string]string{"cut_in": where, "pass": "second"}, "second VerifyDir after cut %d: %v", cut, err)
				continue
			}
			var m2 *wal.Manager
			var err2 error
			if perr := guard(func() { m2, err2 = wal.Open(w.cfg(fs, img)) }); perr != nil {
				err2 = perr
			}
			if err2 != nil {
				res.Violate(n, "cut_open_error", map[string]string{"cut_in": where, "pass": "second"}, "second Open after cut %d: %v", cut, err2)
				continue
			}
			got3, rerr3 := replayAll(m2)
			res.Checks++
			if k3, d3 := diffRecs(got3, exp2); rerr3 != nil || k3 != "" {
				res.Violate(n, "append_after_cut_mismatch", map[string]string{"cut_in": where, "kind": "second_pass_" + k3}, "second recovery after cut %d: err=%v %s", cut, rerr3, d3)
			}
			_ = m2.Close()
		}
	}
}
