package logsim

import (
	"bytes"
	"encoding/hex"
	"errors"
	"fmt"
	"math"
	"os"
	"sort"
	"testing"

	"github.com/feichai0017/NoKV/kv"
	"github.com/feichai0017/NoKV/lsm"
	"github.com/feichai0017/NoKV/utils"

	"verif/sim"
)

// C35: SST tables serve exactly the entries they were built from.
//
// A case is a set of entries (ops "ent") plus a list of queries executed in the
// generated order so that cache hits and misses alternate: "get" (point lookup
// of a stored internal key), "seek"/"rseek" (forward / reverse seek to a target
// derived from a stored key), "iter"/"riter" (full scans), "reopen" (close the
// file handle, drop every cache, open the file again as the level manager does
// at start-up). The reference is the sorted entry slice itself.

func init() { props["C35"] = sim.PropSpec{Gen: genC35, Exec: execC35, NoShrink: noShrink} }

var c35Versions = []uint64{1, 2, 3, 5, 100, 1 << 40, math.MaxUint64 - 1, math.MaxUint64}

func genC35(r *sim.Rand, tier string) *sim.Case {
	c := &sim.Case{Cfg: map[string]int64{
		"block_size":  r.Pick64(64, 128, 256, 512, 1024, 4096),
		"bloom_milli": r.Pick64(0, 10, 10, 100, 500),
		"block_cache": r.Pick64(0, 0, 1, 256, 4096),
		"bloom_cache": r.Pick64(0, 1, 16),
	}}
	bs := int(c.Cfg["block_size"])
	nUser := r.Pick(1, 1, 2, 3, 5, 8, 13, 30, 60)
	if tier == "thorough" {
		nUser = r.Pick(1, 2, 3, 8, 30, 60, 150, 400)
	}
	// User keys over a tiny alphabet so that many are prefixes of others, some
	// with a long common stem (prefix compression inside a block) and some with
	// 0x00 / 0xff bytes.
	stem := ""
	if r.Chance(1, 4) {
		stem = string(bytes.Repeat([]byte("s"), r.Pick(9, 70, 300)))
	}
	alphabet := []string{"a", "b", "\x00", "\xff", "ab", "k"}
	seen := map[string]bool{}
	var users []string
	for len(users) < nUser {
		n := r.Intn(5)
		if nUser > 12 {
			n = 1 + r.Intn(6)
		}
		k := stem
		for j := 0; j < n; j++ {
			k += alphabet[r.Intn(len(alphabet))]
		}
		if r.Chance(1, 10) {
			k += string(bytes.Repeat([]byte("L"), r.Pick(40, 200, 600)))
		}
		if seen[k] {
			if len(seen) >= 1<<uint(minI(n+2, 10)) || r.Chance(1, 3) {
				k += fmt.Sprintf("#%d", len(users))
			} else {
				continue
			}
		}
		if seen[k] {
			continue
		}
		seen[k] = true
		users = append(users, k)
	}
	nEnt := 0
	for _, u := range users {
		nv := r.Pick(1, 1, 1, 2, 3, 6)
		perm := r.Perm(len(c35Versions))
		for j := 0; j < nv; j++ {
			vsz := 0
			switch r.Intn(8) {
			case 0:
				vsz = 0
			case 1:
				vsz = 1
			case 2:
				vsz = maxI(0, bs-30+r.Intn(40))
			case 3:
				vsz = bs*2 + r.Intn(bs)
			case 4:
				vsz = r.Pick(3000, 10000)
			default:
				vsz = 2 + r.Intn(40)
			}
			c.Ops = append(c.Ops, sim.Op{K: "ent", S: hex.EncodeToString([]byte(u)), A: int64(perm[j]),
				B: int64(vsz), C: int64(r.Intn(12)), D: int64(r.Intn(3))})
			nEnt++
		}
	}
	// Queries: two rounds separated by a reopen; inside a round every stored
	// key is looked up in seeded order, interleaved with seeks and scans.
	for round := 0; round < 2; round++ {
		for _, i := range r.Perm(nEnt) {
			c.Ops = append(c.Ops, sim.Op{K: "get", A: int64(i)})
			if r.Chance(2, 3) {
				c.Ops = append(c.Ops, sim.Op{K: "seek", A: int64(i), B: int64(r.Intn(10))})
			}
			if r.Chance(2, 3) {
				c.Ops = append(c.Ops, sim.Op{K: "rseek", A: int64(i), B: int64(r.Intn(10))})
			}
			if r.Chance(1, 12) {
				if r.Chance(1, 2) {
					c.Ops = append(c.Ops, sim.Op{K: "iter"})
				} else {
					c.Ops = append(c.Ops, sim.Op{K: "riter"})
				}
			}
		}
		c.Ops = append(c.Ops, sim.Op{K: "iter"}, sim.Op{K: "riter"})
		if round == 0 {
			c.Ops = append(c.Ops, sim.Op{K: "reopen"})
		}
	}
	return c
}

func minI(a, b int) int {
	if a < b {
		return a
	}
	return b
}
func maxI(a, b int) int {
	if a > b {
		return a
	}
	return b
}

type sstEnt struct {
	key    []byte // internal key
	val    []byte
	meta   byte
	expire uint64
}

func c35Entries(c *sim.Case) []sstEnt {
	byKey := map[string]sstEnt{}
	for i, op := range c.Ops {
		if op.K != "ent" {
			continue
		}
		u, err := hex.DecodeString(op.S)
		if err != nil {
			u = []byte(op.S)
		}
		ver := c35Versions[int(uint64(op.A)%uint64(len(c35Versions)))]
		cf := kv.CFDefault
		if op.C%6 == 5 {
			cf = kv.CFWrite
		}
		e := sstEnt{key: kv.InternalKey(cf, u, ver)}
		n := int(op.B)
		if n < 0 {
			n = 0
		}
		if n > 1<<16 {
			n = 1 << 16
		}
		e.val = fill(n, op.D, uint64(i)+1)
		switch op.C % 4 {
		case 1:
			e.meta = kv.BitDelete
		case 2:
			e.expire = uint64(op.C) * 1000003
		case 3:
			e.meta = 0x10 // an application meta bit
			e.expire = math.MaxUint64
		}
		byKey[string(e.key)] = e
	}
	keys := make([]string, 0, len(byKey))
	for k := range byKey {
		keys = append(keys, k)
	}
	out := make([]sstEnt, 0, len(keys))
	for _, k := range keys {
		out = append(out, byKey[k])
	}
	sort.Slice(out, func(i, j int) bool { return utils.CompareKeys(out[i].key, out[j].key) < 0 })
	return out
}

type c35World struct {
	c      *sim.Case
	res    *sim.Result
	dir    string
	opt    *lsm.Options
	env    *lsm.VerifTableEnv
	h      *lsm.VerifTableHandle
	st     []sstEnt
	bases  map[string]bool
	reopen bool
	step   int
}

func (w *c35World) sig(extra map[string]string) map[string]string {
	s := map[string]string{"reopened": "no", "bloom": "off"}
	if w.reopen {
		s["reopened"] = "yes"
	}
	if w.c.CfgInt("bloom_milli", 0) > 0 {
		s["bloom"] = "on"
	}
	for k, v := range extra {
		s[k] = v
	}
	return s
}

func sameEnt(e *kv.Entry, x sstEnt) bool {
	return e != nil && bytes.Equal(e.Key, x.key) && bytes.Equal(e.Value, x.val) && e.Meta == x.meta && e.ExpiresAt == x.expire
}

func descEnt(e *kv.Entry) string {
	if e == nil {
		return "nil"
	}
	return fmt.Sprintf("{key=%s val=%s meta=%#x exp=%d}", head(e.Key), head(e.Value), e.Meta, e.ExpiresAt)
}

func execC35(t *testing.T, c *sim.Case) *sim.Result {
	res := sim.NewResult()
	st := c35Entries(c)
	if len(st) == 0 {
		return res
	}
	dir := newDir("c35-")
	defer os.RemoveAll(dir)
	w := &c35World{c: c, res: res, dir: dir, st: st}
	w.opt = &lsm.Options{
		WorkDir:            dir,
		SSTableMaxSz:       1 << 20,
		BlockSize:          int(c.CfgInt("block_size", 4096)),
		BloomFalsePositive: float64(c.CfgInt("bloom_milli", 10)) / 1000,
		BlockCacheSize:     int(c.CfgInt("block_cache", 0)),
		BloomCacheSize:     int(c.CfgInt("bloom_cache", 0)),
	}
	w.env = lsm.VerifNewTableEnv(w.opt)
	ents := make([]*kv.Entry, len(st))
	for i, x := range st {
		ents[i] = &kv.Entry{Key: x.key, Value: x.val, Meta: x.meta, ExpiresAt: x.expire}
	}
	h, err := w.env.Build(1, ents)
	res.Trace.Add("build n=%d bs=%d err=%s", len(st), w.opt.BlockSize, errS(err))
	if err != nil {
		res.Violate(0, "build_failed", w.sig(nil), "building a table of %d sorted entries failed: %v", len(st), err)
		w.env.Close()
		return res
	}
	w.h = h
	defer func() {
		if w.h != nil {
			_ = w.h.CloseHandle()
		}
		w.env.Close()
	}()
	w.loadBases()
	res.Trace.Add("blocks=%d keycount=%d", h.BlockCount(), h.KeyCount())
	if h.BlockCount() > 1 {
		res.Probes["multi_block_table"]++
	}
	if len(st) == 1 {
		res.Probes["single_entry_table"]++
	}
	for _, x := range st {
		if len(x.val)+len(x.key) > w.opt.BlockSize {
			res.Probes["entry_larger_than_block"]++
			break
		}
	}
	if !bytes.Equal(h.MinKey(), st[0].key) || !bytes.Equal(h.MaxKey(), st[len(st)-1].key) {
		res.Violate(0, "bounds_wrong", w.sig(nil), "MinKey/MaxKey = %s / %s, stored %s / %s", head(h.MinKey()), head(h.MaxKey()), head(st[0].key), head(st[len(st)-1].key))
	}
	res.Checks++
	for i, op := range c.Ops {
		w.step = i
		if op.K == "ent" {
			continue
		}
		res.Steps++
		if i%64 == 0 {
			sim.Beat()
		}
		switch op.K {
		case "get":
			w.get(int(uint64(op.A) % uint64(len(st))))
		case "seek":
			w.seek(true, int(uint64(op.A)%uint64(len(st))), op.B)
		case "rseek":
			w.seek(false, int(uint64(op.A)%uint64(len(st))), op.B)
		case "iter":
			w.scan(true)
		case "riter":
			w.scan(false)
		case "reopen":
			if !w.doReopen() {
				return res
			}
		}
	}
	m := w.env.CacheMetrics()
	if m.L0Hits > 0 {
		res.Probes["block_cache_hit_runs"]++
	}
	if m.L0Misses > 0 {
		res.Probes["block_cache_miss_runs"]++
	}
	res.Nontrivial = res.Faults["reopen"] > 0 && h.BlockCount() > 1
	return res
}

func (w *c35World) loadBases() {
	w.bases = map[string]bool{}
	for _, b := range w.h.BlockBaseKeys() {
		w.bases[string(b)] = true
	}
}

func (w *c35World) doReopen() bool {
	_ = w.h.CloseHandle()
	w.env.Close()
	w.env = lsm.VerifNewTableEnv(w.opt)
	h, err := w.env.Open(1)
	w.res.Trace.Add("reopen err=%s", errS(err))
	w.res.Checks++
	if err != nil {
		w.h = nil
		w.res.Violate(w.step, "reopen_failed", w.sig(nil), "opening the table file again failed: %v", err)
		return false
	}
	w.h = h
	w.reopen = true
	w.res.Faults["reopen"]++
	w.loadBases()
	st := w.st
	if !bytes.Equal(h.MinKey(), st[0].key) || !bytes.Equal(h.MaxKey(), st[len(st)-1].key) {
		w.res.Violate(w.step, "bounds_wrong", w.sig(nil), "after reopen MinKey/MaxKey = %s / %s, stored %s / %s", head(h.MinKey()), head(h.MaxKey()), head(st[0].key), head(st[len(st)-1].key))
	}
	return true
}

func (w *c35World) get(i int) {
	x := w.st[i]
	ver := kv.ParseTs(x.key)
	e, err := w.h.Search(x.key, ver-1)
	w.res.Checks++
	w.res.Trace.Add("get %d ok=%v err=%s", i, sameEnt(e, x), errS(err))
	switch {
	case err == nil && sameEnt(e, x):
	case errors.Is(err, utils.ErrKeyNotFound):
		w.res.Violate(w.step, "lookup_miss", w.sig(map[string]string{"at_block_start": yn(w.bases[string(x.key)])}),
			"Search(stored key #%d %s) = not found (table of %d entries)", i, head(x.key), len(w.st))
	case err != nil:
		w.res.Violate(w.step, "lookup_error", w.sig(nil), "Search(stored key #%d %s): %v", i, head(x.key), err)
	default:
		w.res.Violate(w.step, "lookup_wrong", w.sig(nil), "Search(stored key #%d %s) = %s, stored {val=%s meta=%#x exp=%d}", i, head(x.key), descEnt(e), head(x.val), x.meta, x.expire)
	}
}

func yn(b bool) string {
	if b {
		return "yes"
	}
	return "no"
}

// target derives a seek target from stored entry i: the key itself, a
// neighbouring version, a neighbouring user key, or a key outside the table.
func (w *c35World) target(i int, variant int64) ([]byte, string) {
	x := w.st[i]
	cf, user, ver := kv.SplitInternalKey(x.key)
	switch variant % 10 {
	case 0, 1:
		return x.key, "present"
	case 2: // newer version of the same user key (sorts just before)
		if ver < math.MaxUint64 {
			return kv.InternalKey(cf, user, ver+1), "absent"
		}
		return x.key, "present"
	case 3: // older version (sorts just after)
		if ver > 0 {
			return kv.InternalKey(cf, user, ver-1), "absent"
		}
		return x.key, "present"
	case 4: // read at the highest version: first entry of this user key or later
		return kv.InternalKey(cf, user, math.MaxUint64), "absent"
	case 5: // lowest version: after every version of this user key
		return kv.InternalKey(cf, user, 0), "absent"
	case 6: // user key + 0x00: the smallest user key after this one
		return kv.InternalKey(cf, append(append([]byte{}, user...), 0), math.MaxUint64), "absent"
	case 7: // user key shortened by one byte
		if len(user) > 0 {
			return kv.InternalKey(cf, user[:len(user)-1], 0), "absent"
		}
		return kv.InternalKey(cf, nil, math.MaxUint64), "absent"
	case 8: // before everything
		return kv.InternalKey(kv.CFDefault, nil, math.MaxUint64), "absent"
	default: // after everything
		return kv.InternalKey(kv.CFWrite, bytes.Repeat([]byte{0xff}, 8), 0), "absent"
	}
}

func (w *c35World) seek(asc bool, i int, variant int64) {
	tgt, kind := w.target(i, variant)
	st := w.st
	exp := -1
	if asc {
		j := sort.Search(len(st), func(j int) bool { return utils.CompareKeys(st[j].key, tgt) >= 0 })
		if j < len(st) {
			exp = j
		}
	} else {
		j := sort.Search(len(st), func(j int) bool { return utils.CompareKeys(st[j].key, tgt) > 0 })
		exp = j - 1
	}
	if exp >= 0 && bytes.Equal(st[exp].key, tgt) {
		kind = "present"
	}
	var got *kv.Entry
	valid := false
	perr := w.h.Guard("seek", func() {
		it := w.h.NewIterator(asc)
		defer func() { _ = it.Close() }()
		it.Seek(tgt)
		if it.Valid() && it.Item() != nil && it.Item().Entry() != nil {
			valid = true
			e := it.Item().Entry()
			got = &kv.Entry{Key: kv.SafeCopy(nil, e.Key), Value: kv.SafeCopy(nil, e.Value), Meta: e.Meta, ExpiresAt: e.ExpiresAt}
		}
	})
	w.res.Checks++
	dir := "forward"
	if !asc {
		dir = "reverse"
	}
	ok := perr == nil && ((exp < 0 && !valid) || (exp >= 0 && valid && sameEnt(got, st[exp])))
	w.res.Trace.Add("seek %s %d/%d exp=%d valid=%v ok=%v", dir, i, variant%10, exp, valid, ok)
	if ok {
		return
	}
	if perr != nil {
		w.res.Violate(w.step, "seek_panic", w.sig(map[string]string{"dir": dir}), "Seek(%s) %s: %v", head(tgt), dir, perr)
		return
	}
	sig := map[string]string{"dir": dir, "target": kind, "got": "other_entry", "expected_at_block_start": "no", "expected": "entry"}
	if !valid {
		sig["got"] = "invalid"
	}
	if exp < 0 {
		sig["expected"] = "invalid"
	} else if w.bases[string(st[exp].key)] {
		sig["expected_at_block_start"] = "yes"
	}
	expDesc := "iterator invalid"
	if exp >= 0 {
		expDesc = fmt.Sprintf("stored entry #%d key=%s", exp, head(st[exp].key))
	}
	w.res.Violate(w.step, "seek_wrong", w.sig(sig), "%s Seek(%s) landed on %s (valid=%v); expected %s; table has %d entries in %d blocks",
		dir, head(tgt), descEnt(got), valid, expDesc, len(st), w.h.BlockCount())
}

func (w *c35World) scan(asc bool) {
	st := w.st
	n, bad := 0, -1
	var badDesc string
	perr := w.h.Guard("scan", func() {
		it := w.h.NewIterator(asc)
		defer func() { _ = it.Close() }()
		for it.Rewind(); it.Valid(); it.Next() {
			if it.Item() == nil || it.Item().Entry() == nil {
				break
			}
			e := it.Item().Entry()
			idx := n
			if !asc {
				idx = len(st) - 1 - n
			}
			if bad < 0 && (idx < 0 || idx >= len(st) || !sameEnt(e, st[idx])) {
				bad = n
				badDesc = descEnt(e)
			}
			n++
			if n > len(st)+4 {
				break
			}
		}
	})
	w.res.Checks++
	dir := "forward"
	if !asc {
		dir = "reverse"
	}
	w.res.Trace.Add("scan %s n=%d bad=%d err=%s", dir, n, bad, errS(perr))
	switch {
	case perr != nil:
		w.res.Violate(w.step, "scan_panic", w.sig(map[string]string{"dir": dir}), "%s scan: %v", dir, perr)
	case bad >= 0:
		w.res.Violate(w.step, "scan_mismatch", w.sig(map[string]string{"dir": dir, "kind": "different_entry"}), "%s scan position %d returned %s; stored sequence has %d entries", dir, bad, badDesc, len(st))
	case n != len(st):
		w.res.Violate(w.step, "scan_mismatch", w.sig(map[string]string{"dir": dir, "kind": "count"}), "%s scan returned %d entries, stored %d", dir, n, len(st))
	}
}
