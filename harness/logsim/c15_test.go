package logsim

import (
	"errors"
	"fmt"
	"os"
	"path/filepath"
	"sort"
	"strings"
	"testing"

	"github.com/feichai0017/NoKV/manifest"

	"verif/sim"
)

// C15: Manifest reload equals in-memory state across rewrites and crashes.
//
// One manifest.Manager runs on SimFS with a small rewrite threshold. Every
// generated call (a batch of 1-4 edits, LogRaftTruncate, an explicit Rewrite,
// a clean Close/Verify/Open) is first applied edit by edit to a shadow manager
// (separate directory, rewrites disabled) whose Current() after each edit
// defines "the state after a prefix of the edits". Then
//  (1) after every call a copy of the directory is verified and opened and its
//      Current() must equal the live manager's Current();
//  (2) every state-changing FS event inside the call (and its page-torn
//      variant) cuts a process-crash image that must pass manifest.Verify, open,
//      and show the state after j edits for some j between the number of edits
//      already acknowledged and the number issued.

func init() { props["C15"] = sim.PropSpec{Gen: genC15, Exec: execC15, NoShrink: noShrink} }

func genC15(r *sim.Rand, tier string) *sim.Case {
	c := &sim.Case{Cfg: map[string]int64{
		"rewrite_threshold": r.Pick64(256, 512, 1024, 4096, 8192, 0),
		"manifest_sync":     int64(r.Intn(2)),
		// 1 run in 3 ends with a failed rewrite (injected I/O error while the pointer file is switched) followed by more edits
		"io_fail": int64(r.Intn(3) / 2),
	}}
	n := 4 + r.Intn(40)
	if c.Cfg["rewrite_threshold"] >= 4096 || c.Cfg["rewrite_threshold"] == 0 {
		n = 120 + r.Intn(240) // long enough for the file to cross page boundaries
	}
	if tier == "thorough" {
		n += r.Intn(100)
	}
	kinds := []string{"add", "add", "add", "del", "del", "move", "logptr", "vhead", "vhead", "vdel", "vupd", "vupd", "raft", "raft", "region", "region", "regiondel", "rafttrunc"}
	for i := 0; i < n; i++ {
		switch x := r.Intn(30); {
		case x == 0:
			c.Ops = append(c.Ops, sim.Op{K: "rewrite"})
		case x == 1:
			c.Ops = append(c.Ops, sim.Op{K: "reopen"})
		default:
			c.Ops = append(c.Ops, sim.Op{K: kinds[r.Intn(len(kinds))], A: int64(r.Intn(1 << 16)), B: int64(r.Intn(1 << 30)), C: int64(r.Intn(16)), D: int64(r.Intn(3) / 2)})
		}
	}
	return c
}

// canon renders a Version section by section in a canonical, order-free form.
// normInvalid zeroes the offset of value-log entries that are not valid.
func canon(v manifest.Version, normInvalid bool) map[string]string {
	out := map[string]string{}
	var b strings.Builder
	levels := make([]int, 0, len(v.Levels))
	for l, fs := range v.Levels {
		if len(fs) > 0 {
			levels = append(levels, l)
		}
	}
	sort.Ints(levels)
	for _, l := range levels {
		fs := append([]manifest.FileMeta(nil), v.Levels[l]...)
		sort.SliceStable(fs, func(i, j int) bool { return fs[i].FileID < fs[j].FileID })
		for _, f := range fs {
			fmt.Fprintf(&b, "L%d{lvl=%d id=%d size=%d small=%x large=%x created=%d vsize=%d ingest=%v}\n", l, f.Level, f.FileID, f.Size, f.Smallest, f.Largest, f.CreatedAt, f.ValueSize, f.Ingest)
		}
	}
	out["levels"] = b.String()
	out["log_pointer"] = fmt.Sprintf("%d/%d", v.LogSegment, v.LogOffset)
	b.Reset()
	ids := make([]manifest.ValueLogID, 0, len(v.ValueLogs))
	for id := range v.ValueLogs {
		ids = append(ids, id)
	}
	sort.Slice(ids, func(i, j int) bool {
		if ids[i].Bucket != ids[j].Bucket {
			return ids[i].Bucket < ids[j].Bucket
		}
		return ids[i].FileID < ids[j].FileID
	})
	for _, id := range ids {
		m := v.ValueLogs[id]
		if normInvalid && !m.Valid {
			m.Offset = 0
		}
		fmt.Fprintf(&b, "%d/%d{b=%d f=%d off=%d valid=%v}\n", id.Bucket, id.FileID, m.Bucket, m.FileID, m.Offset, m.Valid)
	}
	out["value_logs"] = b.String()
	b.Reset()
	bs := make([]int, 0, len(v.ValueLogHead))
	for k := range v.ValueLogHead {
		bs = append(bs, int(k))
	}
	sort.Ints(bs)
	for _, k := range bs {
		m := v.ValueLogHead[uint32(k)]
		fmt.Fprintf(&b, "%d{b=%d f=%d off=%d valid=%v}\n", k, m.Bucket, m.FileID, m.Offset, m.Valid)
	}
	out["value_log_head"] = b.String()
	b.Reset()
	gs := make([]uint64, 0, len(v.RaftPointers))
	for k := range v.RaftPointers {
		gs = append(gs, k)
	}
	sort.Slice(gs, func(i, j int) bool { return gs[i] < gs[j] })
	for _, k := range gs {
		fmt.Fprintf(&b, "%d%+v\n", k, v.RaftPointers[k])
	}
	out["raft_pointers"] = b.String()
	b.Reset()
	rs := make([]uint64, 0, len(v.Regions))
	for k := range v.Regions {
		rs = append(rs, k)
	}
	sort.Slice(rs, func(i, j int) bool { return rs[i] < rs[j] })
	for _, k := range rs {
		m := v.Regions[k]
		fmt.Fprintf(&b, "%d{id=%d start=%x end=%x epoch=%d/%d state=%d peers=", k, m.ID, m.StartKey, m.EndKey, m.Epoch.Version, m.Epoch.ConfVersion, m.State)
		for _, p := range m.Peers {
			fmt.Fprintf(&b, "%d:%d,", p.StoreID, p.PeerID)
		}
		b.WriteString("}\n")
	}
	out["regions"] = b.String()
	return out
}

var c15Sections = []string{"levels", "log_pointer", "value_logs", "value_log_head", "raft_pointers", "regions"}

// diffCanon returns the first differing section ("" when equal).
func diffCanon(a, b map[string]string) string {
	for _, s := range c15Sections {
		if a[s] != b[s] {
			return s
		}
	}
	return ""
}

func firstDiffLine(a, b string) string {
	al, bl := strings.Split(a, "\n"), strings.Split(b, "\n")
	for i := 0; i < len(al) || i < len(bl); i++ {
		var x, y string
		if i < len(al) {
			x = al[i]
		}
		if i < len(bl) {
			y = bl[i]
		}
		if x != y {
			return fmt.Sprintf("%q vs %q", x, y)
		}
	}
	return ""
}

type fileRef struct {
	level int
	id    uint64
}

type c15World struct {
	c   *sim.Case
	res *sim.Result
	dir string
	fs  *sim.SimFS
	m   *manifest.Manager
	sh  *manifest.Manager
	// snaps[j] = canonical shadow state after j edits (raw and normalised).
	snaps     []map[string]string
	snapsNorm []map[string]string
	acked     int // edits whose call has returned
	issued    int // edits handed to the call in flight (== acked between calls)
	files     []fileRef
	nextFile  uint64
	step      int
	callKind  string
	imgSeq    int
}

func (w *c15World) snapshotShadow() {
	cur := w.sh.Current()
	w.snaps = append(w.snaps, canon(cur, false))
	w.snapsNorm = append(w.snapsNorm, canon(cur, true))
}

func bytesFrom(r *sim.Rand, max int) []byte {
	n := r.Intn(max + 1)
	if r.Chance(1, 6) {
		return nil
	}
	b := make([]byte, n)
	for i := range b {
		b[i] = byte(r.Intn(256))
		if r.Chance(1, 4) {
			b[i] = 0
		}
	}
	return b
}

func bigU(r *sim.Rand) uint64 {
	switch r.Intn(5) {
	case 0:
		return 0
	case 1:
		return uint64(r.Intn(200))
	case 2:
		return r.Uint64()
	case 3:
		return ^uint64(0)
	default:
		return uint64(r.Intn(1 << 20))
	}
}

// edits turns one generated op into manifest edits (leniently: a target that
// does not exist degrades to a harmless edit of the same kind).
func (w *c15World) edits(i int, op sim.Op) []manifest.Edit {
	r := sim.NewRand(uint64(op.B), i, 15)
	pick := func() (fileRef, int, bool) {
		if len(w.files) == 0 {
			return fileRef{}, 0, false
		}
		k := int(uint64(op.A) % uint64(len(w.files)))
		return w.files[k], k, true
	}
	meta := func(level int, id uint64) *manifest.FileMeta {
		return &manifest.FileMeta{Level: level, FileID: id, Size: bigU(r), Smallest: bytesFrom(r, 24), Largest: bytesFrom(r, 24),
			CreatedAt: bigU(r), ValueSize: bigU(r), Ingest: r.Chance(1, 3)}
	}
	switch op.K {
	case "add":
		w.nextFile++
		f := fileRef{level: int(op.A % 7), id: w.nextFile}
		w.files = append(w.files, f)
		return []manifest.Edit{{Type: manifest.EditAddFile, File: meta(f.level, f.id)}}
	case "del":
		f, k, ok := pick()
		if !ok || op.C == 0 {
			// delete of a file that is not there: logged, changes nothing
			return []manifest.Edit{{Type: manifest.EditDeleteFile, File: &manifest.FileMeta{Level: int(op.A % 7), FileID: 1 << 40}}}
		}
		w.files = append(w.files[:k:k], w.files[k+1:]...)
		return []manifest.Edit{{Type: manifest.EditDeleteFile, File: &manifest.FileMeta{Level: f.level, FileID: f.id}}}
	case "move":
		f, k, ok := pick()
		if !ok {
			return nil
		}
		to := (f.level + 1) % 7
		w.files[k] = fileRef{level: to, id: f.id}
		return []manifest.Edit{
			{Type: manifest.EditDeleteFile, File: &manifest.FileMeta{Level: f.level, FileID: f.id}},
			{Type: manifest.EditAddFile, File: meta(to, f.id)},
		}
	case "logptr":
		return []manifest.Edit{{Type: manifest.EditLogPointer, LogSeg: uint32(bigU(r)), LogOffset: bigU(r)}}
	case "vhead":
		return []manifest.Edit{{Type: manifest.EditValueLogHead, ValueLog: &manifest.ValueLogMeta{Bucket: uint32(op.A % 3), FileID: uint32(op.A / 3 % 4), Offset: bigU(r), Valid: true}}}
	case "vdel":
		return []manifest.Edit{{Type: manifest.EditDeleteValueLog, ValueLog: &manifest.ValueLogMeta{Bucket: uint32(op.A % 3), FileID: uint32(op.A / 3 % 4)}}}
	case "vupd":
		m := &manifest.ValueLogMeta{Bucket: uint32(op.A % 3), FileID: uint32(op.A / 3 % 4), Offset: bigU(r), Valid: op.C%4 != 0}
		if !m.Valid && op.C%8 != 0 {
			m.Offset = 0 // what vlog.removeValueLogFile's rollback writes for an already deleted file
		}
		return []manifest.Edit{{Type: manifest.EditUpdateValueLog, ValueLog: m}}
	case "raft":
		p := &manifest.RaftLogPointer{GroupID: uint64(op.A%3) + 1, Segment: uint32(bigU(r)), Offset: bigU(r), AppliedIndex: bigU(r), AppliedTerm: bigU(r),
			Committed: bigU(r), SnapshotIndex: bigU(r), SnapshotTerm: bigU(r), TruncatedIndex: bigU(r), TruncatedTerm: bigU(r), SegmentIndex: bigU(r), TruncatedOffset: bigU(r)}
		return []manifest.Edit{{Type: manifest.EditRaftPointer, Raft: p}}
	case "region":
		rm := manifest.RegionMeta{ID: uint64(op.A%4) + 1, StartKey: bytesFrom(r, 10), EndKey: bytesFrom(r, 10),
			Epoch: manifest.RegionEpoch{Version: bigU(r), ConfVersion: bigU(r)}, State: manifest.RegionState(r.Intn(4))}
		for k := r.Intn(4); k > 0; k-- {
			rm.Peers = append(rm.Peers, manifest.PeerMeta{StoreID: bigU(r), PeerID: bigU(r)})
		}
		return []manifest.Edit{{Type: manifest.EditRegion, Region: &manifest.RegionEdit{Meta: rm}}}
	case "regiondel":
		return []manifest.Edit{{Type: manifest.EditRegion, Region: &manifest.RegionEdit{Meta: manifest.RegionMeta{ID: uint64(op.A%4) + 1}, Delete: true}}}
	}
	return nil
}

func (w *c15World) configure(m *manifest.Manager) {
	m.SetRewriteThreshold(w.c.CfgInt("rewrite_threshold", 0))
	m.SetSync(w.c.CfgInt("manifest_sync", 0) == 1)
}

// openImage verifies and opens a directory the way DB.Open does.
func openImage(dir string) (*manifest.Manager, string, error) {
	var verr error
	if perr := guard(func() { verr = manifest.Verify(dir, nil) }); perr != nil {
		verr = perr
	}
	if verr != nil && !errors.Is(verr, os.ErrNotExist) {
		return nil, "verify", verr
	}
	var m *manifest.Manager
	var oerr error
	if perr := guard(func() { m, oerr = manifest.Open(dir, nil) }); perr != nil {
		oerr = perr
	}
	if oerr != nil {
		return nil, "open", oerr
	}
	return m, "", nil
}

// crashPoint is SimFS's BeforeMutation hook: cut an image and judge it now.
func (w *c15World) crashPoint(ev sim.FSEvent, torn int64) {
	res := w.res
	w.imgSeq++
	img := filepath.Join(sim.Scratch(), fmt.Sprintf("c15img-%d", w.imgSeq))
	_ = os.RemoveAll(img)
	defer os.RemoveAll(img)
	if err := sim.CopyTree(w.dir, img); err != nil {
		res.Violate(w.step, "harness", nil, "CopyTree: %v", err)
		return
	}
	res.Faults["crash_images"]++
	res.Faults["crash_at_"+ev.Op+"_"+ev.Class]++
	if ev.Op == "write" && ev.Off+ev.Size > 4096 {
		res.Probes["write_beyond_first_page"]++
	}
	tornS := "no"
	if torn > 0 {
		tornS = "yes"
		res.Faults["crash_images_page_torn"]++
	}
	sig := map[string]string{"call": w.callKind, "at": ev.Op + "/" + ev.Class, "torn": tornS}
	m, stage, err := openImage(img)
	res.Checks++
	if err != nil {
		res.Trace.Add("img %s torn=%d %s err=%s", ev.Op+"/"+ev.Class, torn, stage, errS(err))
		res.Violate(w.step, "crash_"+stage+"_error", sig, "crash before %s (torn=%d) during %s with %d edits acknowledged, %d issued: %s: %v", ev.String(), torn, w.callKind, w.acked, w.issued, stage, err)
		return
	}
	got := canon(m.Current(), true)
	_ = m.Close()
	match := -1
	for _, j := range []int{w.issued, w.acked} { // the two whole-call outcomes first
		if match < 0 && j < len(w.snapsNorm) && diffCanon(got, w.snapsNorm[j]) == "" {
			match = j
		}
	}
	for j := w.acked + 1; match < 0 && j < w.issued && j < len(w.snapsNorm); j++ {
		if diffCanon(got, w.snapsNorm[j]) == "" {
			match = j
		}
	}
	res.Trace.Add("img %s torn=%d prefix=%d [%d,%d]", ev.Op+"/"+ev.Class, torn, match, w.acked, w.issued)
	if match >= 0 {
		if match > w.acked && match < w.issued {
			res.Probes["image_with_partial_batch"]++
		}
		return
	}
	// Diagnose: does it equal an older prefix (acknowledged edits lost) or nothing at all?
	kind := "no_prefix"
	for j := 0; j < w.acked && j < len(w.snapsNorm); j++ {
		if diffCanon(got, w.snapsNorm[j]) == "" {
			kind = "acknowledged_edits_lost"
		}
	}
	sig["kind"] = kind
	sec := diffCanon(got, w.snapsNorm[w.acked])
	res.Violate(w.step, "crash_state_mismatch", sig, "crash before %s (torn=%d) during %s: the image opens to a state that is not the state after j edits for any j in [%d,%d] (%s); first differing section vs j=%d: %s: %s",
		ev.String(), torn, w.callKind, w.acked, w.issued, kind, w.acked, sec, firstDiffLine(got[sec], w.snapsNorm[w.acked][sec]))
}

// reloadCheck is part (1): a copy of the directory must open to the in-memory state.
func (w *c15World) reloadCheck() {
	res := w.res
	w.imgSeq++
	img := filepath.Join(sim.Scratch(), fmt.Sprintf("c15img-%d", w.imgSeq))
	_ = os.RemoveAll(img)
	defer os.RemoveAll(img)
	if err := sim.CopyTree(w.dir, img); err != nil {
		res.Violate(w.step, "harness", nil, "CopyTree: %v", err)
		return
	}
	rewritten := "no"
	if b, err := os.ReadFile(filepath.Join(w.dir, "CURRENT")); err == nil && strings.TrimSpace(string(b)) != "MANIFEST-000001" {
		rewritten = "yes"
	}
	m, stage, err := openImage(img)
	res.Checks++
	if err != nil {
		res.Violate(w.step, "reload_"+stage+"_error", map[string]string{"rewritten": rewritten}, "after %s: %s of a copy of the directory: %v", w.callKind, stage, err)
		return
	}
	reloaded := m.Current()
	_ = m.Close()
	live := w.m.Current()
	a, b := canon(reloaded, false), canon(live, false)
	sec := diffCanon(a, b)
	res.Trace.Add("reload after %s rewritten=%s diff=%s", w.callKind, rewritten, sec)
	if sec == "" {
		return
	}
	field := sec
	if sec == "value_logs" && diffCanon(canon(reloaded, true), canon(live, true)) == "" {
		field = "value_logs_offset_of_invalid_entry"
	}
	res.Violate(w.step, "reload_mismatch", map[string]string{"field": field, "rewritten": rewritten},
		"after %s (edit #%d): reloaded state differs from Current() in %s: reloaded %s in memory", w.callKind, w.acked, sec, firstDiffLine(a[sec], b[sec]))
}

func execC15(t *testing.T, c *sim.Case) *sim.Result {
	res := sim.NewResult()
	dir := newDir("c15-")
	shDir := newDir("c15sh-")
	defer os.RemoveAll(dir)
	defer os.RemoveAll(shDir)
	w := &c15World{c: c, res: res, dir: dir}
	w.fs = sim.NewSimFS(dir)
	w.fs.Trace = res.Trace
	w.fs.BeforeMutation = w.crashPoint
	sh, err := manifest.Open(shDir, nil)
	if err != nil {
		res.Violate(0, "harness", nil, "shadow open: %v", err)
		return res
	}
	sh.SetRewriteThreshold(0)
	sh.SetSync(false)
	w.sh = sh
	defer func() { _ = w.sh.Close() }()
	w.snapshotShadow() // state after 0 edits
	w.callKind = "open"
	m, err := manifest.Open(dir, w.fs)
	if err != nil {
		res.Violate(0, "open_error", nil, "manifest.Open on an empty directory: %v", err)
		return res
	}
	w.m = m
	w.configure(m)
	defer func() {
		if w.m != nil {
			_ = w.m.Close()
		}
	}()
	w.reloadCheck()

	var batch []manifest.Edit
	runBatch := func() {
		if len(batch) == 0 {
			return
		}
		edits := batch
		batch = nil
		for _, e := range edits {
			if err := w.sh.LogEdit(e); err != nil {
				res.Violate(w.step, "harness", nil, "shadow LogEdit: %v", err)
			}
			w.snapshotShadow()
		}
		w.issued = w.acked + len(edits)
		w.callKind = "edit"
		if len(edits) > 1 {
			w.callKind = "edit_batch"
			res.Probes["batched_call"]++
		}
		mfile, msize := w.manifestFile()
		ackedBefore := w.acked
		var err error
		if perr := guard(func() { err = w.m.LogEdits(edits...) }); perr != nil {
			err = perr
		}
		if err == nil {
			w.tornAppendCheck(mfile, msize, ackedBefore)
		}
		res.Trace.Add("LogEdits n=%d type0=%d err=%s", len(edits), edits[0].Type, errS(err))
		if err != nil {
			res.Violate(w.step, "edit_error", nil, "LogEdits(%d edits): %v", len(edits), err)
		}
		w.acked = w.issued
		w.reloadCheck()
	}
	for i, op := range c.Ops {
		w.step = i
		res.Steps++
		sim.Beat()
		switch op.K {
		case "rewrite":
			runBatch()
			w.callKind = "rewrite"
			err := w.m.Rewrite()
			res.Trace.Add("Rewrite err=%s", errS(err))
			if err != nil {
				res.Violate(i, "rewrite_error", nil, "Rewrite: %v", err)
			}
			res.Faults["explicit_rewrite"]++
			w.reloadCheck()
		case "reopen":
			runBatch()
			w.callKind = "reopen"
			live := canon(w.m.Current(), false)
			if err := w.m.Close(); err != nil {
				res.Violate(i, "close_error", nil, "Close: %v", err)
			}
			w.m = nil
			if err := manifest.Verify(dir, w.fs); err != nil {
				res.Violate(i, "reload_verify_error", map[string]string{"rewritten": "live"}, "Verify after clean Close: %v", err)
			}
			m, err := manifest.Open(dir, w.fs)
			if err != nil {
				res.Violate(i, "reload_open_error", map[string]string{"rewritten": "live"}, "Open after clean Close: %v", err)
				return res
			}
			w.m = m
			w.configure(m)
			res.Faults["clean_reopen"]++
			res.Checks++
			if sec := diffCanon(canon(m.Current(), false), live); sec != "" {
				field := sec
				if sec == "value_logs" && diffCanon(canon(m.Current(), true), w.snapsNorm[w.acked]) == "" {
					field = "value_logs_offset_of_invalid_entry"
				}
				res.Violate(i, "reload_mismatch", map[string]string{"field": field, "rewritten": "live"}, "clean Close/Open changed %s: %s", sec, firstDiffLine(canon(m.Current(), false)[sec], live[sec]))
			}
		case "rafttrunc":
			runBatch()
			group := uint64(op.A%3) + 1
			r := sim.NewRand(uint64(op.B), i, 16)
			idx, term, seg, off := uint64(r.Intn(50)), uint64(r.Intn(5)), uint32(r.Intn(3)), uint64(r.Intn(3)*100)
			if err := w.sh.LogRaftTruncate(group, idx, term, seg, off); err != nil {
				res.Violate(i, "harness", nil, "shadow LogRaftTruncate: %v", err)
			}
			w.snapshotShadow()
			w.issued = w.acked + 1
			w.callKind = "raft_truncate"
			err := w.m.LogRaftTruncate(group, idx, term, seg, off)
			res.Trace.Add("LogRaftTruncate g=%d idx=%d err=%s", group, idx, errS(err))
			if err != nil {
				res.Violate(i, "edit_error", nil, "LogRaftTruncate: %v", err)
			}
			w.acked = w.issued
			w.reloadCheck()
		default:
			es := w.edits(i, op)
			if len(es) == 0 {
				continue
			}
			batch = append(batch, es...)
			if op.D%2 == 0 || len(batch) >= 4 {
				runBatch()
			}
		}
	}
	runBatch()
	if c.CfgInt("io_fail", 0) == 1 && w.m != nil {
		w.ioFailEpilogue()
	}
	if b, err := os.ReadFile(filepath.Join(dir, "CURRENT")); err == nil && strings.TrimSpace(string(b)) != "MANIFEST-000001" {
		res.Probes["runs_with_rewrite"]++
	}
	res.Nontrivial = res.Faults["crash_images"] > 0 && w.acked > 0
	return res
}

// ioFailEpilogue: an explicit rewrite meets one injected I/O error on a step of the pointer switch (the CURRENT
// temporary file or its rename). The rewrite may fail; the manifest stays usable: every later edit that returns
// success is in memory and must be in a reload (copy of the directory, and clean Close + Open). The shadow manager is
// not consulted here (whether the failed call counts is the implementation's choice): the oracle is the property's own
// "reloaded state equals the in-memory state".
func (w *c15World) ioFailEpilogue() {
	res := w.res
	w.fs.BeforeMutation = nil // crash images inside these calls are judged against the shadow, which is not kept here
	which := (w.c.Seed + uint64(w.c.Run)) % 2
	fired := false
	w.fs.Fail = func(ev sim.FSEvent) error {
		if fired || !strings.Contains(ev.Path, "CURRENT") {
			return nil
		}
		if (which == 0 && ev.Op == "rename") || (which == 1 && ev.Op != "rename") {
			fired = true
			return errors.New("verif: injected disk error")
		}
		return nil
	}
	w.callKind = "rewrite_with_disk_error"
	var err error
	if perr := guard(func() { err = w.m.Rewrite() }); perr != nil {
		res.Violate(w.step, "sut_crash", map[string]string{"after": "injected_disk_error"}, "Rewrite panicked on an injected disk error: %v", perr)
		return
	}
	w.fs.Fail = nil
	res.Trace.Add("Rewrite(disk error fired=%v) failed=%v", fired, err != nil)
	if !fired {
		return
	}
	res.Faults["disk_error_in_pointer_switch"]++
	if err != nil {
		res.Probes["rewrite_failed_by_disk_error"]++
	}
	w.reloadCheck()
	n := 0
	for i, op := range w.c.Ops {
		if n >= 5 {
			break
		}
		if op.K == "rewrite" || op.K == "reopen" || op.K == "rafttrunc" {
			continue
		}
		es := w.edits(len(w.c.Ops)+i, op)
		if len(es) == 0 {
			continue
		}
		n++
		w.step = len(w.c.Ops) + i
		w.callKind = "edit_after_failed_rewrite"
		var eerr error
		if perr := guard(func() { eerr = w.m.LogEdits(es...) }); perr != nil {
			eerr = perr
		}
		res.Trace.Add("LogEdits after disk error err=%s", errS(eerr))
		if eerr != nil {
			res.Violate(w.step, "edit_error", map[string]string{"after": "injected_disk_error"}, "LogEdits after a failed rewrite: %v", eerr)
			return
		}
		w.reloadCheck()
	}
	live := canon(w.m.Current(), false)
	if err := w.m.Close(); err != nil {
		res.Violate(w.step, "close_error", map[string]string{"after": "injected_disk_error"}, "Close: %v", err)
	}
	w.m = nil
	m, err := manifest.Open(w.dir, w.fs)
	if err != nil {
		res.Violate(w.step, "reload_open_error", map[string]string{"after": "injected_disk_error"}, "Open after clean Close: %v", err)
		return
	}
	w.m = m
	res.Checks++
	if sec := diffCanon(canon(m.Current(), false), live); sec != "" {
		res.Violate(w.step, "reload_mismatch", map[string]string{"field": sec, "after": "injected_disk_error"}, "clean Close/Open after a failed rewrite changed %s: %s", sec, firstDiffLine(canon(m.Current(), false)[sec], live[sec]))
	}
}

// manifestFile returns the path and size of the manifest file CURRENT names.
func (w *c15World) manifestFile() (string, int64) {
	b, err := os.ReadFile(filepath.Join(w.dir, "CURRENT"))
	if err != nil {
		return "", 0
	}
	p := filepath.Join(w.dir, strings.TrimSpace(string(b)))
	st, err := os.Stat(p)
	if err != nil {
		return "", 0
	}
	return p, st.Size()
}

// tornAppendCheck enumerates EVERY byte position inside the bytes the last call
// appended to the manifest file (a crash "at any point during an edit": the
// file ends somewhere inside the append). Each such image must verify and open
// to the state after some prefix of the edits in [ackedBefore, issued].
func (w *c15World) tornAppendCheck(file string, sizeBefore int64, ackedBefore int) {
	cur, sizeAfter := w.manifestFile()
	if cur == "" || cur != file || sizeAfter <= sizeBefore || sizeAfter-sizeBefore > 4096 {
		return // rewritten during the call, nothing appended, or too large to enumerate
	}
	res := w.res
	for cut := sizeBefore + 1; cut < sizeAfter; cut++ {
		w.imgSeq++
		img := filepath.Join(sim.Scratch(), fmt.Sprintf("c15cut-%d", w.imgSeq))
		_ = os.RemoveAll(img)
		if err := sim.CopyTree(w.dir, img); err != nil {
			_ = os.RemoveAll(img)
			return
		}
		_ = os.Truncate(filepath.Join(img, filepath.Base(cur)), cut)
		res.Faults["append_cut_images"]++
		res.Checks++
		sig := map[string]string{"call": w.callKind, "at": "append_cut", "torn": "byte"}
		m, stage, err := openImage(img)
		if err != nil {
			res.Violate(w.step, "crash_"+stage+"_error", sig, "manifest append cut %d bytes into the %d bytes written by %s (%d edits acknowledged before, %d issued): %s: %v", cut-sizeBefore, sizeAfter-sizeBefore, w.callKind, ackedBefore, w.issued, stage, err)
			_ = os.RemoveAll(img)
			continue
		}
		got := canon(m.Current(), true)
		_ = m.Close()
		_ = os.RemoveAll(img)
		match := false
		for j := ackedBefore; j <= w.issued && j < len(w.snapsNorm); j++ {
			if diffCanon(got, w.snapsNorm[j]) == "" {
				match = true
				break
			}
		}
		if !match {
			sig["kind"] = "no_prefix"
			res.Violate(w.step, "crash_state_mismatch", sig, "manifest append cut %d bytes into the %d bytes written by %s: the image opens to a state that is not the state after j edits for any j in [%d,%d]", cut-sizeBefore, sizeAfter-sizeBefore, w.callKind, ackedBefore, w.issued)
		}
	}
}
