package zz

import (
	"bytes"
	"encoding/binary"
	"fmt"
	"runtime/debug"
	"testing"
	"time"

	"github.com/feichai0017/NoKV/wal"
)

func TestProbe(t *testing.T) {
	debug.SetGCPercent(200)
	var buf bytes.Buffer
	wal.EncodeRecord(&buf, 1, []byte("hello world"))
	base := buf.Bytes()
	for bit := 0; bit < 32; bit++ {
		b := append([]byte(nil), base...)
		l := binary.BigEndian.Uint32(b[:4]) ^ (1 << uint(bit))
		binary.BigEndian.PutUint32(b[:4], l)
		t0 := time.Now()
		for k := 0; k < 20; k++ {
			_, _, _, err := wal.DecodeRecord(bytes.NewReader(b))
			_ = err
		}
		fmt.Printf("len bit %2d: %v per decode\n", bit, time.Since(t0)/20)
	}
}
