// Package logsim is engine E3: the log-structured components alone
// (wal.Manager, manifest.Manager, vlog.Manager, engine.WALStorage, one SST
// through the lsm accessor) on SimFS / a scratch directory, with exhaustive
// enumeration over cut, flip and crash positions of generated small files.
// Nothing here needs a scheduler or a fake clock: every component is driven
// synchronously by the case's step list.
package logsim

import (
	"fmt"
	"io"
	"log"
	"os"
	"path/filepath"
	"runtime"
	"runtime/debug"
	"runtime/metrics"
	"sort"
	"strings"
	"testing"

	"verif/sim"
)

var props = map[string]sim.PropSpec{}

// noShrink lets the sensitivity experiments (deliberately broken scratch
// copies, many violation kinds at once) skip minimisation: LOGSIM_NOSHRINK=1.
// Registered checks never set it.
var noShrink = os.Getenv("LOGSIM_NOSHRINK") != ""

func TestVerif(t *testing.T) { sim.Main(t, "logsim", props) }

func init() { log.SetOutput(io.Discard) }

var dirSeq int

// newDir creates a fresh per-run scratch directory on tmpfs.
func newDir(tag string) string {
	dirSeq++
	d := filepath.Join(sim.Scratch(), fmt.Sprintf("%s%d", tag, dirSeq))
	_ = os.RemoveAll(d)
	_ = os.MkdirAll(d, 0o755)
	return d
}

// fill builds a payload of n bytes whose content is a function of (kind, tag):
// kind 0 = zeros, 1 = 0xff, 2 = a byte pattern seeded by tag. When n > 0 the
// first bytes carry the tag so that records of a case are pairwise distinct.
func fill(n int, kind int64, tag uint64) []byte {
	b := make([]byte, n)
	switch kind % 3 {
	case 0:
	case 1:
		for i := range b {
			b[i] = 0xff
		}
	default:
		x := tag*0x9e3779b97f4a7c15 + 1
		for i := range b {
			x ^= x << 13
			x ^= x >> 7
			x ^= x << 17
			b[i] = byte(x)
		}
	}
	for i := 0; i < 4 && i < n; i++ {
		b[i] = byte(tag >> (8 * uint(i)))
	}
	return b
}

func head(b []byte) string {
	if len(b) > 12 {
		return fmt.Sprintf("%x..(%d)", b[:12], len(b))
	}
	return fmt.Sprintf("%x", b)
}

func sortedInts(m map[int]struct{}) []int {
	out := make([]int, 0, len(m))
	for k := range m {
		out = append(out, k)
	}
	sort.Ints(out)
	return out
}

var allocSample = []metrics.Sample{{Name: "/gc/heap/allocs:bytes"}}

func allocatedBytes() uint64 {
	metrics.Read(allocSample)
	return allocSample[0].Value.Uint64()
}

// gcPacer runs the collector by hand during a bit-flip enumeration. A flipped
// length field makes the decoders allocate up to 4 GiB that are never touched;
// with the automatic collector every such allocation starts a cycle, the
// allocating goroutine is drafted into mark assists, and the freed span is
// zeroed on reuse (seconds and gigabytes of resident memory per flip). With the
// collector off each allocation is a fresh, untouched mapping; after the flip
// the memory is handed back to the OS in one step. Purely a cost measure: it
// does not influence what the SUT returns.
type gcPacer struct {
	last, sinceGC uint64
}

func startGCPacer() (*gcPacer, func()) {
	old := debug.SetGCPercent(-1)
	p := &gcPacer{last: allocatedBytes()}
	return p, func() {
		debug.SetGCPercent(old)
	}
}

// after is called once per flip; it reports whether the flip made the SUT
// allocate more than 8 MiB.
func (p *gcPacer) after() bool {
	cur := allocatedBytes()
	d := cur - p.last
	p.last = cur
	p.sinceGC += d
	switch {
	case d > 8<<20:
		debug.FreeOSMemory()
		p.sinceGC = 0
		p.last = allocatedBytes()
		return true
	case p.sinceGC > 24<<20:
		runtime.GC()
		p.sinceGC = 0
		p.last = allocatedBytes()
	}
	return false
}

// errS renders an error for the trace without process-specific directory names.
func errS(err error) string {
	if err == nil {
		return "<nil>"
	}
	return strings.ReplaceAll(err.Error(), sim.Scratch(), "$S")
}

func guard(fn func()) (perr error) {
	defer func() {
		if r := recover(); r != nil {
			perr = fmt.Errorf("panic: %v", r)
		}
	}()
	fn()
	return nil
}
