// Package logsim is engine E3: the log-structured components alone
// (wal.Manager, manifest.Manager, vlog.Manager, engine.WALStorage, one SST
// through the lsm accessor) on SimFS / a scratch directory, with exhaustive
// enumeration over cut, flip and crash positions of generated small files.
// Nothing here needs a scheduler or a fake clock: every component is driven
// synchronously by the case's step list.
package logsim

import (
	"fmt"
	"io"
	"log"
	"os"
	"path/filepath"
	"runtime/debug"
	"runtime/metrics"
	"sort"
	"testing"

	"verif/sim"
)

var props = map[string]sim.PropSpec{}

func TestVerif(t *testing.T) { sim.Main(t, "logsim", props) }

func init() { log.SetOutput(io.Discard) }

var dirSeq int

// newDir creates a fresh per-run scratch directory on tmpfs.
func newDir(tag string) string {
	dirSeq++
	d := filepath.Join(sim.Scratch(), fmt.Sprintf("%s%d", tag, dirSeq))
	_ = os.RemoveAll(d)
	_ = os.MkdirAll(d, 0o755)
	return d
}

// fill builds a payload of n bytes whose content is a function of (kind, tag):
// kind 0 = zeros, 1 = 0xff, 2 = a byte pattern seeded by tag. When n > 0 the
// first bytes carry the tag so that records of a case are pairwise distinct.
func fill(n int, kind int64, tag uint64) []byte {
	b := make([]byte, n)
	switch kind % 3 {
	case 0:
	case 1:
		for i := range b {
			b[i] = 0xff
		}
	default:
		x := tag*0x9e3779b97f4a7c15 + 1
		for i := range b {
			x ^= x << 13
			x ^= x >> 7
			x ^= x << 17
			b[i] = byte(x)
		}
	}
	for i := 0; i < 4 && i < n; i++ {
		b[i] = byte(tag >> (8 * uint(i)))
	}
	return b
}

func head(b []byte) string {
	if len(b) > 12 {
		return fmt.Sprintf("%x..(%d)", b[:12], len(b))
	}
	return fmt.Sprintf("%x", b)
}

func sortedInts(m map[int]struct{}) []int {
	out := make([]int, 0, len(m))
	for k := range m {
		out = append(out, k)
	}
	sort.Ints(out)
	return out
}

var allocSample = []metrics.Sample{{Name: "/gc/heap/allocs:bytes"}}
var lastAllocBytes uint64

// releaseIfHuge returns freed address space to the OS when the SUT allocated a
// huge buffer since the previous call (a flipped length field makes the
// decoders allocate up to 4 GiB that are never touched). Without this the Go
// heap would reuse and zero the span on the next such allocation, which costs
// seconds and gigabytes of resident memory. Purely a cost measure: it does not
// influence what the SUT returns.
func releaseIfHuge() bool {
	metrics.Read(allocSample)
	cur := allocSample[0].Value.Uint64()
	d := cur - lastAllocBytes
	lastAllocBytes = cur
	if d > 8<<20 {
		debug.FreeOSMemory()
		metrics.Read(allocSample)
		lastAllocBytes = allocSample[0].Value.Uint64()
		return true
	}
	return false
}

func guard(fn func()) (perr error) {
	defer func() {
		if r := recover(); r != nil {
			perr = fmt.Errorf("panic: %v", r)
		}
	}()
	fn()
	return nil
}
