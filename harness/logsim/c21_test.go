package logsim

import (
	"bytes"
	"errors"
	"fmt"
	"math"
	"os"
	"path/filepath"
	"testing"

	"github.com/feichai0017/NoKV/manifest"
	myraft "github.com/feichai0017/NoKV/raft"
	"github.com/feichai0017/NoKV/raftstore/engine"
	"github.com/feichai0017/NoKV/wal"

	"verif/sim"
)

// C21: Persisted raft state and log survive a process crash.
//
// engine.OpenWALStorage runs over a real wal.Manager (opened exactly as a store
// opens the database's WAL: no SyncOnWrite, default 256 KiB buffer) and a real
// manifest.Manager in the same directory on SimFS. The generated steps are
// turned into the calls a peer issues for a Ready (SetHardState, ApplySnapshot,
// Append, later MaybeCompact), mirrored into an etcd raft MemoryStorage. A
// process-crash image is cut at every state-changing FS event inside a call
// (page-torn variants included) and at the instant each call returns. An image
// must open without error (manifest.Verify, wal.VerifyDir, wal.Open,
// manifest.Open, OpenWALStorage) and show the model state after all returned
// calls (for an image cut inside a call: with or without that call).

func init() { props["C21"] = sim.PropSpec{Gen: genC21, Exec: execC21, NoShrink: noShrink} }

type quietRaftLogger struct{}

func (quietRaftLogger) Debug(...any)              {}
func (quietRaftLogger) Debugf(string, ...any)     {}
func (quietRaftLogger) Info(...any)               {}
func (quietRaftLogger) Infof(string, ...any)      {}
func (quietRaftLogger) Warning(...any)            {}
func (quietRaftLogger) Warningf(string, ...any)   {}
func (quietRaftLogger) Error(...any)              {}
func (quietRaftLogger) Errorf(string, ...any)     {}
func (quietRaftLogger) Fatal(v ...any)            { panic(fmt.Sprint(v...)) }
func (quietRaftLogger) Fatalf(f string, v ...any) { panic(fmt.Sprintf(f, v...)) }
func (quietRaftLogger) Panic(v ...any)            { panic(fmt.Sprint(v...)) }
func (quietRaftLogger) Panicf(f string, v ...any) { panic(fmt.Sprintf(f, v...)) }

func genC21(r *sim.Rand, tier string) *sim.Case {
	c := &sim.Case{Cfg: map[string]int64{
		"segment_size":     r.Pick64(0, 0, 64<<10), // 0 = the 64 MiB default a store runs with
		"manifest_rewrite": r.Pick64(0, 0, 2048),   // 0 = default threshold
		"group":            r.Pick64(1, 1, 5),
		"noise":            r.Pick64(0, 1, 2),
	}}
	n := 6 + r.Intn(40)
	if tier == "thorough" {
		n = 10 + r.Intn(120)
	}
	big := r.Chance(1, 4) // some runs carry entries large enough to spill the 256 KiB buffer
	for i := 0; i < n; i++ {
		switch x := r.Intn(20); {
		case x < 4:
			c.Ops = append(c.Ops, sim.Op{K: "hs", A: int64(r.Intn(3)), B: int64(r.Intn(3))})
		case x < 13:
			sz := int64(r.Intn(5))
			if big && r.Chance(1, 2) {
				sz = 5
			}
			c.Ops = append(c.Ops, sim.Op{K: "app", A: int64(r.Intn(4)), B: int64(r.Intn(4)), C: int64(r.Intn(8)), D: sz})
		case x == 13:
			c.Ops = append(c.Ops, sim.Op{K: "snap", A: int64(r.Intn(5)), B: int64(r.Intn(3)), C: int64(r.Intn(4))})
		case x < 16:
			c.Ops = append(c.Ops, sim.Op{K: "compact", A: int64(r.Intn(2)), B: int64(r.Intn(3))})
		case x < 19:
			c.Ops = append(c.Ops, sim.Op{K: "noise", A: int64(r.Intn(4)), B: int64(r.Intn(3))})
		default:
			c.Ops = append(c.Ops, sim.Op{K: "walsync"})
		}
	}
	return c
}

// raftState is a snapshot of the reference model (or of a recovered storage).
type raftState struct {
	hs       myraft.HardState
	snapIdx  uint64
	snapTerm uint64
	snapData []byte
	first    uint64
	last     uint64
	ents     []myraft.Entry // indices first..last
}

func captureStorage(s myraft.Storage) (st raftState, err error) {
	hs, _, err := s.InitialState()
	if err != nil {
		return st, fmt.Errorf("InitialState: %w", err)
	}
	st.hs = hs
	snap, err := s.Snapshot()
	if err != nil {
		return st, fmt.Errorf("Snapshot: %w", err)
	}
	st.snapIdx, st.snapTerm, st.snapData = snap.Metadata.Index, snap.Metadata.Term, snap.Data
	if st.first, err = s.FirstIndex(); err != nil {
		return st, fmt.Errorf("FirstIndex: %w", err)
	}
	if st.last, err = s.LastIndex(); err != nil {
		return st, fmt.Errorf("LastIndex: %w", err)
	}
	if st.last >= st.first {
		ents, err := s.Entries(st.first, st.last+1, math.MaxUint64)
		if err != nil {
			return st, fmt.Errorf("Entries(%d,%d): %w", st.first, st.last+1, err)
		}
		st.ents = append([]myraft.Entry(nil), ents...)
	}
	return st, nil
}

func (s raftState) String() string {
	return fmt.Sprintf("{hs=%d/%d/%d snap=%d@%d log=[%d,%d]}", s.hs.Term, s.hs.Vote, s.hs.Commit, s.snapIdx, s.snapTerm, s.first, s.last)
}

// matches reports "" when the recovered state r carries everything model state
// s has: same hard state, same snapshot, same last index, and every entry the
// model still holds (r may keep older entries: compaction is not replayed).
func (r raftState) matches(s raftState) string {
	if r.hs.Term != s.hs.Term || r.hs.Vote != s.hs.Vote || r.hs.Commit != s.hs.Commit {
		return "hard_state"
	}
	if r.snapIdx != s.snapIdx || r.snapTerm != s.snapTerm || !bytes.Equal(r.snapData, s.snapData) {
		return "snapshot"
	}
	if r.last != s.last || r.first > s.first {
		return "log_range"
	}
	for _, e := range s.ents {
		g := r.ents[e.Index-r.first]
		if g.Index != e.Index || g.Term != e.Term || g.Type != e.Type || !bytes.Equal(g.Data, e.Data) {
			return "log_entry"
		}
	}
	return ""
}

type c21World struct {
	c     *sim.Case
	res   *sim.Result
	dir   string
	fs    *sim.SimFS
	wal   *wal.Manager
	man   *manifest.Manager
	ws    *engine.WALStorage
	other *engine.WALStorage
	model *myraft.MemoryStorage
	// states[k] = model after k calls; returned = number of calls that returned.
	states   []raftState
	returned int
	inflight bool
	callName string
	// walMark is the logical end of the WAL when the last call returned.
	walMarkSeg  uint32
	walMarkSize int64
	modelTrunc  uint64
	step        int
	imgSeq      int
	// peer-side bookkeeping used to generate legal calls
	term, vote, commit, lastIdx uint64
	terms                       map[uint64]uint64
	otherIdx                    uint64
}

func (w *c21World) walConfig(dir string, fsys *sim.SimFS) wal.Config {
	cfg := wal.Config{Dir: dir, SyncOnWrite: false, SegmentSize: w.c.CfgInt("segment_size", 0)}
	if fsys != nil {
		cfg.FS = fsys
	}
	return cfg
}

func (w *c21World) group() uint64 { return uint64(w.c.CfgInt("group", 1)) }

// openStore opens WAL, manifest and storage the way a store does at start-up.
func openStore(dir string, walCfg wal.Config, group uint64, rewrite int64, fsys *sim.SimFS) (wm *wal.Manager, mm *manifest.Manager, ws *engine.WALStorage, stage string, err error) {
	run := func(st string, fn func() error) bool {
		stage = st
		if perr := guard(func() { err = fn() }); perr != nil {
			err = perr
		}
		return err == nil
	}
	closeAll := func() {
		if mm != nil {
			_ = mm.Close()
		}
		if wm != nil {
			_ = wm.Close()
		}
	}
	if !run("manifest_verify", func() error {
		var e error
		if fsys != nil {
			e = manifest.Verify(dir, fsys)
		} else {
			e = manifest.Verify(dir, nil)
		}
		if e != nil && errors.Is(e, os.ErrNotExist) {
			return nil
		}
		return e
	}) {
		return nil, nil, nil, stage, err
	}
	if !run("wal_verify", func() error {
		if fsys != nil {
			return wal.VerifyDir(dir, fsys)
		}
		return wal.VerifyDir(dir, nil)
	}) {
		return nil, nil, nil, stage, err
	}
	if !run("wal_open", func() error { var e error; wm, e = wal.Open(walCfg); return e }) {
		return nil, nil, nil, stage, err
	}
	if !run("manifest_open", func() error {
		var e error
		if fsys != nil {
			mm, e = manifest.Open(dir, fsys)
		} else {
			mm, e = manifest.Open(dir, nil)
		}
		if e == nil && rewrite > 0 {
			mm.SetRewriteThreshold(rewrite)
		}
		return e
	}) {
		closeAll()
		return nil, nil, nil, stage, err
	}
	if !run("open_wal_storage", func() error {
		var e error
		ws, e = engine.OpenWALStorage(engine.WALStorageConfig{GroupID: group, WAL: wm, Manifest: mm})
		return e
	}) {
		closeAll()
		return nil, nil, nil, stage, err
	}
	return wm, mm, ws, "", nil
}

// image cuts a process-crash image and judges it against the allowed model states.
func (w *c21World) image(at string, torn int64) {
	res := w.res
	w.imgSeq++
	img := filepath.Join(sim.Scratch(), fmt.Sprintf("c21img-%d", w.imgSeq))
	_ = os.RemoveAll(img)
	defer os.RemoveAll(img)
	if err := sim.CopyTree(w.dir, img); err != nil {
		res.Violate(w.step, "harness", nil, "CopyTree: %v", err)
		return
	}
	res.Faults["crash_images"]++
	moment := "inside_call"
	if !w.inflight {
		moment = "call_returned"
		res.Faults["crash_images_at_return"]++
	} else {
		res.Faults["crash_images_at_fs_event"]++
	}
	if torn > 0 {
		res.Faults["crash_images_page_torn"]++
	}
	// Is the kernel-held WAL shorter than what returned calls appended?
	unflushed := "no"
	if w.walMarkSeg != 0 {
		st, err := os.Stat(filepath.Join(img, fmt.Sprintf("%05d.wal", w.walMarkSeg)))
		if err != nil || st.Size() < w.walMarkSize {
			unflushed = "yes"
			res.Probes["image_missing_buffered_wal_bytes"]++
		}
	}
	allowed := []int{w.returned}
	if w.inflight {
		allowed = append(allowed, w.returned+1)
	}
	sig := map[string]string{"moment": moment, "wal_unflushed": unflushed}
	wm, mm, ws, stage, err := openStore(img, w.walConfig(img, nil), w.group(), 0, nil)
	res.Checks++
	if err != nil {
		res.Trace.Add("img %s torn=%d %s stage=%s failed", at, torn, moment, stage)
		sig["stage"] = stage
		res.Violate(w.step, "reopen_failed", sig, "crash image at %s (torn=%d, %s %s, %d calls returned, model %s): %s failed: %v",
			at, torn, moment, w.callName, w.returned, w.states[w.returned], stage, err)
		return
	}
	got, cerr := captureStorage(ws)
	_ = mm.Close()
	_ = wm.Close()
	if cerr != nil {
		sig["stage"] = "read_back"
		res.Violate(w.step, "reopen_failed", sig, "crash image at %s: reading the recovered storage: %v", at, cerr)
		return
	}
	part := ""
	okIdx := -1
	for _, k := range allowed {
		if k >= len(w.states) {
			continue
		}
		p := got.matches(w.states[k])
		if p == "" {
			okIdx = k
			break
		}
		if part == "" {
			part = p
		}
	}
	res.Trace.Add("img %s torn=%d %s -> %s match=%d", at, torn, moment, got, okIdx)
	if okIdx >= 0 {
		return
	}
	kind := "other"
	for k := w.returned - 1; k >= 0; k-- {
		if got.matches(w.states[k]) == "" {
			kind = "acknowledged_calls_lost"
			break
		}
	}
	sig["part"], sig["kind"] = part, kind
	res.Violate(w.step, "recovered_state_wrong", sig, "crash image at %s (torn=%d, %s %s): recovered %s, model after %d returned calls %s (%s differs, %s)",
		at, torn, moment, w.callName, got, w.returned, w.states[w.returned], part, kind)
}

// call runs one storage call: model first, then the SUT with crash points armed.
func (w *c21World) call(name string, modelFn func() error, sutFn func() error) {
	res := w.res
	if err := modelFn(); err != nil {
		res.Violate(w.step, "harness", nil, "model %s: %v", name, err)
		return
	}
	st, err := captureStorage(w.model)
	if err != nil {
		res.Violate(w.step, "harness", nil, "model capture: %v", err)
		return
	}
	w.states = append(w.states[:w.returned+1], st)
	w.callName = name
	w.inflight = true
	var serr error
	if perr := guard(func() { serr = sutFn() }); perr != nil {
		serr = perr
	}
	w.inflight = false
	res.Trace.Add("call %s err=%s", name, errS(serr))
	if serr != nil {
		res.Violate(w.step, "call_failed", map[string]string{"call": name}, "%s returned %v", name, serr)
		// The model keeps the call: a failed persist would stop the peer anyway.
	}
	w.returned++
	w.walMarkSeg, w.walMarkSize = w.wal.ActiveSegment(), w.wal.ActiveSize()
	res.Faults["storage_calls"]++
	w.image("return:"+name, -1)
}

func (w *c21World) setHardState() {
	hs := myraft.HardState{Term: w.term, Vote: w.vote, Commit: w.commit}
	if myraft.IsEmptyHardState(hs) {
		return
	}
	w.call("SetHardState", func() error { return w.model.SetHardState(hs) }, func() error { return w.ws.SetHardState(hs) })
}

func execC21(t *testing.T, c *sim.Case) *sim.Result {
	res := sim.NewResult()
	myraft.SetLogger(quietRaftLogger{})
	dir := newDir("c21-")
	defer os.RemoveAll(dir)
	w := &c21World{c: c, res: res, dir: dir, terms: map[uint64]uint64{}}
	w.fs = sim.NewSimFS(dir)
	w.fs.Trace = res.Trace
	wm, mm, ws, stage, err := openStore(dir, w.walConfig(dir, w.fs), w.group(), c.CfgInt("manifest_rewrite", 0), w.fs)
	if err != nil {
		res.Violate(0, "open_failed", map[string]string{"stage": stage}, "opening an empty store: %s: %v", stage, err)
		return res
	}
	w.wal, w.man, w.ws = wm, mm, ws
	defer func() {
		_ = w.man.Close()
		_ = w.wal.Close()
	}()
	if c.CfgInt("noise", 0) == 2 {
		o, err := engine.OpenWALStorage(engine.WALStorageConfig{GroupID: w.group() + 100, WAL: wm, Manifest: mm})
		if err == nil {
			w.other = o
		}
	}
	w.model = myraft.NewMemoryStorage()
	st0, _ := captureStorage(w.model)
	w.states = []raftState{st0}
	w.fs.BeforeMutation = func(ev sim.FSEvent, torn int64) {
		if !w.inflight {
			return // noise writes of other WAL users: the next return image covers them
		}
		res.Faults["crash_at_"+ev.Op+"_"+ev.Class]++
		w.image(ev.Op+"/"+ev.Class, torn)
	}
	sizes := []int{0, 10, 100, 1000, 5000, 45000}
	for i, op := range c.Ops {
		w.step = i
		res.Steps++
		sim.Beat()
		switch op.K {
		case "hs":
			switch op.A % 3 {
			case 1:
				w.term++
				w.vote = uint64(op.B%3) + 1
			case 2:
				if w.vote == 0 {
					w.vote = uint64(op.B%3) + 1
				}
			}
			if w.term == 0 {
				w.term = 1
			}
			if w.lastIdx > w.commit {
				w.commit += 1 + uint64(op.B)%(w.lastIdx-w.commit)
			}
			w.setHardState()
		case "app":
			if w.term == 0 {
				w.term = 1
				w.setHardState()
			}
			n := 1 + uint64(op.A)%4
			start := w.lastIdx + 1
			if op.B%4 == 0 && w.lastIdx > w.commit {
				// a new leader overwrites the uncommitted tail from start on
				start = w.commit + 1 + uint64(op.C)%(w.lastIdx-w.commit)
				if w.terms[start] >= w.term {
					w.term = w.terms[start] + 1
					w.vote = 0
					w.setHardState()
				}
				res.Faults["conflicting_append"]++
			}
			ents := make([]myraft.Entry, 0, n)
			for j := uint64(0); j < n; j++ {
				idx := start + j
				e := myraft.Entry{Index: idx, Term: w.term, Data: fill(sizes[int(uint64(op.D)%uint64(len(sizes)))], int64(j+2), uint64(i*16)+j+1)}
				if op.C%7 == 6 {
					e.Type = myraft.EntryConfChange
				}
				ents = append(ents, e)
			}
			w.call("Append", func() error { return w.model.Append(ents) }, func() error { return w.ws.Append(ents) })
			for k := range w.terms {
				if k >= start {
					delete(w.terms, k)
				}
			}
			for _, e := range ents {
				w.terms[e.Index] = e.Term
			}
			w.lastIdx = start + n - 1
		case "snap":
			if w.term == 0 {
				w.term = 1
			}
			idx := w.lastIdx + 1 + uint64(op.A)%5
			st := w.term
			if op.B%3 == 0 && w.lastIdx > w.commit {
				idx = w.commit + 1 + uint64(op.A)%(w.lastIdx-w.commit)
				if t := w.terms[idx]; t != 0 {
					st = t
				}
			}
			w.commit = idx
			w.setHardState() // handleReady persists the hard state before the snapshot
			snap := myraft.Snapshot{Metadata: myraft.SnapshotMetadata{Index: idx, Term: st, ConfState: myraft.ConfState{Voters: []uint64{1, 2, 3}}},
				Data: fill(20+int(op.C)*300, 2, uint64(i)+0x900)}
			w.call("ApplySnapshot", func() error { return w.model.ApplySnapshot(snap) }, func() error { return w.ws.ApplySnapshot(snap) })
			w.lastIdx = idx
			w.terms = map[uint64]uint64{idx: st}
			if idx > w.modelTrunc {
				w.modelTrunc = idx
			}
			res.Faults["snapshot_applied"]++
		case "compact":
			if w.commit == 0 {
				continue
			}
			applied := w.commit - uint64(op.A)%2
			retain := 1 + uint64(op.B)%3
			w.call("MaybeCompact", func() error {
				if applied == 0 || applied <= retain {
					return nil
				}
				target := applied - retain
				if target <= w.modelTrunc {
					return nil
				}
				if err := w.model.Compact(target); err != nil && !errors.Is(err, myraft.ErrCompacted) {
					return err
				}
				w.modelTrunc = target
				res.Faults["log_compacted"]++
				return nil
			}, func() error { return w.ws.MaybeCompact(applied, retain) })
		case "noise":
			// Other users of the shared WAL: LSM mutations, another raft group.
			if c.CfgInt("noise", 0) == 0 {
				continue
			}
			if w.other != nil && op.B%2 == 1 {
				w.otherIdx++
				_ = w.other.Append([]myraft.Entry{{Index: w.otherIdx, Term: 1, Data: fill(30, 2, uint64(i))}})
				res.Faults["other_group_append"]++
			} else {
				_, _ = w.wal.Append(fill([]int{8, 200, 3000, 70000}[uint64(op.A)%4], 2, uint64(i)))
				res.Faults["lsm_wal_append"]++
			}
		case "walsync":
			_ = w.wal.Sync()
			res.Faults["wal_sync_by_other_user"]++
		}
	}
	// A clean close and reopen must of course give the final state.
	_ = w.man.Close()
	_ = w.wal.Close()
	w.fs.BeforeMutation = nil
	wm2, mm2, ws2, stage, err := openStore(dir, w.walConfig(dir, w.fs), w.group(), 0, w.fs)
	res.Checks++
	if err != nil {
		res.Violate(len(c.Ops), "reopen_failed", map[string]string{"moment": "clean_close", "stage": stage, "wal_unflushed": "no"}, "reopen after clean close: %s: %v", stage, err)
	} else {
		got, cerr := captureStorage(ws2)
		if cerr != nil {
			res.Violate(len(c.Ops), "reopen_failed", map[string]string{"moment": "clean_close", "stage": "read_back", "wal_unflushed": "no"}, "%v", cerr)
		} else if p := got.matches(w.states[w.returned]); p != "" {
			res.Violate(len(c.Ops), "recovered_state_wrong", map[string]string{"moment": "clean_close", "part": p, "kind": "other", "wal_unflushed": "no"},
				"after clean close recovered %s, model %s", got, w.states[w.returned])
		}
		w.wal, w.man = wm2, mm2
	}
	res.Nontrivial = res.Faults["crash_images"] > 2 && w.lastIdx > 0
	return res
}
