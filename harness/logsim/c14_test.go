package logsim

import (
	"bytes"
	"encoding/hex"
	"errors"
	"fmt"
	"os"
	"path/filepath"
	"sort"
	"testing"
	"time"

	"github.com/feichai0017/NoKV/kv"
	"github.com/feichai0017/NoKV/lsm"
	"github.com/feichai0017/NoKV/utils"
	"github.com/feichai0017/NoKV/vlog"
	"github.com/feichai0017/NoKV/wal"

	"verif/sim"
)

// C14: Corrupted log and table bytes are never served as valid data.
//
// A case builds one small artefact with the production writers (kind 0: a WAL
// segment, kind 1: a sealed value-log file reached through the pointers the
// append returned, kind 2: an SST built through the lsm accessor), then applies
// every single-bit flip (WAL and value log: the whole file; SST: the data-block
// region) to a copy and reads it back through the production readers. Whatever
// a reader hands out must be byte-identical to what was written at that place;
// errors, not-found and an early stop are all fine.

func init() { props["C14"] = sim.PropSpec{Gen: genC14, Exec: execC14, NoShrink: noShrink} }

func genC14(r *sim.Rand, tier string) *sim.Case {
	c := &sim.Case{Cfg: map[string]int64{
		"kind":        int64(r.Intn(3)),
		"block_size":  r.Pick64(64, 128, 256, 1024, 4096),
		"bloom_milli": r.Pick64(0, 10),
		"block_cache": r.Pick64(0, 4096, 4096), // ristretto charges ~56 bytes of internal cost per item: below ~64 nothing is ever admitted
		"verify_bit":  int64(r.Intn(8)),
		"max_bits":    48000,
	}}
	if tier == "thorough" {
		c.Cfg["max_bits"] = 400000
	}
	// Artefact sizes are chosen so that one case (every bit, every reader) costs
	// a few seconds: ~1 ms per flip for mmap-backed files, and for the WAL an
	// allocation of the flipped length per decoding pass.
	n, maxVal := 3+r.Intn(3), 80
	switch c.Cfg["kind"] {
	case 0:
		n, maxVal = 3+r.Intn(3), 60
	case 2:
		n, maxVal = 3+r.Intn(8), 100
	}
	if tier == "thorough" {
		n += r.Intn(12)
		maxVal *= 4
	}
	used := map[string]bool{}
	for i := 0; i < n; i++ {
		var key string
		for {
			key = fmt.Sprintf("%s%d", []string{"k", "key-", "a", "user/", "\x00z"}[r.Intn(5)], r.Intn(40))
			if !used[key] {
				used[key] = true
				break
			}
		}
		sz := r.Intn(maxVal)
		switch r.Intn(8) {
		case 0:
			sz = 0
		case 1:
			sz = 1
		}
		c.Ops = append(c.Ops, sim.Op{K: "rec", A: int64(r.Intn(16)), B: int64(sz), C: int64(r.Intn(3)), D: int64(1 + r.Intn(5)), S: hex.EncodeToString([]byte(key))})
	}
	return c
}

type c14World struct {
	c   *sim.Case
	res *sim.Result
	dir string
	gc  *gcPacer
}

// bitPlan lists the bit positions to flip inside [lo,hi) (byte offsets): all of
// them, or an evenly strided subset when the artefact is larger than max_bits.
func (w *c14World) bitPlan(lo, hi int) []int {
	total := (hi - lo) * 8
	max := int(w.c.CfgInt("max_bits", 48000))
	stride := 1
	if total > max && max > 0 {
		stride = (total + max - 1) / max
		w.res.Probes["flips_strided_artefact_too_big"]++
	} else {
		w.res.Probes["artefact_flipped_at_every_bit"]++
	}
	out := make([]int, 0, total/stride+1)
	for b := 0; b < total; b += stride {
		out = append(out, lo*8+b)
	}
	return out
}

func execC14(t *testing.T, c *sim.Case) *sim.Result {
	res := sim.NewResult()
	dir := newDir("c14-")
	defer os.RemoveAll(dir)
	w := &c14World{c: c, res: res, dir: dir}
	var restoreGC func()
	w.gc, restoreGC = startGCPacer()
	defer restoreGC()
	switch c.CfgInt("kind", 0) % 3 {
	case 0:
		w.walKind()
	case 1:
		w.vlogKind()
	default:
		w.sstKind()
	}
	res.Nontrivial = res.Faults["bit_flips"] > 0
	return res
}

// ---------------------------------------------------------------- WAL

func (w *c14World) walKind() {
	res := w.res
	cfg := wal.Config{Dir: w.dir, BufferSize: 4096}
	m, err := wal.Open(cfg)
	if err != nil {
		res.Violate(0, "harness", nil, "wal.Open: %v", err)
		return
	}
	var orig []walRec
	seenEmpty := map[wal.RecordType]bool{}
	for i, op := range w.c.Ops {
		if op.K != "rec" {
			continue
		}
		typ := wal.RecordType(uint64(op.A) % 4)
		n := int(op.B)
		if n < 0 {
			n = 0
		}
		if n > 4096 {
			n = 4096
		}
		if n < 4 {
			// Records are told apart by type+payload; keep tiny ones unique.
			if seenEmpty[typ] {
				n = 4
			} else {
				seenEmpty[typ] = true
				n = 0
			}
		}
		p := fill(n, op.C, uint64(i)+1)
		infos, err := m.AppendRecords(wal.Record{Type: typ, Payload: p})
		if err != nil || len(infos) != 1 {
			res.Violate(i, "harness", nil, "AppendRecords: %v", err)
			return
		}
		orig = append(orig, walRec{seg: infos[0].SegmentID, off: infos[0].Offset, typ: typ, payload: p})
		res.Steps++
	}
	if err := m.Close(); err != nil {
		res.Violate(0, "harness", nil, "Close: %v", err)
		return
	}
	if len(orig) == 0 {
		return
	}
	path := segPath(w.dir, 1)
	content, err := os.ReadFile(path)
	if err != nil {
		res.Violate(0, "harness", nil, "read segment: %v", err)
		return
	}
	res.Trace.Add("wal artefact records=%d bytes=%d", len(orig), len(content))
	fieldOf := func(byteOff int) (int, string) {
		for j, r := range orig {
			if int64(byteOff) >= r.off && int64(byteOff) < r.end() {
				switch rel := int64(byteOff) - r.off; {
				case rel < 4:
					return j, "length"
				case rel == 4:
					return j, "type"
				case int64(byteOff) >= r.end()-4:
					return j, "checksum"
				default:
					return j, "payload"
				}
			}
		}
		return -1, "outside"
	}
	judge := func(bit int, api string, got []walRec) {
		j, field := fieldOf(bit / 8)
		p := 0
		for gi, g := range got {
			idx := -1
			for k := p; k < len(orig); k++ {
				if orig[k].typ == g.typ && bytes.Equal(orig[k].payload, g.payload) {
					idx = k
					break
				}
			}
			res.Checks++
			if idx < 0 || idx == j {
				what := "a record that was never written (or out of order)"
				if idx == j {
					what = "the record that contains the flipped bit"
				}
				res.Violate(bit, "corrupt_served", map[string]string{"artefact": "wal", "api": api, "field": field},
					"bit %d (byte %d, %s of record #%d) flipped: replay delivered as record #%d {type=%d payload=%s}: %s", bit, bit/8, field, j, gi, g.typ, head(g.payload), what)
				return
			}
			p = idx + 1
		}
	}
	img := newDir("c14img-")
	defer os.RemoveAll(img)
	icfg := wal.Config{Dir: img, BufferSize: 4096}
	ipath := segPath(img, 1)
	buf := make([]byte, len(content))
	for n, bit := range w.bitPlan(0, len(content)) {
		if n%256 == 0 {
			sim.Beat()
		}
		copy(buf, content)
		buf[bit/8] ^= 1 << uint(bit%8)
		if err := os.WriteFile(ipath, buf, 0o644); err != nil {
			res.Violate(bit, "harness", nil, "write: %v", err)
			return
		}
		res.Faults["bit_flips"]++
		res.Faults["bit_flips_wal"]++
		_, field := fieldOf(bit / 8)
		res.Faults["wal_flip_in_"+field]++
		// (a) replay without the recovery pass
		var m *wal.Manager
		var oerr error
		if perr := guard(func() { m, oerr = wal.Open(icfg) }); perr != nil {
			oerr = perr
			res.Probes["panic_on_corrupt_wal"]++
		}
		nA, errA := -1, oerr
		if oerr == nil {
			got, rerr := replayAll(m)
			_ = m.Close()
			nA, errA = len(got), rerr
			judge(bit, "replay", got)
		}
		// (b) the recovery pass a database open runs first, then replay
		verr := wal.VerifyDir(img, nil)
		nB := -1
		var errB error
		if verr == nil {
			var m2 *wal.Manager
			var o2 error
			if perr := guard(func() { m2, o2 = wal.Open(icfg) }); perr != nil {
				o2 = perr
			}
			if o2 == nil {
				got, rerr := replayAll(m2)
				_ = m2.Close()
				nB, errB = len(got), rerr
				judge(bit, "verify+replay", got)
			}
		} else {
			res.Probes["wal_verify_rejects_segment"]++
		}
		res.Trace.Add("wal bit %d %s: replay n=%d err=%v | verify err=%v n=%d err=%v", bit, field, nA, errA != nil, verr != nil, nB, errB != nil)
		if w.gc.after() {
			res.Probes["huge_allocation_from_flipped_length"]++
		}
	}
}

// ---------------------------------------------------------------- value log

type vlogRec struct {
	key    []byte
	val    []byte
	meta   byte
	expire uint64
	ptr    kv.ValuePtr
}

func (w *c14World) vlogKind() {
	res := w.res
	cfg := vlog.Config{Dir: w.dir, MaxSize: 64 << 10, Bucket: 3}
	m, err := vlog.Open(cfg)
	if err != nil {
		res.Violate(0, "harness", nil, "vlog.Open: %v", err)
		return
	}
	var orig []vlogRec
	var batch []*kv.Entry
	for i, op := range w.c.Ops {
		if op.K != "rec" {
			continue
		}
		u, _ := hex.DecodeString(op.S)
		n := int(op.B)
		if n < 0 {
			n = 0
		}
		if n > 4096 {
			n = 4096
		}
		r := vlogRec{key: kv.InternalKey(kv.CFDefault, u, uint64(op.D)), val: fill(n, op.C, uint64(i)+1)}
		switch op.A % 4 {
		case 1:
			r.meta = kv.BitValuePointer
		case 2:
			r.expire = uint64(op.A) * 7919
		case 3:
			r.meta, r.expire = 0x40, 1<<40+uint64(op.A)
		}
		orig = append(orig, r)
		batch = append(batch, &kv.Entry{Key: r.key, Value: r.val, Meta: r.meta, ExpiresAt: r.expire})
		res.Steps++
	}
	if len(orig) == 0 {
		_ = m.Close()
		return
	}
	// First entry alone, the rest as one batch: both append paths are used.
	p0, err := m.AppendEntry(batch[0])
	if err != nil {
		res.Violate(0, "harness", nil, "AppendEntry: %v", err)
		_ = m.Close()
		return
	}
	orig[0].ptr = *p0
	if len(batch) > 1 {
		ptrs, err := m.AppendEntries(batch[1:], nil)
		if err != nil {
			res.Violate(0, "harness", nil, "AppendEntries: %v", err)
			_ = m.Close()
			return
		}
		for i := range ptrs {
			orig[i+1].ptr = ptrs[i]
		}
	}
	// Seal file 0 (truncates it to its logical size) and close.
	if err := m.Rotate(); err != nil {
		res.Violate(0, "harness", nil, "Rotate: %v", err)
		_ = m.Close()
		return
	}
	if err := m.Close(); err != nil {
		res.Violate(0, "harness", nil, "Close: %v", err)
		return
	}
	name := fmt.Sprintf("%05d.vlog", orig[0].ptr.Fid)
	content, err := os.ReadFile(filepath.Join(w.dir, name))
	if err != nil {
		res.Violate(0, "harness", nil, "read vlog: %v", err)
		return
	}
	res.Trace.Add("vlog artefact entries=%d bytes=%d", len(orig), len(content))
	byOff := map[uint32]int{}
	for i, r := range orig {
		byOff[r.ptr.Offset] = i
	}
	fieldOf := func(byteOff int) string {
		if byteOff < kv.ValueLogHeaderSize {
			return "file_header"
		}
		for _, r := range orig {
			s, e := int(r.ptr.Offset), int(r.ptr.Offset+r.ptr.Len)
			if byteOff >= s && byteOff < e {
				hdr := int(r.ptr.Len) - len(r.key) - len(r.val) - 4
				switch rel := byteOff - s; {
				case rel < hdr:
					return "entry_header"
				case rel < hdr+len(r.key):
					return "key"
				case rel < hdr+len(r.key)+len(r.val):
					return "value"
				default:
					return "checksum"
				}
			}
		}
		return "outside"
	}
	img := newDir("c14img-")
	defer os.RemoveAll(img)
	if err := sim.CopyTree(w.dir, img); err != nil {
		res.Violate(0, "harness", nil, "CopyTree: %v", err)
		return
	}
	icfg := vlog.Config{Dir: img, MaxSize: 64 << 10, Bucket: 3}
	ipath := filepath.Join(img, name)
	fid := orig[0].ptr.Fid
	// read opens the directory and reads every pointer and the whole file back.
	read := func(bit int, field, pass string) (okReads, iterN int) {
		var mgr *vlog.Manager
		var oerr error
		if perr := guard(func() { mgr, oerr = vlog.Open(icfg) }); perr != nil || oerr != nil {
			return -1, -1
		}
		defer func() { _ = mgr.Close() }()
		for i := range orig {
			r := orig[i]
			ptr := r.ptr
			var val []byte
			var rerr error
			if perr := guard(func() {
				var cb func()
				val, cb, rerr = mgr.ReadValue(&ptr, vlog.ReadOptions{Mode: vlog.ReadModeCopy})
				if cb != nil {
					cb()
				}
			}); perr != nil {
				rerr = perr
				res.Probes["panic_on_corrupt_vlog"]++
			}
			res.Checks++
			if rerr != nil {
				continue
			}
			okReads++
			if !bytes.Equal(val, r.val) {
				res.Violate(bit, "corrupt_served", map[string]string{"artefact": "vlog", "api": "read" + pass, "field": field},
					"bit %d (byte %d, %s) flipped: ReadValue(entry #%d at %d+%d) = %s, written %s", bit, bit/8, field, i, ptr.Offset, ptr.Len, head(val), head(r.val))
			}
		}
		var ierr error
		if perr := guard(func() {
			_, ierr = mgr.Iterate(fid, 0, func(e *kv.Entry, vp *kv.ValuePtr) error {
				iterN++
				res.Checks++
				i, ok := byOff[vp.Offset]
				if ok {
					r := orig[i]
					ok = bytes.Equal(e.Key, r.key) && bytes.Equal(e.Value, r.val) && e.Meta == r.meta && e.ExpiresAt == r.expire && vp.Len == r.ptr.Len
				}
				if !ok {
					res.Violate(bit, "corrupt_served", map[string]string{"artefact": "vlog", "api": "iterate" + pass, "field": field},
						"bit %d (byte %d, %s) flipped: Iterate delivered {off=%d len=%d key=%s val=%s meta=%#x exp=%d}, which was never written there", bit, bit/8, field, vp.Offset, vp.Len, head(e.Key), head(e.Value), e.Meta, e.ExpiresAt)
				}
				return nil
			})
		}); perr != nil {
			ierr = perr
			res.Probes["panic_on_corrupt_vlog"]++
		}
		_ = ierr
		return okReads, iterN
	}
	buf := make([]byte, len(content))
	verifyBit := int(w.c.CfgInt("verify_bit", 0)) % 8
	for n, bit := range w.bitPlan(0, len(content)) {
		if n%256 == 0 {
			sim.Beat()
		}
		copy(buf, content)
		buf[bit/8] ^= 1 << uint(bit%8)
		if err := os.WriteFile(ipath, buf, 0o644); err != nil {
			res.Violate(bit, "harness", nil, "write: %v", err)
			return
		}
		field := fieldOf(bit / 8)
		res.Faults["bit_flips"]++
		res.Faults["bit_flips_vlog"]++
		res.Faults["vlog_flip_in_"+field]++
		r1, i1 := read(bit, field, "")
		r2, i2 := -2, -2
		if bit%8 == verifyBit {
			// The recovery pass of a database open (may truncate the file), then the same reads.
			var verr error
			if perr := guard(func() { verr = vlog.VerifyDir(icfg) }); perr != nil {
				verr = perr
			}
			res.Faults["vlog_verify_passes"]++
			if verr == nil {
				r2, i2 = read(bit, field, "_after_verify")
			}
		}
		res.Trace.Add("vlog bit %d %s: reads=%d iter=%d | after verify reads=%d iter=%d", bit, field, r1, i1, r2, i2)
		if w.gc.after() {
			res.Probes["huge_allocation_from_flipped_length"]++
		}
	}
}

// ---------------------------------------------------------------- SST

func (w *c14World) sstKind() {
	res := w.res
	byKey := map[string]sstEnt{}
	for i, op := range w.c.Ops {
		if op.K != "rec" {
			continue
		}
		u, _ := hex.DecodeString(op.S)
		n := int(op.B)
		if n < 0 {
			n = 0
		}
		if n > 4096 {
			n = 4096
		}
		e := sstEnt{key: kv.InternalKey(kv.CFDefault, u, uint64(op.D)), val: fill(n, op.C, uint64(i)+1)}
		switch op.A % 4 {
		case 1:
			e.meta = kv.BitDelete
		case 2:
			e.expire = uint64(op.A) * 7919
		}
		byKey[string(e.key)] = e
		res.Steps++
	}
	if len(byKey) == 0 {
		return
	}
	keys := make([]string, 0, len(byKey))
	for k := range byKey {
		keys = append(keys, k)
	}
	sort.Slice(keys, func(i, j int) bool { return utils.CompareKeys([]byte(keys[i]), []byte(keys[j])) < 0 })
	st := make([]sstEnt, 0, len(keys))
	ents := make([]*kv.Entry, 0, len(keys))
	for _, k := range keys {
		x := byKey[k]
		st = append(st, x)
		ents = append(ents, &kv.Entry{Key: x.key, Value: x.val, Meta: x.meta, ExpiresAt: x.expire})
	}
	opt := &lsm.Options{WorkDir: w.dir, SSTableMaxSz: 1 << 20, BlockSize: int(w.c.CfgInt("block_size", 1024)),
		BloomFalsePositive: float64(w.c.CfgInt("bloom_milli", 10)) / 1000, BlockCacheSize: int(w.c.CfgInt("block_cache", 0)), BloomCacheSize: 4}
	env := lsm.VerifNewTableEnv(opt)
	defer env.Close()
	h, err := env.Build(1, ents)
	if err != nil {
		res.Violate(0, "harness", nil, "table build: %v", err)
		return
	}
	dataLen, blocks := h.DataRegionLen(), h.BlockCount()
	_ = h.CloseHandle()
	content, err := os.ReadFile(utils.FileNameSSTable(w.dir, 1))
	if err != nil || dataLen <= 0 || dataLen > len(content) {
		res.Violate(0, "harness", nil, "read sst: %v (data region %d of %d)", err, dataLen, len(content))
		return
	}
	_ = os.Remove(utils.FileNameSSTable(w.dir, 1))
	res.Trace.Add("sst artefact entries=%d blocks=%d data=%d file=%d", len(st), blocks, dataLen, len(content))
	if blocks > 1 {
		res.Probes["sst_with_several_blocks"]++
	}
	check := func(bit int, api string, i int, e *kv.Entry) {
		res.Checks++
		if !sameEnt(e, st[i]) {
			res.Violate(bit, "corrupt_served", map[string]string{"artefact": "sst", "api": api, "field": "data_block"},
				"bit %d (byte %d of %d data bytes) flipped: %s returned %s for stored key #%d {val=%s meta=%#x exp=%d}", bit, bit/8, dataLen, api, descEnt(e), i, head(st[i].val), st[i].meta, st[i].expire)
		}
	}
	buf := make([]byte, len(content))
	for n, bit := range w.bitPlan(0, dataLen) {
		if n%256 == 0 {
			sim.Beat()
		}
		fid := uint64(n + 2)
		copy(buf, content)
		buf[bit/8] ^= 1 << uint(bit%8)
		path := utils.FileNameSSTable(w.dir, fid)
		if err := os.WriteFile(path, buf, 0o644); err != nil {
			res.Violate(bit, "harness", nil, "write: %v", err)
			return
		}
		res.Faults["bit_flips"]++
		res.Faults["bit_flips_sst"]++
		th, oerr := env.Open(fid)
		found, errs, scanned := 0, 0, 0
		if oerr != nil {
			res.Probes["sst_open_rejects_table"]++
		} else {
			for i := range st {
				e, serr := th.Search(st[i].key, kv.ParseTs(st[i].key)-1)
				switch {
				case serr == nil && e != nil:
					found++
					check(bit, "search", i, e)
				case errors.Is(serr, utils.ErrKeyNotFound):
					res.Checks++
				default:
					errs++
					res.Checks++
				}
			}
			for _, asc := range []bool{true, false} {
				api := "scan_forward"
				if !asc {
					api = "scan_reverse"
				}
				perr := th.Guard("scan", func() {
					it := th.NewIterator(asc)
					defer func() { _ = it.Close() }()
					for it.Rewind(); it.Valid() && scanned < 4*len(st)+8; it.Next() {
						if it.Item() == nil || it.Item().Entry() == nil {
							break
						}
						e := it.Item().Entry()
						scanned++
						i, ok := sort.Find(len(st), func(i int) int { return utils.CompareKeys(e.Key, st[i].key) })
						if !ok {
							res.Checks++
							res.Violate(bit, "corrupt_served", map[string]string{"artefact": "sst", "api": api, "field": "data_block"},
								"bit %d flipped: %s returned %s, a key that was never stored", bit, api, descEnt(e))
							continue
						}
						check(bit, api, i, e)
					}
				})
				if perr != nil {
					res.Probes["panic_on_corrupt_sst"]++
				}
			}
			_ = th.CloseHandle()
		}
		// Cache-warming paths: a block first loaded by the hot-key prefetch
		// (table.prefetchBlockForKey) or by an iterator's prefetch workers must be
		// verified like any other; later reads get it as a cache hit. Fresh handle
		// and fresh file id, so nothing of the pass above is cached.
		if oerr == nil && w.c.CfgInt("block_cache", 0) > 0 {
			fid2 := fid + 1<<20
			path2 := utils.FileNameSSTable(w.dir, fid2)
			if err := os.WriteFile(path2, buf, 0o644); err == nil {
				if th2, err := env.Open(fid2); err == nil {
					res.Faults["bit_flips_sst_prefetch_pass"]++
					for i := range st {
						if th2.Prefetch(st[i].key) {
							res.Probes["sst_prefetch_loaded_block"]++
						} else {
							res.Probes["sst_prefetch_refused_block"]++
						}
					}
					time.Sleep(time.Millisecond) // cache admission is asynchronous
					for i := range st {
						if e, serr := th2.Search(st[i].key, kv.ParseTs(st[i].key)-1); serr == nil && e != nil {
							check(bit, "search_after_prefetch", i, e)
						} else {
							res.Checks++
						}
					}
					_ = th2.Guard("prefetch scan", func() {
						for pass := 0; pass < 2; pass++ {
							it := th2.NewPrefetchIterator(2)
							n := 0
							for it.Rewind(); it.Valid() && n < 4*len(st)+8; it.Next() {
								if it.Item() == nil || it.Item().Entry() == nil {
									break
								}
								e := it.Item().Entry()
								n++
								if i, ok := sort.Find(len(st), func(i int) int { return utils.CompareKeys(e.Key, st[i].key) }); ok {
									check(bit, "scan_with_prefetch", i, e)
								} else {
									res.Checks++
									res.Violate(bit, "corrupt_served", map[string]string{"artefact": "sst", "api": "scan_with_prefetch", "field": "data_block"},
										"bit %d flipped: prefetching scan returned %s, a key that was never stored", bit, descEnt(e))
								}
							}
							_ = it.Close()
							time.Sleep(time.Millisecond)
						}
					})
					_ = th2.CloseHandle()
				}
				_ = os.Remove(path2)
			}
		}
		_ = os.Remove(path)
		res.Trace.Add("sst bit %d: open=%v found=%d errs=%d scanned=%d", bit, oerr == nil, found, errs, scanned)
		w.gc.after()
	}
}
