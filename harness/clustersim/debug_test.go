package clustersim

import (
	"fmt"
	"os"
	"syscall"
)

// Development aids (off unless the environment variables are set; they never
// influence execution): CS_DBG=1 prints per-run real-time cost, CS_TRACE=1
// dumps every trace line to stderr so that two processes can be diffed.

// realNow reads the real clock (time.Now is the bubble's fake clock).
func realNow() float64 {
	var tv syscall.Timeval
	_ = syscall.Gettimeofday(&tv)
	return float64(tv.Sec) + float64(tv.Usec)/1e6
}

var (
	dbgOn     = os.Getenv("CS_DBG") != ""
	traceDump = os.Getenv("CS_TRACE") != ""
)

func dbg(format string, a ...any) {
	if dbgOn {
		fmt.Fprintf(os.Stderr, format+"\n", a...)
	}
}

// tr adds one line to the run's trace (the determinism witness).
func (w *world) tr(format string, a ...any) {
	w.res.Trace.Add(format, a...)
	if traceDump {
		fmt.Fprintf(os.Stderr, "T "+format+"\n", a...)
	}
}
