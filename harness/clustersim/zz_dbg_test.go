package clustersim

import (
	"fmt"
	"os"
	"syscall"
)

func realNow() float64 {
	var tv syscall.Timeval
	_ = syscall.Gettimeofday(&tv)
	return float64(tv.Sec) + float64(tv.Usec)/1e6
}

var dbgOn = os.Getenv("CS_DBG") != ""

func dbg(format string, a ...any) {
	if dbgOn {
		fmt.Fprintf(os.Stderr, format+"\n", a...)
	}
}
