package clustersim

import (
	"fmt"
	"os"
	"syscall"
)

func realNow() float64 {
	var tv syscall.Timeval
	_ = syscall.Gettimeofday(&tv)
	return float64(tv.Sec) + float64(tv.Usec)/1e6
}

var dbgOn = os.Getenv("CS_DBG") != ""

func dbg(format string, a ...any) {
	if dbgOn {
		fmt.Fprintf(os.Stderr, format+"\n", a...)
	}
}

var traceDump = os.Getenv("CS_TRACE") != ""

// tr adds one line to the run's trace (the determinism witness).
func (w *world) tr(format string, a ...any) {
	w.res.Trace.Add(format, a...)
	if traceDump {
		fmt.Fprintf(os.Stderr, "T "+format+"\n", a...)
	}
}
