package clustersim

import (
	"fmt"
	"math"
	"sort"
	"testing"
	"testing/synctest"
	"time"

	"github.com/anishathalye/porcupine"
	"github.com/feichai0017/NoKV/pb"

	"verif/sim"
)

func init() {
	props["C23"] = sim.PropSpec{Gen: genC23, Exec: execC23}
}

func genC23(r *sim.Rand, tier string) *sim.Case {
	c := &sim.Case{Cfg: genCluster(r)}
	nreg := int(c.Cfg["regions"])
	nw, nr := r.Pick(1, 2, 3), r.Pick(3, 4, 6)
	kpr := r.Pick(1, 1, 2) // keys per region
	c.Cfg["writers"], c.Cfg["readers"], c.Cfg["keys_per_region"] = int64(nw), int64(nr), int64(kpr)
	// one_writer_per_key=1: key k is only written by writer k mod writers.
	c.Cfg["one_writer_per_key"] = int64(r.Intn(2))
	// rollback_on_abandon=1: a writer whose prewrite met a key error sends BatchRollback for its start version.
	c.Cfg["rollback_on_abandon"] = int64(r.Pick(0, 0, 0, 1))
	nkeys := nreg * kpr
	for rg := 0; rg < nreg; rg++ {
		c.Ops = append(c.Ops, sim.Op{K: "campaign", A: int64(rg), B: int64(r.Intn(3))})
	}
	c.Ops = append(c.Ops, sim.Op{K: "wait", D: 300})
	n := 40 + r.Intn(50)
	if tier == "thorough" {
		n = 50 + r.Intn(100)
	}
	faultPct := r.Pick(8, 15, 30)
	for i := 0; i < n; i++ {
		x := r.Intn(100)
		switch {
		case x < faultPct && r.Intn(4) == 0:
			// The paused-leader scenario: the region's leader is cut off and stops
			// ticking, the others elect a new leader and acknowledge writes, then the
			// old leader is asked to serve reads.
			rg := int64(r.Intn(nreg))
			c.Ops = append(c.Ops, sim.Op{K: "freeze_leader", A: rg, D: int64(r.Pick(0, 10, 100))})
			c.Ops = append(c.Ops, sim.Op{K: "wait", D: int64(r.Pick(1500, 3000, 6000))})
			for k, m := 0, 1+r.Intn(3); k < m; k++ {
				c.Ops = append(c.Ops, sim.Op{K: "write", A: int64(r.Intn(nw)), B: int64(r.Intn(nkeys)), D: int64(r.Pick(0, 10, 100, 300))})
			}
			c.Ops = append(c.Ops, sim.Op{K: "wait", D: int64(r.Pick(500, 1500, 3000))})
			for k, m := 0, 1+r.Intn(3); k < m; k++ {
				c.Ops = append(c.Ops, sim.Op{K: "read", A: int64(r.Intn(nr)), B: int64(r.Intn(nkeys)), C: 9, D: int64(r.Pick(0, 50, 300))})
			}
		case x < faultPct:
			op := genFault(r, 3, nreg)
			c.Ops = append(c.Ops, op)
			if op.K == "isolate" || op.K == "cut" || op.K == "transfer" {
				// Reads at the (possibly deposed) old leader and elsewhere right after the change.
				for k, m := 0, 1+r.Intn(3); k < m; k++ {
					c.Ops = append(c.Ops, sim.Op{K: "read", A: int64(r.Intn(nr)), B: int64(r.Intn(nkeys)), C: int64(r.Intn(4)), D: int64(r.Pick(0, 50, 300, 1200, 2500))})
				}
			}
		case x < faultPct+(100-faultPct)*2/5:
			c.Ops = append(c.Ops, sim.Op{K: "write", A: int64(r.Intn(nw)), B: int64(r.Intn(nkeys)), D: int64(r.Pick(0, 1, 10, 30, 100, 300))})
		default:
			// C: 0 = believed leader, 1..3 = explicit store (arbitrary stores, incl. a partitioned old leader).
			tgt := int64(0)
			if r.Intn(2) == 0 {
				tgt = int64(1 + r.Intn(3))
			}
			c.Ops = append(c.Ops, sim.Op{K: "read", A: int64(r.Intn(nr)), B: int64(r.Intn(nkeys)), C: tgt, D: int64(r.Pick(0, 1, 10, 30, 100, 300))})
		}
	}
	return c
}

const (
	phPrewrite = iota
	phCommit
	phRollback
)

type wtxn struct {
	id          int
	writer      int
	key         int
	ri          int
	val         string
	startTs     uint64
	commitTs    uint64
	phase       int
	attempts    int
	invokeStep  int64
	commitSent  bool
	commitTries int
	acked       bool
	ackStep     int64
	failed      bool
	observed    bool
}

type readRec struct {
	key      int
	call     int64
	ret      int64
	val      string // "" = not found
	store    int
	readTs   uint64
	floorTs  uint64 // largest commit version acknowledged before the read was invoked
	floorVal string
	bad      bool // already reported by oracle 1 (kept out of the porcupine history)
}

type c23 struct {
	w        *world
	nw, nr   int
	nkeys    int
	kpr      int
	tso      uint64
	wbelief  [][]int
	rbelief  [][]int
	cur      []*wtxn // per writer: transaction in progress
	txns     []*wtxn
	byVal    map[string]*wtxn
	maxAcked []uint64
	maxVal   []string
	reads    []*readRec
	stopping bool
	rollback bool
	// rolledBack[key] lists the start versions for which a BatchRollback was sent.
	rolledBack map[int][]uint64
	acks       int
	values     int
}

func (h *c23) keyName(k int) []byte { return regionKey(h.w, k/h.kpr, k%h.kpr) }
func (h *c23) next() uint64         { h.tso++; return h.tso }

func (h *c23) header(ri int) *pb.CmdHeader {
	return &pb.CmdHeader{RegionId: h.w.regions[ri].ID, RegionEpoch: epochPB()}
}

func (h *c23) wcli(i int) *cliTask { return h.w.clients[i] }
func (h *c23) rcli(i int) *cliTask { return h.w.clients[h.nw+i] }

func (h *c23) beginWrite(wi, key int) {
	if h.cur[wi] != nil || h.wcli(wi).busy {
		h.w.res.Probes["writer_busy"]++
		return
	}
	tx := &wtxn{id: len(h.txns), writer: wi, key: key, ri: key / h.kpr}
	tx.val = fmt.Sprintf("w%d.%d", wi, tx.id)
	tx.startTs = h.next()
	tx.invokeStep = h.w.step
	h.txns = append(h.txns, tx)
	h.byVal[tx.val] = tx
	h.cur[wi] = tx
	h.drive(tx)
}

// drive sends the next RPC of tx (root goroutine).
func (h *c23) drive(tx *wtxn) {
	w := h.w
	if h.cur[tx.writer] != tx {
		return
	}
	cl := h.wcli(tx.writer)
	if cl.busy {
		return
	}
	if h.stopping || tx.attempts >= 14 {
		if h.rollback && tx.phase != phRollback && !tx.commitSent && !h.stopping {
			tx.phase, tx.attempts = phRollback, 0
		} else {
			h.finish(tx)
			return
		}
	}
	tx.attempts++
	key := h.keyName(tx.key)
	var r *pb.Request
	switch tx.phase {
	case phPrewrite:
		r = &pb.Request{CmdType: pb.CmdType_CMD_PREWRITE, Cmd: &pb.Request_Prewrite{Prewrite: &pb.PrewriteRequest{
			Mutations:   []*pb.Mutation{{Op: pb.Mutation_Put, Key: key, Value: []byte(tx.val)}},
			PrimaryLock: key, StartVersion: tx.startTs, LockTtl: 3000}}}
	case phCommit:
		if tx.commitTs == 0 {
			tx.commitTs = h.next()
		}
		tx.commitSent = true
		tx.commitTries++
		r = &pb.Request{CmdType: pb.CmdType_CMD_COMMIT, Cmd: &pb.Request_Commit{Commit: &pb.CommitRequest{
			Keys: [][]byte{key}, StartVersion: tx.startTs, CommitVersion: tx.commitTs}}}
	default:
		h.rolledBack[tx.key] = append(h.rolledBack[tx.key], tx.startTs)
		r = &pb.Request{CmdType: pb.CmdType_CMD_BATCH_ROLLBACK, Cmd: &pb.Request_BatchRollback{BatchRollback: &pb.BatchRollbackRequest{
			Keys: [][]byte{key}, StartVersion: tx.startTs}}}
	}
	req := &pb.RaftCmdRequest{Header: h.header(tx.ri), Requests: []*pb.Request{r}}
	tag := tagOf(req)
	n := w.nodes[h.wbelief[tx.writer][tx.ri]]
	w.tr("wr%d %s -> s%d", tx.writer, tag, n.id)
	if n.down {
		h.retry(tx, n.idx, nil)
		return
	}
	var resp *pb.RaftCmdResponse
	var err error
	w.dispatch(cl, func() { resp, err = n.st.ProposeCommand(req) }, func() {
		callStep := cl.callStep
		switch {
		case err != nil:
			w.tr("wr%d %s err", tx.writer, tag)
			h.retry(tx, n.idx, nil)
			return
		case resp.GetRegionError() != nil:
			w.tr("wr%d %s region-error", tx.writer, tag)
			h.retry(tx, n.idx, resp.GetRegionError())
			return
		}
		w.mu.Lock()
		from, known := n.respTag[resp]
		w.mu.Unlock()
		if !known || from != tag {
			// C22's defect (response of another command): not charged to C23; outcome unknown.
			w.res.Probes["c22_wrong_response_met"]++
			w.tr("wr%d %s wrong-response", tx.writer, tag)
			h.retry(tx, n.idx, nil)
			return
		}
		w.res.Checks++
		if !n.wasLeaderSince(w.regions[tx.ri].ID, callStep) {
			w.res.Violate(w.opIdx, "accepted_by_non_leader", map[string]string{"op": "propose"},
				"store %d accepted and answered %s although it was never leader of region %d while the call was in flight", n.id, tag, w.regions[tx.ri].ID)
		}
		var kerr bool
		switch tx.phase {
		case phPrewrite:
			kerr = len(resp.GetResponses()) == 0 || len(resp.GetResponses()[0].GetPrewrite().GetErrors()) > 0
		case phCommit:
			kerr = len(resp.GetResponses()) == 0 || resp.GetResponses()[0].GetCommit().GetError() != nil
		default:
			kerr = len(resp.GetResponses()) == 0 || resp.GetResponses()[0].GetBatchRollback().GetError() != nil
		}
		w.tr("wr%d %s ok keyerr=%v", tx.writer, tag, kerr)
		tx.attempts = 0
		switch {
		case tx.phase == phPrewrite && !kerr:
			tx.phase = phCommit
			h.drive(tx)
		case tx.phase == phPrewrite:
			// Locked by another writer or write conflict: abandon, cleaning up whatever an earlier attempt left.
			w.res.Probes["prewrite_key_error"]++
			if h.rollback {
				tx.phase = phRollback
				h.drive(tx)
			} else {
				h.finish(tx)
			}
		case tx.phase == phCommit && !kerr:
			tx.acked, tx.ackStep = true, w.step
			h.acks++
			if tx.commitTs > h.maxAcked[tx.key] {
				h.maxAcked[tx.key], h.maxVal[tx.key] = tx.commitTs, tx.val
			}
			h.finish(tx)
		case tx.phase == phCommit:
			// A key error on the very first commit attempt is a definite failure (lock gone: the write did
			// not and will not happen). After an attempt with unknown outcome it proves nothing: the first
			// attempt may have applied and another writer may hold the key's lock by now (Commit answers
			// "locked" without looking for an existing commit record), so the outcome stays unknown.
			w.res.Probes["commit_key_error"]++
			tx.failed = tx.commitTries == 1
			h.finish(tx)
		default:
			h.finish(tx)
		}
	})
}

func (h *c23) finish(tx *wtxn) {
	if h.cur[tx.writer] == tx {
		h.cur[tx.writer] = nil
	}
}

func (h *c23) retry(tx *wtxn, at int, re *pb.RegionError) {
	w := h.w
	if ne := re.GetNotLeader(); ne != nil && ne.GetLeader() != nil {
		h.wbelief[tx.writer][tx.ri] = int(ne.GetLeader().GetStoreId()) - 1
	} else {
		h.wbelief[tx.writer][tx.ri] = (at + 1) % len(w.nodes)
	}
	w.after(60*time.Millisecond, func() { h.drive(tx) })
}

func (h *c23) read(ri, key, target int, final bool) {
	w := h.w
	cl := h.rcli(ri)
	if cl.busy {
		w.res.Probes["reader_busy"]++
		return
	}
	rgi := key / h.kpr
	if target < 0 {
		target = h.rbelief[ri][rgi]
	}
	n := w.nodes[target]
	if n.down {
		h.rbelief[ri][rgi] = (target + 1) % len(w.nodes)
		return
	}
	rec := &readRec{key: key, store: target, readTs: h.next(), floorTs: h.maxAcked[key], floorVal: h.maxVal[key]}
	req := &pb.RaftCmdRequest{Header: h.header(rgi), Requests: []*pb.Request{{CmdType: pb.CmdType_CMD_GET,
		Cmd: &pb.Request_Get{Get: &pb.GetRequest{Key: h.keyName(key), Version: rec.readTs}}}}}
	w.tr("rd%d k%d@%d -> s%d", ri, key, rec.readTs, n.id)
	var resp *pb.RaftCmdResponse
	var err error
	w.dispatch(cl, func() { resp, err = n.st.ReadCommand(req) }, func() {
		rec.call, rec.ret = cl.callStep, w.step
		region := w.regions[rgi].ID
		switch {
		case err != nil:
			w.tr("rd%d k%d err", ri, key)
			w.res.Probes["read_error"]++
			h.rbelief[ri][rgi] = (target + 1) % len(w.nodes)
			return
		case resp.GetRegionError() != nil:
			w.tr("rd%d k%d region-error", ri, key)
			w.res.Probes["read_rejected"]++
			if ne := resp.GetRegionError().GetNotLeader(); ne != nil && ne.GetLeader() != nil {
				h.rbelief[ri][rgi] = int(ne.GetLeader().GetStoreId()) - 1
			} else {
				h.rbelief[ri][rgi] = (target + 1) % len(w.nodes)
			}
			return
		}
		if len(resp.GetResponses()) == 0 || resp.GetResponses()[0].GetGet() == nil {
			w.res.Probes["read_empty_response"]++
			return
		}
		g := resp.GetResponses()[0].GetGet()
		if g.GetError() != nil {
			w.tr("rd%d k%d keyerror", ri, key)
			w.res.Probes["read_locked"]++
			return
		}
		if !g.GetNotFound() {
			rec.val = string(g.GetValue())
		}
		h.values++
		w.tr("rd%d k%d = %q", ri, key, rec.val)
		h.reads = append(h.reads, rec)
		if n.lostAt[region] >= rec.call {
			w.res.Probes["read_served_by_store_that_lost_leadership_meanwhile"]++
		}
		// Oracle 3: only a store that was leader at some point during the call may serve it.
		w.res.Checks++
		if !n.wasLeaderSince(region, rec.call) {
			w.res.Violate(w.opIdx, "accepted_by_non_leader", map[string]string{"op": "read"},
				"store %d served a read of key %s although it was never leader of region %d while the call was in flight", n.id, h.keyName(key), region)
		}
		// Oracle 1: the value's commit version must be >= the largest version acknowledged before invocation.
		w.res.Checks++
		var ver uint64
		if rec.val != "" {
			tx := h.byVal[rec.val]
			switch {
			case tx == nil || tx.key != key:
				w.res.Violate(w.opIdx, "phantom_value", nil, "read of key %s at store %d returned %q which no writer wrote to that key", h.keyName(key), n.id, rec.val)
				return
			case !tx.commitSent:
				w.res.Violate(w.opIdx, "uncommitted_read", nil, "read of key %s at store %d returned %q whose transaction never sent a commit", h.keyName(key), n.id, rec.val)
				return
			case tx.failed:
				w.res.Violate(w.opIdx, "aborted_read", map[string]string{"rollbacks_in_workload": yesNo(h.rollback)}, "read of key %s at store %d returned %q whose commit was definitely rejected", h.keyName(key), n.id, rec.val)
				return
			}
			tx.observed = true
			ver = tx.commitTs
			if ver > rec.readTs {
				w.res.Violate(w.opIdx, "future_read", nil, "read of key %s at version %d returned %q committed at version %d", h.keyName(key), rec.readTs, rec.val, ver)
			}
		}
		if ver < rec.floorTs {
			// A rollback record written between the acknowledged version and the read version hides the
			// committed value from percolator's reader (root property C17): diagnosed, not charged silently.
			shadow := false
			for _, s := range h.rolledBack[key] {
				if s > ver && s <= rec.readTs {
					shadow = true
				}
			}
			rec.bad = true
			w.res.Violate(w.opIdx, "stale_read", map[string]string{"leader_at_return": yesNo(n.isLeader[region]), "rollback_record_between": yesNo(shadow)},
				"read of key %s at store %d (read version %d) returned %q (commit version %d) although %q (commit version %d) had been acknowledged before the read was invoked",
				h.keyName(key), n.id, rec.readTs, rec.val, ver, rec.floorVal, rec.floorTs)
		}
	})
}

// ---- porcupine register model (per key) -------------------------------------

type regIn struct {
	write bool
	val   string
}

var registerModel = porcupine.Model{
	Init: func() any { return "" },
	Step: func(state, input, output any) (bool, any) {
		in := input.(regIn)
		if in.write {
			return true, in.val
		}
		return output.(string) == state.(string), state
	},
	Equal: func(a, b any) bool { return a.(string) == b.(string) },
	DescribeOperation: func(input, output any) string {
		in := input.(regIn)
		if in.write {
			return "write " + in.val
		}
		return fmt.Sprintf("read -> %q", output.(string))
	},
}

// histories builds one porcupine history per key. Writes with an unknown
// outcome are kept open to the end of the history when some read observed
// them and dropped otherwise (an unobserved write cannot make a register
// history illegal); definitely failed writes are dropped.
func (h *c23) histories(end int64) map[int][]porcupine.Operation {
	out := map[int][]porcupine.Operation{}
	for _, tx := range h.txns {
		switch {
		case tx.acked:
			out[tx.key] = append(out[tx.key], porcupine.Operation{ClientId: tx.writer, Input: regIn{true, tx.val}, Call: tx.invokeStep, Output: "", Return: tx.ackStep})
		case tx.commitSent && tx.observed:
			out[tx.key] = append(out[tx.key], porcupine.Operation{ClientId: tx.writer, Input: regIn{true, tx.val}, Call: tx.invokeStep, Output: "", Return: end})
		}
	}
	for i, r := range h.reads {
		if r.bad {
			continue
		}
		out[r.key] = append(out[r.key], porcupine.Operation{ClientId: 100 + i%7, Input: regIn{false, ""}, Call: r.call, Output: r.val, Return: r.ret})
	}
	return out
}

func execC23(t *testing.T, c *sim.Case) *sim.Result {
	res := sim.NewResult()
	var hist map[int][]porcupine.Operation
	var keyNames map[int]string
	rolled := map[int]bool{}
	synctest.Test(t, func(t *testing.T) {
		w := newWorld(t, c, res)
		nreg := int(c.CfgInt("regions", 1))
		if nreg < 1 || nreg > 2 {
			nreg = 1
		}
		voters := make([][]int, nreg)
		for i := range voters {
			voters[i] = []int{0, 1, 2}
		}
		if err := w.boot(3, makeRegions([]string{"m", "t"}, voters)); err != nil {
			res.Violate(0, "boot_failed", nil, "%v", err)
			w.shutdown()
			return
		}
		h := &c23{w: w, nw: int(c.CfgInt("writers", 2)), nr: int(c.CfgInt("readers", 2)), kpr: int(c.CfgInt("keys_per_region", 1)), byVal: map[string]*wtxn{},
			rollback: c.CfgInt("rollback_on_abandon", 0) == 1, rolledBack: map[int][]uint64{}}
		if h.kpr < 1 {
			h.kpr = 1
		}
		h.nkeys = nreg * h.kpr
		h.maxAcked, h.maxVal = make([]uint64, h.nkeys), make([]string, h.nkeys)
		h.cur = make([]*wtxn, h.nw)
		for i := 0; i < h.nw; i++ {
			w.newClient(fmt.Sprintf("wr%d", i))
			h.wbelief = append(h.wbelief, make([]int, nreg))
		}
		for i := 0; i < h.nr; i++ {
			w.newClient(fmt.Sprintf("rd%d", i))
			h.rbelief = append(h.rbelief, make([]int, nreg))
		}
		oneWriter := c.CfgInt("one_writer_per_key", 0) == 1

		for i, op := range c.Ops {
			w.opIdx = i
			if op.D > 0 {
				w.runUntil(w.now() + time.Duration(op.D)*time.Millisecond)
			}
			w.step++
			switch op.K {
			case "write":
				wi, key := imod(op.A, h.nw), imod(op.B, h.nkeys)
				if oneWriter {
					wi = key % h.nw
				}
				h.beginWrite(wi, key)
			case "read":
				tgt := -1
				if op.C == 9 {
					// the store last frozen by freeze_leader (a paused, cut-off former leader)
					if w.frozen >= 0 {
						tgt = w.frozen
					}
				} else if op.C > 0 {
					tgt = imod(op.C-1, 3)
				}
				h.read(imod(op.A, h.nr), imod(op.B, h.nkeys), tgt, false)
			default:
				if w.faultOp(op) {
					w.tr("op %s", op.String())
					synctest.Wait()
					w.afterStep()
				}
			}
		}
		w.opIdx = len(c.Ops)
		// Fault-free phase: let writers finish, then read every key at the leader and at every store.
		w.healAll()
		w.runWhile(w.now()+15*time.Second, func() bool {
			for _, tx := range h.cur {
				if tx != nil {
					return true
				}
			}
			return false
		})
		h.stopping = true
		w.runWhile(w.now()+5*time.Second, w.anyBusy)
		for round := 0; round < 2; round++ {
			for key := 0; key < h.nkeys; key++ {
				for s := 0; s < 3; s++ {
					h.read((key+s)%h.nr, key, s, true)
					w.runWhile(w.now()+4*time.Second, func() bool { return h.rcli((key + s) % h.nr).busy })
				}
			}
		}
		w.runWhile(w.now()+5*time.Second, w.anyBusy)
		hist = h.histories(w.step + 1)
		keyNames = map[int]string{}
		for k := 0; k < h.nkeys; k++ {
			keyNames[k] = string(h.keyName(k))
			rolled[k] = len(h.rolledBack[k]) > 0
		}
		nf := 0
		for k, v := range res.Faults {
			if k != "leader_elected" {
				nf += v
			}
		}
		// Non-trivial: a fault fired, a write was acknowledged and a read returned a value or not-found.
		res.Nontrivial = nf > 0 && h.acks > 0 && h.values > 0
		w.shutdown()
	})
	// Oracle 2 (after the bubble): per-key linearizability against a register.
	keys := make([]int, 0, len(hist))
	for k := range hist {
		keys = append(keys, k)
	}
	sort.Ints(keys)
	for _, k := range keys {
		ops := hist[k]
		if len(ops) > 60 {
			res.Probes["porcupine_skipped_over_60_ops"]++
			continue
		}
		res.Checks++
		switch porcupine.CheckOperationsTimeout(registerModel, ops, 30*time.Second) {
		case porcupine.Illegal:
			res.Violate(len(c.Ops), "not_linearizable", map[string]string{"rollback_sent_for_key": yesNo(rolled[k])}, "history of key %s (%d operations) is not linearizable against a register: %s", keyNames[k], len(ops), describeHistory(ops))
		case porcupine.Unknown:
			res.Probes["porcupine_unknown"]++
		default:
			res.Probes["porcupine_ok"]++
		}
	}
	return res
}

func describeHistory(ops []porcupine.Operation) string {
	sort.Slice(ops, func(i, j int) bool { return ops[i].Call < ops[j].Call })
	s := ""
	for i, o := range ops {
		if i >= 40 {
			s += " ..."
			break
		}
		ret := fmt.Sprint(o.Return)
		if o.Return == math.MaxInt64 {
			ret = "inf"
		}
		s += fmt.Sprintf(" [%d,%s]%s", o.Call, ret, registerModel.DescribeOperation(o.Input, o.Output))
	}
	return s
}
