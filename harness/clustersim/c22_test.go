package clustersim

import (
	"fmt"
	"sort"
	"testing"
	"testing/synctest"
	"time"

	"github.com/feichai0017/NoKV/pb"

	"verif/sim"
)

func init() {
	props["C22"] = sim.PropSpec{Gen: genC22, Exec: execC22}
}

func genCluster(r *sim.Rand) map[string]int64 {
	return map[string]int64{
		"stores":         3,
		"regions":        int64(r.Pick(1, 1, 2)),
		"election_tick":  int64(r.Pick(5, 10, 10)),
		"heartbeat_tick": int64(r.Pick(1, 2, 2)),
		"base_delay_ms":  int64(r.Pick(1, 1, 5, 20)),
		"raft_rand":      int64(r.Uint64() >> 2),
	}
}

func genC22(r *sim.Rand, tier string) *sim.Case {
	c := &sim.Case{Cfg: genCluster(r)}
	nreg := int(c.Cfg["regions"])
	ncli := r.Pick(4, 6, 8)
	c.Cfg["clients"] = int64(ncli)
	for rg := 0; rg < nreg; rg++ {
		c.Ops = append(c.Ops, sim.Op{K: "campaign", A: int64(rg), B: int64(r.Intn(3))})
	}
	c.Ops = append(c.Ops, sim.Op{K: "wait", D: 300})
	n := 30 + r.Intn(50)
	if tier == "thorough" {
		n = 40 + r.Intn(120)
	}
	faultPct := r.Pick(10, 20, 35)
	for i := 0; i < n; i++ {
		if r.Intn(100) < faultPct {
			op := genFault(r, 3, nreg)
			c.Ops = append(c.Ops, op)
			// A leadership change followed at once by proposals at the new leader is
			// where entries of the old leader are applied while new proposals wait.
			if (op.K == "transfer" || op.K == "campaign") && r.Intn(2) == 0 {
				for k, m := 0, 1+r.Intn(3); k < m; k++ {
					c.Ops = append(c.Ops, sim.Op{K: "propose", A: int64(r.Intn(ncli)), B: op.A, C: op.B + 1, D: int64(r.Pick(0, 1, 2, 5, 10))})
				}
			}
			continue
		}
		// C: 0 = the store the client believes leads, 1..3 = explicit store.
		tgt := int64(0)
		if r.Intn(4) == 0 {
			tgt = int64(1 + r.Intn(3))
		}
		c.Ops = append(c.Ops, sim.Op{K: "propose", A: int64(r.Intn(ncli)), B: int64(r.Intn(nreg)), C: tgt,
			D: int64(r.Pick(0, 0, 1, 3, 10, 30, 100, 300))})
	}
	return c
}

// proposal is the harness's record of one tagged ProposeCommand call.
type proposal struct {
	tag      string
	ts       uint64
	region   uint64
	client   int
	node     *node
	req      *pb.RaftCmdRequest
	resp     *pb.RaftCmdResponse
	err      error
	reqID    uint64
	callStep int64
	pending  bool
	success  bool
}

type c22 struct {
	w       *world
	belief  [][]int // client -> region index -> store index
	nextTs  uint64
	props   []*proposal
	byTag   map[string]*proposal
	okCount int
	lvOK    bool
}

func regionKey(w *world, ri int, k int) []byte {
	// Regions are split at "m", "t": region 1 keys start with 'a', region 2 with 'n', region 3 with 'u'.
	return []byte(fmt.Sprintf("%c%d", "anu"[ri], k))
}

func epochPB() *pb.RegionEpoch { return &pb.RegionEpoch{Version: 1, ConfVer: 1} }

func (h *c22) propose(cl *cliTask, ri int, target int, onFinish func(p *proposal)) bool {
	w := h.w
	if cl.busy {
		w.res.Probes["client_busy"]++
		return false
	}
	n := w.nodes[target]
	rg := w.regions[ri]
	h.nextTs++
	ts := h.nextTs
	key := regionKey(w, ri, int(ts%3))
	req := &pb.RaftCmdRequest{
		Header: &pb.CmdHeader{RegionId: rg.ID, RegionEpoch: epochPB()},
		Requests: []*pb.Request{{CmdType: pb.CmdType_CMD_PREWRITE, Cmd: &pb.Request_Prewrite{Prewrite: &pb.PrewriteRequest{
			Mutations:    []*pb.Mutation{{Op: pb.Mutation_Put, Key: key, Value: []byte(fmt.Sprintf("v%d", ts))}},
			PrimaryLock:  key,
			StartVersion: ts,
			LockTtl:      3000,
		}}}},
	}
	p := &proposal{tag: tagOf(req), ts: ts, region: rg.ID, client: cl.id, node: n, req: req, pending: true}
	h.props = append(h.props, p)
	h.byTag[p.tag] = p
	if n.down {
		p.pending = false
		p.err = fmt.Errorf("store down")
		w.tr("propose c%d %s -> s%d down", cl.id, p.tag, n.id)
		w.res.Probes["target_down"]++
		if onFinish != nil {
			onFinish(p)
		}
		return true
	}
	w.tr("propose c%d %s -> s%d", cl.id, p.tag, n.id)
	w.dispatch(cl, func() {
		p.resp, p.err = n.st.ProposeCommand(req)
	}, func() {
		h.finished(p)
		if onFinish != nil {
			onFinish(p)
		}
	})
	p.callStep = cl.callStep
	if p.pending {
		// The call is blocked inside the store: its request id has been assigned.
		p.reqID = req.GetHeader().GetRequestId()
		for _, q := range h.props {
			if q != p && q.pending && q.reqID == p.reqID && q.reqID != 0 && q.region == p.region && q.node != p.node {
				w.res.Probes["same_request_id_pending_on_two_stores"]++
			}
		}
	}
	return true
}

// finished evaluates the at-return oracle of one proposal (root goroutine).
func (h *c22) finished(p *proposal) {
	w := h.w
	p.pending = false
	p.reqID = p.req.GetHeader().GetRequestId()
	n := p.node
	switch {
	case p.err != nil:
		w.tr("result %s err", p.tag)
		w.res.Probes["proposal_error"]++
		return
	case p.resp.GetRegionError() != nil:
		w.tr("result %s region-error notleader=%v", p.tag, p.resp.GetRegionError().GetNotLeader() != nil)
		w.res.Probes["proposal_region_error"]++
		return
	}
	p.success = true
	h.okCount++
	w.res.Checks++
	if n.lostAt[p.region] >= p.callStep {
		w.res.Probes["leader_changed_while_proposal_pending"]++
	}
	w.mu.Lock()
	cnt := n.tagCount[fmt.Sprintf("%d/%s", p.region, p.tag)]
	from, known := n.respTag[p.resp]
	w.mu.Unlock()
	w.tr("result %s ok applied=%d from=%s", p.tag, cnt, from)
	if !n.wasLeaderSince(p.region, p.callStep) {
		w.res.Violate(w.opIdx, "accepted_by_non_leader", map[string]string{"op": "propose"},
			"store %d reported success for %s although it was never leader of region %d while the call was in flight", n.id, p.tag, p.region)
	}
	switch {
	case known && from == p.tag && cnt == 1:
		return
	case known && from != p.tag:
		cause := "other"
		if q := h.byTag[from]; q != nil && q.reqID == p.reqID {
			switch {
			case q.node.idx != n.idx:
				cause = "same_request_id_on_two_stores"
			case q.node != n:
				cause = "request_id_reused_after_restart"
			}
		}
		qd := "?"
		if q := h.byTag[from]; q != nil {
			qd = fmt.Sprintf("proposed at store %d (incarnation %d) with request id %d", q.node.id, q.node.inc, q.reqID)
		}
		w.res.Violate(w.opIdx, "wrong_response", map[string]string{"cause": cause},
			"proposal %s at store %d (request id %d) was answered with the response the applier produced for %s (%s); own command applied %d time(s) on that store at return",
			p.tag, n.id, p.reqID, from, qd, cnt)
	case !known:
		w.res.Violate(w.opIdx, "response_of_unknown_origin", nil,
			"proposal %s at store %d reported success with a response no apply on that store produced (applied %d time(s))", p.tag, n.id, cnt)
	case cnt == 0:
		w.res.Violate(w.opIdx, "success_not_applied", nil, "proposal %s reported success but is not in store %d's applied sequence", p.tag, n.id)
	default:
		// cnt > 1: reported as applied_twice by the apply observer.
	}
}

func (h *c22) learn(p *proposal, ci, ri int) {
	w := h.w
	if p.success {
		return
	}
	if ne := p.resp.GetRegionError().GetNotLeader(); ne != nil && ne.GetLeader() != nil {
		h.belief[ci][ri] = int(ne.GetLeader().GetStoreId()) - 1
		return
	}
	h.belief[ci][ri] = (p.node.idx + 1) % len(w.nodes)
}

func execC22(t *testing.T, c *sim.Case) *sim.Result {
	res := sim.NewResult()
	synctest.Test(t, func(t *testing.T) {
		w := newWorld(t, c, res)
		w.uniqTags = true
		nreg := int(c.CfgInt("regions", 1))
		if nreg < 1 || nreg > 2 {
			nreg = 1
		}
		voters := make([][]int, nreg)
		for i := range voters {
			voters[i] = []int{0, 1, 2}
		}
		if err := w.boot(3, makeRegions([]string{"m", "t"}, voters)); err != nil {
			res.Violate(0, "boot_failed", nil, "%v", err)
			w.shutdown()
			return
		}
		h := &c22{w: w, byTag: map[string]*proposal{}}
		ncli := int(c.CfgInt("clients", 3))
		for i := 0; i < ncli; i++ {
			w.newClient(fmt.Sprintf("c%d", i))
			h.belief = append(h.belief, make([]int, nreg))
		}
		lv := w.newClient("lv")
		h.belief = append(h.belief, make([]int, nreg))

		for i, op := range c.Ops {
			w.opIdx = i
			if op.D > 0 {
				w.runUntil(w.now() + time.Duration(op.D)*time.Millisecond)
			}
			w.step++
			switch op.K {
			case "propose":
				ci, ri := imod(op.A, ncli), imod(op.B, nreg)
				target := h.belief[ci][ri]
				if op.C > 0 {
					target = imod(op.C-1, 3)
				}
				h.propose(w.clients[ci], ri, target, func(p *proposal) { h.learn(p, ci, ri) })
			default:
				if w.faultOp(op) {
					w.tr("op %s", op.String())
					synctest.Wait()
					w.afterStep()
				}
			}
		}
		w.opIdx = len(c.Ops)

		// Fault-free phase: a fresh proposal must succeed within 30 simulated seconds per region.
		w.healAll()
		t0 := w.now()
		for ri := 0; ri < nreg; ri++ {
			ri := ri
			ok := false
			var kick func()
			kick = func() {
				if ok {
					return
				}
				if !lv.busy {
					h.propose(lv, ri, h.belief[ncli][ri], func(p *proposal) {
						if p.success {
							ok = true
						} else {
							h.learn(p, ncli, ri)
						}
					})
				}
				w.after(200*time.Millisecond, kick)
			}
			kick()
			w.runWhile(t0+30*time.Second, func() bool { return !ok })
			res.Checks++
			if !ok {
				res.Violate(w.opIdx, "no_progress_after_heal", nil,
					"region %d: no fresh proposal succeeded within 30 simulated seconds after the last fault (%s)", w.regions[ri].ID, w.describe())
			} else {
				w.tr("liveness r%d ok after %dms", w.regions[ri].ID, (w.now()-t0)/time.Millisecond)
			}
		}
		h.summary()
		w.shutdown()
	})
	return res
}

func (h *c22) summary() {
	w := h.w
	nf := 0
	keys := make([]string, 0, len(w.res.Faults))
	for k := range w.res.Faults {
		keys = append(keys, k)
	}
	sort.Strings(keys)
	for _, k := range keys {
		if k != "leader_elected" {
			nf += w.res.Faults[k]
		}
	}
	// Non-trivial: at least one injected fault fired and at least two proposals were acknowledged.
	w.res.Nontrivial = nf > 0 && h.okCount >= 2
}

// describe renders every store's view for liveness diagnostics.
func (w *world) describe() string {
	s := ""
	for _, n := range w.nodes {
		s += fmt.Sprintf("[s%d inc%d down=%v", n.id, n.inc, n.down)
		for _, rg := range w.regions {
			if p := w.regionPeer(n, rg.ID); p != nil {
				st := p.Status()
				s += fmt.Sprintf(" r%d:%v t%d lead=%d c%d a%d", rg.ID, st.RaftState, st.Term, st.Lead, st.Commit, st.Applied)
			}
		}
		s += "]"
	}
	return s
}
