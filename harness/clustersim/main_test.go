package clustersim

import (
	"io"
	"log"
	"testing"

	myraft "github.com/feichai0017/NoKV/raft"

	"verif/sim"
)

var props = map[string]sim.PropSpec{}

func TestVerif(t *testing.T) { sim.Main(t, "clustersim", props) }

// discardLogger silences etcd raft (it logs every state change loudly).
type discardLogger struct{}

func (discardLogger) Debug(v ...any)                   {}
func (discardLogger) Debugf(format string, v ...any)   {}
func (discardLogger) Error(v ...any)                   {}
func (discardLogger) Errorf(format string, v ...any)   {}
func (discardLogger) Info(v ...any)                    {}
func (discardLogger) Infof(format string, v ...any)    {}
func (discardLogger) Warning(v ...any)                 {}
func (discardLogger) Warningf(format string, v ...any) {}
func (discardLogger) Fatal(v ...any)                   { panic("raft fatal") }
func (discardLogger) Fatalf(format string, v ...any)   { panic("raft fatal") }
func (discardLogger) Panic(v ...any)                   { panic(v) }
func (discardLogger) Panicf(format string, v ...any)   { panic(format) }

func init() {
	log.SetOutput(io.Discard)
	myraft.SetLogger(discardLogger{})
}
