package clustersim

import (
	"testing/synctest"
	"time"

	"verif/sim"
)

var tickChoices = []time.Duration{50 * time.Millisecond, 100 * time.Millisecond, 150 * time.Millisecond, 250 * time.Millisecond}

func imod(a int64, n int) int {
	if n <= 0 {
		return 0
	}
	v := int(a % int64(n))
	if v < 0 {
		v += n
	}
	return v
}

// faultOp interprets one network/store fault step; false when op is not a fault step.
// Every step is lenient: indices are taken modulo what exists, inapplicable steps are no-ops.
func (w *world) faultOp(op sim.Op) bool {
	ns := len(w.nodes)
	a, b := imod(op.A, ns), imod(op.B, ns)
	switch op.K {
	case "cut": // one-way partition a -> b
		if a != b && !w.links[a][b].cut {
			w.links[a][b].cut = true
			w.fault("partition_oneway")
		}
	case "isolate": // symmetric partition of store a from all others
		for j := 0; j < ns; j++ {
			if j != a {
				w.links[a][j].cut, w.links[j][a].cut = true, true
			}
		}
		w.fault("partition_sym")
	case "lossy": // a -> b drops C percent (S=="sym": both directions, S=="all": every link)
		w.eachLink(a, b, op.S, func(l *link) { l.drop = imod(op.C, 61) })
		w.fault("link_lossy")
	case "dupl":
		w.eachLink(a, b, op.S, func(l *link) { l.dup = imod(op.C, 41) })
		w.fault("link_dup")
	case "slow":
		w.eachLink(a, b, op.S, func(l *link) { l.delayMax = imod(op.C, 401) })
		w.fault("link_slow")
	case "healnet":
		for i := range w.links {
			for j := range w.links[i] {
				w.links[i][j] = link{}
			}
		}
		w.fault("heal_net")
	case "freeze_leader": // region A: its current leader is cut off from everyone AND stops ticking (a paused process)
		rg := w.regions[imod(op.A, len(w.regions))].ID
		if ld := w.leaderOf(rg); ld >= 0 {
			for j := 0; j < ns; j++ {
				if j != ld {
					w.links[ld][j].cut, w.links[j][ld].cut = true, true
				}
			}
			w.nodes[ld].stalled = true
			w.frozen = ld
			w.fault("leader_frozen")
		}
	case "stall":
		n := w.nodes[a]
		n.stalled = op.B%2 == 1
		if n.stalled {
			w.fault("stall")
		}
	case "skew":
		w.nodes[a].tick = tickChoices[imod(op.B, len(tickChoices))]
		w.fault("tick_skew")
	case "transfer": // region A: current leader hands over to store B
		rg := w.regions[imod(op.A, len(w.regions))].ID
		if ld := w.leaderOf(rg); ld >= 0 && ld != b {
			if p := w.regionPeer(w.nodes[ld], rg); p != nil && w.hostsRegion(b, rg) {
				_ = p.TransferLeader(peerID(rg, b))
				w.fault("leader_transfer")
			}
		}
	case "campaign": // region A: store B campaigns
		rg := w.regions[imod(op.A, len(w.regions))].ID
		if p := w.regionPeer(w.nodes[b], rg); p != nil {
			_ = p.Campaign()
			w.fault("campaign")
		}
	case "crash":
		if w.crash(a) {
			w.fault("store_crash")
		}
	case "restart":
		if w.restart(a) {
			w.fault("store_restart")
		}
	case "crashrestart":
		if w.crash(a) {
			w.fault("store_crash")
			if w.restart(a) {
				w.fault("store_restart")
			}
		}
	case "wait":
	default:
		return false
	}
	return true
}

func (w *world) hostsRegion(storeIdx int, region uint64) bool {
	for _, rg := range w.regions {
		if rg.ID == region {
			for _, p := range rg.Peers {
				if int(p.StoreID) == storeIdx+1 {
					return true
				}
			}
		}
	}
	return false
}

func (w *world) eachLink(a, b int, mode string, f func(*link)) {
	switch mode {
	case "all":
		for i := range w.links {
			for j := range w.links[i] {
				if i != j {
					f(&w.links[i][j])
				}
			}
		}
	case "sym":
		if a != b {
			f(&w.links[a][b])
			f(&w.links[b][a])
		}
	default:
		if a != b {
			f(&w.links[a][b])
		}
	}
}

// healAll ends the fault phase: network healed, stalls and skew removed, crashed stores restarted.
func (w *world) healAll() {
	w.healNet()
	for i, n := range w.nodes {
		if n.down {
			w.restart(i)
		}
	}
	w.tr("heal-all")
	w.lastFault = w.now()
	synctest.Wait()
	w.afterStep()
}

var delayChoices = []int64{0, 0, 1, 3, 10, 30, 100, 100, 300, 300, 1000, 2500}

// genFault draws one fault step (D = delay in ms before the step executes).
func genFault(r *sim.Rand, nstores, nregions int) sim.Op {
	op := sim.Op{A: int64(r.Intn(nstores)), B: int64(r.Intn(nstores)), D: delayChoices[r.Intn(len(delayChoices))]}
	modes := []string{"", "sym", "sym", "all"}
	switch r.Intn(22) {
	case 0, 1:
		op.K = "cut"
	case 2, 3, 4:
		op.K = "isolate"
	case 5, 6:
		op.K, op.C, op.S = "lossy", int64(r.Pick(5, 10, 20, 40, 60)), modes[r.Intn(len(modes))]
	case 7, 8:
		op.K, op.C, op.S = "dupl", int64(r.Pick(5, 20, 40)), modes[r.Intn(len(modes))]
	case 9, 10, 11:
		op.K, op.C, op.S = "slow", int64(r.Pick(5, 20, 50, 150, 400)), modes[r.Intn(len(modes))]
	case 12, 13, 14:
		op.K = "healnet"
	case 15:
		op.K, op.B = "stall", int64(r.Intn(2))
	case 16:
		op.K, op.B = "skew", int64(r.Intn(4))
	case 17, 18:
		op.K, op.A = "transfer", int64(r.Intn(nregions))
	case 19:
		op.K, op.A = "campaign", int64(r.Intn(nregions))
	case 20:
		op.K = "crashrestart"
	default:
		if r.Intn(2) == 0 {
			op.K = "crash"
		} else {
			op.K = "restart"
		}
	}
	return op
}
