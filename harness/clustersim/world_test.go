// Package clustersim is engine E4: up to three real stores (NoKV.DB +
// raftstore store.Store + peers on engine.WALStorage + etcd raft RawNode) in
// one synctest bubble. The network (SimNet), the raft tick clock and client
// dispatch are owned by the harness's root goroutine: Send appends to a
// discrete-event heap ordered by (simulated time, sequence); the root pops
// events and delivers each as a synchronous Store.Step, ticks are events too.
package clustersim

import (
	"container/heap"
	crand "crypto/rand"
	"fmt"
	"io"
	"os"
	"path/filepath"
	"sort"
	"sync"
	"sync/atomic"
	"testing"
	"testing/synctest"
	"time"

	NoKV "github.com/feichai0017/NoKV"
	"github.com/feichai0017/NoKV/manifest"
	"github.com/feichai0017/NoKV/pb"
	myraft "github.com/feichai0017/NoKV/raft"
	rkv "github.com/feichai0017/NoKV/raftstore/kv"
	"github.com/feichai0017/NoKV/raftstore/peer"
	"github.com/feichai0017/NoKV/raftstore/store"
	"github.com/feichai0017/NoKV/verifhook"

	"verif/sim"
)

const (
	evMsg = iota
	evTick
	evFn
)

type event struct {
	at    time.Duration
	seq   uint64
	kind  int
	store int // destination store index
	from  int // sending store index (evMsg)
	msg   myraft.Message
	fn    func()
}

type evHeap []*event

func (h evHeap) Len() int { return len(h) }
func (h evHeap) Less(i, j int) bool {
	if h[i].at != h[j].at {
		return h[i].at < h[j].at
	}
	return h[i].seq < h[j].seq
}
func (h evHeap) Swap(i, j int) { h[i], h[j] = h[j], h[i] }
func (h *evHeap) Push(x any)   { *h = append(*h, x.(*event)) }
func (h *evHeap) Pop() any {
	old := *h
	n := len(old)
	x := old[n-1]
	old[n-1] = nil
	*h = old[:n-1]
	return x
}

// link is the fault state of one directed store-to-store link.
type link struct {
	cut      bool
	drop     int // percent
	dup      int // percent
	delayMax int // extra delay in ms, drawn per message in [0,delayMax]
}

// applyRec is one applied write command as seen by the wrapped CommandApplier.
type applyRec struct {
	tag  string
	req  *pb.RaftCmdRequest
	resp *pb.RaftCmdResponse
	err  error
	step int64
}

// node is one incarnation of a store.
type node struct {
	idx     int
	id      uint64
	inc     int
	dir     string
	db      *NoKV.DB
	st      *store.Store
	svc     *rkv.Service
	tr      *simTransport
	dead    bool // zombie: an incarnation that "crashed" (cut off for good)
	down    bool // slot has no live incarnation (between crash and restart)
	stalled bool
	tick    time.Duration

	applied  map[uint64][]applyRec
	tagCount map[string]int
	respTag  map[*pb.RaftCmdResponse]string
	innerTag map[any]string // per-request response message (e.g. *pb.PrewriteResponse) -> tag of the command that produced it
	isLeader map[uint64]bool
	lostAt   map[uint64]int64 // step at which leadership was last observed lost
	term     map[uint64]uint64
}

type simTransport struct {
	w *world
	n *node
}

// cliTask is a dumb executor of one blocking SUT call at a time; all client
// logic (targets, retries, timestamps) lives on the root goroutine.
type cliTask struct {
	id       int
	name     string
	task     *sim.Task
	fn       func()
	busy     bool
	finished atomic.Bool
	onDone   func()
	callStep int64
}

type pendViol struct {
	class  string
	sig    map[string]string
	detail string
}

type world struct {
	t   *testing.T
	c   *sim.Case
	res *sim.Result
	dir string

	start time.Time
	h     evHeap
	seq   uint64
	step  int64 // logical clock: one tick per root action

	nodes   []*node
	zombies []*node
	regions []manifest.RegionMeta
	links   [][]link
	sched   *sim.Sched
	clients []*cliTask
	quit    atomic.Bool

	mu         sync.Mutex
	canon      map[uint64][]string
	viols      []pendViol
	uniqTags   bool // tags are unique per proposal: a tag applied twice on a store is a violation
	baseDelay  time.Duration
	lastFault  time.Duration
	frozen     int // store index last hit by freeze_leader (-1: none)
	opIdx      int
	harvesting bool
	tbuf       *[]string

	electionTick, heartbeatTick int
	oldReader                   io.Reader
	real0                       float64
}

// detReader feeds etcd raft's randomized election timeouts (crypto/rand.Reader
// is what raft v3.6.0 reads) from a stream that is a pure function of the case.
type detReader struct{ r *sim.Rand }

func (d *detReader) Read(p []byte) (int, error) {
	for i := range p {
		p[i] = byte(d.r.Uint64() >> 24)
	}
	return len(p), nil
}

var worldSeq int

func newWorld(t *testing.T, c *sim.Case, res *sim.Result) *world {
	worldSeq++
	dir := filepath.Join(sim.Scratch(), fmt.Sprintf("cw%d", worldSeq))
	_ = os.RemoveAll(dir)
	_ = os.MkdirAll(dir, 0o755)
	w := &world{t: t, c: c, res: res, dir: dir, start: time.Now(), canon: map[uint64][]string{}, real0: realNow(), frozen: -1}
	w.baseDelay = time.Duration(c.CfgInt("base_delay_ms", 1)) * time.Millisecond
	w.electionTick = int(c.CfgInt("election_tick", 10))
	w.heartbeatTick = int(c.CfgInt("heartbeat_tick", 2))
	verifhook.Reset()
	verifhook.Set("lsm.no-background-compaction", 1)
	verifhook.Set("lsm.serial-table-build", 1)
	w.sched = sim.NewSched(sim.NewRand(c.Seed, c.Run, 1), c.Sched, res.Trace)
	w.oldReader = crand.Reader
	crand.Reader = &detReader{r: sim.NewRand(uint64(c.CfgInt("raft_rand", 1)), 0, 7)}
	return w
}

func (w *world) now() time.Duration { return time.Since(w.start) }

func (w *world) push(ev *event) {
	w.seq++
	ev.seq = w.seq
	heap.Push(&w.h, ev)
}

func (w *world) after(d time.Duration, fn func()) {
	w.push(&event{at: w.now() + d, kind: evFn, fn: fn})
}

func (w *world) violate(class string, sig map[string]string, format string, a ...any) {
	w.viols = append(w.viols, pendViol{class, sig, fmt.Sprintf(format, a...)})
}

func (w *world) flushViols() {
	w.mu.Lock()
	vs := w.viols
	w.viols = nil
	w.mu.Unlock()
	for _, v := range vs {
		w.res.Violate(w.opIdx, v.class, v.sig, "%s", v.detail)
	}
}

// ---- cluster construction -------------------------------------------------

func peerID(region uint64, storeIdx int) uint64 { return region*10 + uint64(storeIdx+1) }
func storeOfPeer(id uint64) int                 { return int(id%10) - 1 }

func dbOptions(dir string) *NoKV.Options {
	opt := NoKV.NewDefaultOptions()
	opt.WorkDir = dir
	opt.MemTableSize = 8 << 20
	opt.SSTableMaxSz = 8 << 20
	opt.ValueThreshold = 1 << 20
	opt.ValueLogFileSize = 1 << 16
	opt.ValueLogBucketCount = 1
	opt.ValueLogHotBucketCount = 0
	opt.ValueLogGCInterval = 0
	opt.ValueLogGCSampleFromHead = true
	opt.HotRingEnabled = false
	opt.ValueLogHotRingOverride = false
	opt.WriteHotKeyLimit = 0
	opt.WriteBatchWait = 0
	opt.BlockCacheSize = 4096
	opt.BloomCacheSize = 16
	opt.SyncWrites = false
	opt.ManifestSync = false
	opt.EnableWALWatchdog = false
	opt.WALAutoGCInterval = time.Hour
	opt.NumCompactors = 1
	opt.DetectConflicts = false
	return opt
}

// makeRegions builds nreg contiguous regions; voters[r] lists the store
// indices hosting region r+1.
func makeRegions(bounds []string, voters [][]int) []manifest.RegionMeta {
	var out []manifest.RegionMeta
	for r := range voters {
		m := manifest.RegionMeta{ID: uint64(r + 1), Epoch: manifest.RegionEpoch{Version: 1, ConfVersion: 1}, State: manifest.RegionStateRunning}
		if r > 0 {
			m.StartKey = []byte(bounds[r-1])
		}
		if r < len(voters)-1 {
			m.EndKey = []byte(bounds[r])
		}
		for _, s := range voters[r] {
			m.Peers = append(m.Peers, manifest.PeerMeta{StoreID: uint64(s + 1), PeerID: peerID(m.ID, s)})
		}
		out = append(out, m)
	}
	return out
}

func (w *world) raftConfig(id uint64) myraft.Config {
	return myraft.Config{
		ID:              id,
		ElectionTick:    w.electionTick,
		HeartbeatTick:   w.heartbeatTick,
		MaxSizePerMsg:   1 << 20,
		MaxInflightMsgs: 256,
		PreVote:         true,
	}
}

// openNode opens a DB in dir and builds a store around it; peers are started
// for every region of metas (fresh bootstrap) or, when metas is nil, for every
// region found in the manifest — the way `nokv serve` restores a store.
func (w *world) openNode(idx int, dir string, inc int, metas []manifest.RegionMeta) (n *node, err error) {
	defer func() {
		if r := recover(); r != nil {
			err = fmt.Errorf("open store %d panicked: %v", idx+1, r)
		}
	}()
	db := NoKV.Open(dbOptions(dir))
	n = &node{idx: idx, id: uint64(idx + 1), inc: inc, dir: dir, db: db, tick: 100 * time.Millisecond,
		applied: map[uint64][]applyRec{}, tagCount: map[string]int{}, respTag: map[*pb.RaftCmdResponse]string{}, innerTag: map[any]string{},
		isLeader: map[uint64]bool{}, lostAt: map[uint64]int64{}, term: map[uint64]uint64{}}
	n.tr = &simTransport{w: w, n: n}
	n.st = store.NewStoreWithConfig(store.Config{
		StoreID:        n.id,
		Manifest:       db.Manifest(),
		CommandApplier: w.applier(n),
	})
	n.svc = rkv.NewService(n.st)
	if metas == nil {
		snap := db.Manifest().RegionSnapshot()
		ids := make([]uint64, 0, len(snap))
		for id := range snap {
			ids = append(ids, id)
		}
		sort.Slice(ids, func(i, j int) bool { return ids[i] < ids[j] })
		for _, id := range ids {
			metas = append(metas, snap[id])
		}
	}
	for _, meta := range metas {
		var pid uint64
		for _, p := range meta.Peers {
			if p.StoreID == n.id {
				pid = p.PeerID
			}
		}
		if pid == 0 {
			continue
		}
		m := meta
		cfg := &peer.Config{
			RaftConfig: w.raftConfig(pid),
			Transport:  n.tr,
			Apply:      rkv.NewEntryApplier(db),
			WAL:        db.WAL(),
			Manifest:   db.Manifest(),
			GroupID:    meta.ID,
			Region:     manifest.CloneRegionMetaPtr(&m),
		}
		var boot []myraft.Peer
		for _, p := range meta.Peers {
			boot = append(boot, myraft.Peer{ID: p.PeerID})
		}
		if _, err := n.st.StartPeer(cfg, boot); err != nil {
			return n, fmt.Errorf("start peer %d: %w", pid, err)
		}
	}
	return n, nil
}

// boot creates nstores stores hosting the given regions and schedules ticks.
func (w *world) boot(nstores int, regions []manifest.RegionMeta) error {
	w.regions = regions
	w.links = make([][]link, nstores)
	for i := range w.links {
		w.links[i] = make([]link, nstores)
	}
	for i := 0; i < nstores; i++ {
		dir := filepath.Join(w.dir, fmt.Sprintf("s%d-0", i+1))
		_ = os.MkdirAll(dir, 0o755)
		n, err := w.openNode(i, dir, 0, regions)
		if n != nil {
			w.nodes = append(w.nodes, n)
		}
		if err != nil {
			return err
		}
	}
	synctest.Wait()
	for i := range w.nodes {
		i := i
		w.push(&event{at: w.now() + w.nodes[i].tick + time.Duration(i)*7*time.Millisecond, kind: evTick, store: i})
	}
	w.observe()
	return nil
}

func (w *world) regionPeer(n *node, region uint64) *peer.Peer {
	if n == nil || n.down || n.st == nil {
		return nil
	}
	p, ok := n.st.Peer(peerID(region, n.idx))
	if !ok {
		return nil
	}
	return p
}

// ---- apply observer ---------------------------------------------------------

func isReadOnly(req *pb.RaftCmdRequest) bool {
	for _, r := range req.GetRequests() {
		switch r.GetCmdType() {
		case pb.CmdType_CMD_GET, pb.CmdType_CMD_SCAN:
		default:
			return false
		}
	}
	return true
}

func firstKey(keys [][]byte) string {
	if len(keys) == 0 {
		return ""
	}
	return string(keys[0])
}

// tagOf names a write command by its content (not by its request id).
func tagOf(req *pb.RaftCmdRequest) string {
	s := ""
	for _, r := range req.GetRequests() {
		switch r.GetCmdType() {
		case pb.CmdType_CMD_PREWRITE:
			p := r.GetPrewrite()
			k := ""
			if len(p.GetMutations()) > 0 {
				k = string(p.GetMutations()[0].GetKey())
			}
			s += fmt.Sprintf("P%d:%s/%d;", p.GetStartVersion(), k, len(p.GetMutations()))
		case pb.CmdType_CMD_COMMIT:
			c := r.GetCommit()
			s += fmt.Sprintf("C%d-%d:%s/%d;", c.GetStartVersion(), c.GetCommitVersion(), firstKey(c.GetKeys()), len(c.GetKeys()))
		case pb.CmdType_CMD_BATCH_ROLLBACK:
			c := r.GetBatchRollback()
			s += fmt.Sprintf("R%d:%s/%d;", c.GetStartVersion(), firstKey(c.GetKeys()), len(c.GetKeys()))
		case pb.CmdType_CMD_RESOLVE_LOCK:
			c := r.GetResolveLock()
			s += fmt.Sprintf("L%d-%d:%s/%d;", c.GetStartVersion(), c.GetCommitVersion(), firstKey(c.GetKeys()), len(c.GetKeys()))
		case pb.CmdType_CMD_CHECK_TXN_STATUS:
			c := r.GetCheckTxnStatus()
			s += fmt.Sprintf("S%d@%d:%s;", c.GetLockTs(), c.GetCurrentTs(), c.GetPrimaryKey())
		default:
			s += fmt.Sprintf("?%v;", r.GetCmdType())
		}
	}
	return s
}

// applier wraps the store's CommandApplier: it records (store, region, tag,
// response) for every applied write command and checks the replica-agreement
// invariants incrementally.
func (w *world) applier(n *node) func(*pb.RaftCmdRequest) (*pb.RaftCmdResponse, error) {
	inner := rkv.NewApplier(n.db)
	return func(req *pb.RaftCmdRequest) (*pb.RaftCmdResponse, error) {
		resp, err := inner(req)
		if isReadOnly(req) {
			return resp, err
		}
		w.recordApply(n, req, resp, err)
		return resp, err
	}
}

func (w *world) recordApply(n *node, req *pb.RaftCmdRequest, resp *pb.RaftCmdResponse, err error) {
	w.mu.Lock()
	defer w.mu.Unlock()
	region := req.GetHeader().GetRegionId()
	tag := tagOf(req)
	pos := len(n.applied[region])
	n.applied[region] = append(n.applied[region], applyRec{tag: tag, req: req, resp: resp, err: err, step: w.step})
	if resp != nil {
		n.respTag[resp] = tag
		for _, r := range resp.GetResponses() {
			switch c := r.GetCmd().(type) {
			case *pb.Response_Prewrite:
				n.innerTag[c.Prewrite] = tag
			case *pb.Response_Commit:
				n.innerTag[c.Commit] = tag
			case *pb.Response_BatchRollback:
				n.innerTag[c.BatchRollback] = tag
			case *pb.Response_ResolveLock:
				n.innerTag[c.ResolveLock] = tag
			case *pb.Response_CheckTxnStatus:
				n.innerTag[c.CheckTxnStatus] = tag
			}
		}
	}
	if w.tbuf != nil {
		// C28: the client visits secondary regions in Go map order, so lines are buffered and
		// sorted per transaction and carry no request id (ids depend on that order).
		*w.tbuf = append(*w.tbuf, fmt.Sprintf("apply s%d.%d r%d %s err=%v", n.id, n.inc, region, tag, err != nil))
	} else {
		w.tr("apply s%d.%d r%d #%d %s id=%d err=%v", n.id, n.inc, region, pos, tag, req.GetHeader().GetRequestId(), err != nil)
	}
	w.res.Checks++
	key := fmt.Sprintf("%d/%s", region, tag)
	n.tagCount[key]++
	if w.uniqTags && n.tagCount[key] > 1 {
		w.violate("applied_twice", map[string]string{"restarted": yesNo(n.inc > 0)},
			"store %d (incarnation %d) applied command %s of region %d %d times (position %d)", n.id, n.inc, tag, region, n.tagCount[key], pos)
	}
	can := w.canon[region]
	if pos < len(can) {
		if can[pos] != tag {
			w.violate("replica_divergence", map[string]string{"restarted": yesNo(n.inc > 0)},
				"region %d position %d: store %d (incarnation %d) applied %s, another replica applied %s", region, pos, n.id, n.inc, tag, can[pos])
		}
	} else {
		w.canon[region] = append(can, tag)
	}
}

func yesNo(b bool) string {
	if b {
		return "yes"
	}
	return "no"
}

// ---- network ----------------------------------------------------------------

func (t *simTransport) Send(msg myraft.Message) {
	w, n := t.w, t.n
	w.mu.Lock()
	defer w.mu.Unlock()
	if n.dead {
		return
	}
	to := storeOfPeer(msg.To)
	if to < 0 || to >= len(w.nodes) || to == n.idx {
		return
	}
	l := &w.links[n.idx][to]
	if l.cut {
		w.res.Faults["msg_cut"]++
		return
	}
	copies := 1
	if l.drop > 0 || l.dup > 0 {
		v := w.sched.Choose(100)
		if v < l.drop {
			w.res.Faults["msg_drop"]++
			return
		}
		if v < l.drop+l.dup {
			copies = 2
			w.res.Faults["msg_dup"]++
		}
	}
	for i := 0; i < copies; i++ {
		d := w.baseDelay
		if l.delayMax > 0 {
			x := w.sched.Choose(l.delayMax + 1)
			if x > 0 {
				w.res.Faults["msg_delay"]++
			}
			d += time.Duration(x) * time.Millisecond
		}
		w.seq++
		heap.Push(&w.h, &event{at: w.now() + d, seq: w.seq, kind: evMsg, store: to, from: n.idx, msg: msg})
	}
}

func (w *world) process(ev *event) {
	w.step++
	w.res.Steps++
	sim.Beat()
	switch ev.kind {
	case evMsg:
		n := w.nodes[ev.store]
		m := ev.msg
		switch {
		case n.down:
			w.tr("lost(down) %d->%d %v", ev.from+1, ev.store+1, m.Type)
		case w.links[ev.from][ev.store].cut:
			w.res.Faults["msg_cut"]++
			w.tr("lost(cut) %d->%d %v", ev.from+1, ev.store+1, m.Type)
		default:
			w.tr("dlv %d->%d %v t%d i%d c%d n%d rej=%v", m.From, m.To, m.Type, m.Term, m.Index, m.Commit, len(m.Entries), m.Reject)
			if err := n.st.Step(m); err != nil {
				w.res.Probes["step_error"]++
				w.tr("step err")
			}
		}
	case evTick:
		n := w.nodes[ev.store]
		if !n.down && !n.stalled {
			ids := make([]uint64, 0, 2)
			for _, h := range n.st.Peers() {
				ids = append(ids, h.ID)
			}
			sort.Slice(ids, func(i, j int) bool { return ids[i] < ids[j] })
			for _, id := range ids {
				if err := n.st.Router().SendTick(id); err != nil {
					w.res.Probes["tick_error"]++
				}
			}
		}
		w.push(&event{at: ev.at + n.tick, kind: evTick, store: ev.store})
	case evFn:
		ev.fn()
	}
	synctest.Wait()
	w.afterStep()
}

func (w *world) afterStep() {
	w.observe()
	w.harvest()
	w.flushViols()
}

func (w *world) sleepTo(t time.Duration) {
	if d := t - w.now(); d > 0 {
		time.Sleep(d)
		synctest.Wait()
		w.harvest()
		w.flushViols()
	}
}

func heapPop(w *world) *event { return heap.Pop(&w.h).(*event) }

// runUntil processes every event due up to simulated time t and then advances the clock to t.
func (w *world) runUntil(t time.Duration) {
	for w.h.Len() > 0 && w.h[0].at <= t {
		ev := heap.Pop(&w.h).(*event)
		w.sleepTo(ev.at)
		w.process(ev)
	}
	w.sleepTo(t)
}

// runWhile processes events until cond() is false or the deadline passes; returns cond()'s last value negated.
func (w *world) runWhile(deadline time.Duration, cond func() bool) bool {
	for cond() {
		if w.h.Len() == 0 || w.h[0].at > deadline {
			w.sleepTo(deadline)
			return !cond()
		}
		ev := heap.Pop(&w.h).(*event)
		w.sleepTo(ev.at)
		w.process(ev)
	}
	return true
}

// observe refreshes the per-store leadership view after a root action.
func (w *world) observe() {
	for _, n := range w.nodes {
		for _, rg := range w.regions {
			p := w.regionPeer(n, rg.ID)
			lead := false
			if p != nil {
				st := p.Status()
				lead = st.RaftState == myraft.StateLeader
				if st.Term != n.term[rg.ID] {
					n.term[rg.ID] = st.Term
				}
			}
			if n.isLeader[rg.ID] && !lead {
				n.lostAt[rg.ID] = w.step
				w.tr("lead- s%d r%d", n.id, rg.ID)
			}
			if !n.isLeader[rg.ID] && lead {
				w.res.Faults["leader_elected"]++
				w.tr("lead+ s%d r%d t%d", n.id, rg.ID, n.term[rg.ID])
			}
			n.isLeader[rg.ID] = lead
		}
	}
}

// wasLeaderSince reports whether store n was observed as leader of region at
// some point at or after logical step `since`.
func (n *node) wasLeaderSince(region uint64, since int64) bool {
	return n.isLeader[region] || n.lostAt[region] >= since
}

// leaderOf returns the index of a live store that currently believes it leads region (lowest index), or -1.
func (w *world) leaderOf(region uint64) int {
	best, bestTerm := -1, uint64(0)
	for _, n := range w.nodes {
		if !n.down && n.isLeader[region] && (best < 0 || n.term[region] > bestTerm) {
			best, bestTerm = n.idx, n.term[region]
		}
	}
	return best
}

// ---- client tasks -----------------------------------------------------------

func (w *world) newClient(name string) *cliTask {
	c := &cliTask{id: len(w.clients), name: name}
	c.task = w.sched.Go(name, func() {
		for {
			if w.quit.Load() {
				return
			}
			if f := c.fn; f != nil {
				c.fn = nil
				f()
				c.finished.Store(true)
			}
			w.sched.Yield(nil, "idle")
		}
	})
	w.clients = append(w.clients, c)
	// Let the task goroutine reach its initial park before anybody tries to release it.
	synctest.Wait()
	return c
}

// dispatch hands one blocking call to an idle client task and lets it run until it blocks or finishes.
func (w *world) dispatch(c *cliTask, fn func(), onDone func()) bool {
	if c.busy {
		return false
	}
	w.step++
	c.busy, c.fn, c.onDone, c.callStep = true, fn, onDone, w.step
	c.finished.Store(false)
	w.sched.Release(c.task)
	w.afterStep()
	return true
}

// harvest collects finished calls in client order and runs their continuations on the root goroutine.
func (w *world) harvest() {
	if w.harvesting {
		return
	}
	w.harvesting = true
	defer func() { w.harvesting = false }()
	for again := true; again; {
		again = false
		for _, c := range w.clients {
			if c.busy && c.finished.Load() && w.sched.Parked(c.task) {
				c.busy = false
				w.step++
				if f := c.onDone; f != nil {
					c.onDone = nil
					f()
					again = true
				}
			}
		}
	}
}

func (w *world) anyBusy() bool {
	for _, c := range w.clients {
		if c.busy {
			return true
		}
	}
	return false
}

// ---- faults -----------------------------------------------------------------

func (w *world) fault(kind string) {
	w.res.Faults[kind]++
	w.lastFault = w.now()
}

func (w *world) healNet() {
	for i := range w.links {
		for j := range w.links[i] {
			w.links[i][j] = link{}
		}
	}
	for _, n := range w.nodes {
		n.stalled = false
		n.tick = 100 * time.Millisecond
	}
}

// crash cuts a process-crash image of store idx (after WAL().Sync(): unsynced
// raft state is C21's subject) and turns the running incarnation into a zombie.
func (w *world) crash(idx int) bool {
	n := w.nodes[idx]
	if n.down {
		return false
	}
	if err := n.db.WAL().Sync(); err != nil {
		w.res.Probes["wal_sync_error"]++
	}
	img := filepath.Join(w.dir, fmt.Sprintf("s%d-%d", idx+1, n.inc+1))
	if err := sim.CopyTree(n.dir, img); err != nil {
		w.res.Probes["image_error"]++
		return false
	}
	n.dead = true
	w.zombies = append(w.zombies, n)
	ph := &node{idx: idx, id: n.id, inc: n.inc, dir: img, down: true, tick: n.tick,
		isLeader: map[uint64]bool{}, lostAt: map[uint64]int64{}, term: map[uint64]uint64{}}
	for r, v := range n.isLeader {
		if v {
			ph.lostAt[r] = w.step
		} else {
			ph.lostAt[r] = n.lostAt[r]
		}
	}
	w.nodes[idx] = ph
	w.tr("crash s%d", idx+1)
	return true
}

func (w *world) restart(idx int) bool {
	ph := w.nodes[idx]
	if !ph.down {
		return false
	}
	n, err := w.openNode(idx, ph.dir, ph.inc+1, nil)
	if err != nil {
		w.res.Violate(w.opIdx, "restart_failed", nil, "store %d could not restart from its crash image: %v", idx+1, err)
		if n != nil && n.db != nil {
			n.dead = true
			w.zombies = append(w.zombies, n)
		}
		return false
	}
	n.tick = 100 * time.Millisecond
	n.lostAt = ph.lostAt
	w.nodes[idx] = n
	synctest.Wait()
	w.tr("restart s%d inc%d", idx+1, n.inc)
	return true
}

// ---- teardown ---------------------------------------------------------------

func (w *world) closeNode(n *node) {
	if n == nil || n.db == nil {
		return
	}
	if n.st != nil {
		for _, h := range n.st.Peers() {
			_ = h.Peer.Close()
		}
		n.st.Close()
	}
	func() {
		defer func() { _ = recover() }()
		_ = n.db.Close()
	}()
	n.db = nil
}

func (w *world) shutdown() {
	// Let every in-flight client call return (SUT timeouts run on the fake clock).
	w.runWhile(w.now()+8*time.Second, w.anyBusy)
	w.quit.Store(true)
	w.sched.Passthrough()
	time.Sleep(5 * time.Second)
	synctest.Wait()
	w.res.Sched = w.sched.Recorded
	w.res.SimTime = w.now()
	for _, n := range w.nodes {
		w.closeNode(n)
	}
	for _, n := range w.zombies {
		w.closeNode(n)
	}
	synctest.Wait()
	crand.Reader = w.oldReader
	verifhook.Reset()
	_ = os.RemoveAll(w.dir)
	dbg("run %d: %.0fms real, %d steps, %.1fs simulated", w.c.Run, (realNow()-w.real0)*1000, w.res.Steps, w.res.SimTime.Seconds())
}
