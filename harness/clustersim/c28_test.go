package clustersim

import (
	"bytes"
	"context"
	"fmt"
	"sort"
	"strconv"
	"strings"
	"testing"
	"testing/synctest"
	"time"

	"google.golang.org/grpc"
	"google.golang.org/grpc/codes"
	"google.golang.org/grpc/status"

	"github.com/feichai0017/NoKV/manifest"
	"github.com/feichai0017/NoKV/pb"
	"github.com/feichai0017/NoKV/raftstore/client"
	rkv "github.com/feichai0017/NoKV/raftstore/kv"

	"verif/sim"
)

func init() {
	props["C28"] = sim.PropSpec{Gen: genC28, Exec: execC28}
}

const (
	mPrewrite = 0
	mCommit   = 1
	fBefore   = 0 // fail before delivery
	fAfter    = 1 // deliver and lose the response
)

var methodNames = []string{"prewrite", "commit"}

// faultCode packs an RPC fault designator (method, region index, attempt, mode); 0 = no fault.
func faultCode(method, region, attempt, mode int) int64 {
	return int64(1 + (((method*3+region)*2+attempt)*2 + mode))
}

func decodeFault(c int64) (on bool, method, region, attempt, mode int) {
	if c <= 0 {
		return false, 0, 0, 0, 0
	}
	v := int((c - 1) % 24)
	mode = v % 2
	v /= 2
	attempt = v % 2
	v /= 2
	region = v % 3
	method = (v / 3) % 2
	return true, method, region, attempt, mode
}

func genC28(r *sim.Rand, tier string) *sim.Case {
	c := &sim.Case{Cfg: map[string]int64{
		"election_tick": 10, "heartbeat_tick": 2, "base_delay_ms": int64(r.Pick(1, 5)), "raft_rand": int64(r.Uint64() >> 2),
	}}
	repl := r.Intn(4) == 0
	nreg := r.Pick(2, 3, 3)
	nstores := r.Pick(1, 2, 3)
	if repl {
		nstores = 3
	}
	c.Cfg["replicated"], c.Cfg["regions"], c.Cfg["stores"] = b2i(repl), int64(nreg), int64(nstores)
	c.Cfg["reuse_keys"] = int64(r.Pick(0, 0, 0, 1))
	reuse := c.Cfg["reuse_keys"] == 1
	for rg := 0; rg < nreg; rg++ {
		c.Cfg[fmt.Sprintf("leader%d", rg)] = int64(r.Intn(nstores))
	}
	nsets := 1 + r.Intn(2)
	if tier == "thorough" {
		nsets = 2 + r.Intn(3)
	}
	for s := 0; s < nsets; s++ {
		// Choose the regions of this mutation set (1..3; at most 2 when replicated, see NOTES.md) and 1-2 keys in each.
		maxR := nreg
		if (repl || reuse) && maxR > 2 {
			maxR = 2
		}
		nr := 1 + r.Intn(maxR)
		regs := r.Perm(nreg)[:nr]
		sort.Ints(regs)
		var mask, del int64
		var slots []int
		for _, rg := range regs {
			for j := 0; j < 1+r.Intn(2); j++ {
				bit := rg*2 + j
				mask |= 1 << bit
				slots = append(slots, bit)
				if reuse && r.Intn(4) == 0 {
					del |= 1 << bit
				}
			}
		}
		primary := slots[r.Intn(len(slots))]
		attempts := 1
		if repl {
			attempts = 2
		}
		mk := func(code int64, extra string) sim.Op {
			return sim.Op{K: "txn", A: mask | del<<8, B: int64(primary), C: code, S: extra, D: int64(r.Pick(0, 10, 100))}
		}
		c.Ops = append(c.Ops, mk(0, ""))
		// Every RPC position of the prewrite/commit sequence, both fault modes.
		for m := 0; m < 2; m++ {
			for _, rg := range regs {
				for a := 0; a < attempts; a++ {
					for mode := 0; mode < 2; mode++ {
						extra := ""
						if repl && a == 1 {
							// Make a second attempt exist: move the region's leader away before the RPC so that
							// the client's cached leader answers not-leader first.
							extra = fmt.Sprintf("x:%d:%d:%d", rg, r.Intn(3), r.Pick(0, 60, 300))
						}
						c.Ops = append(c.Ops, mk(faultCode(m, rg, a, mode), extra))
					}
				}
			}
		}
		if repl {
			// Leader change in the middle of the protocol without any RPC fault.
			for k := 0; k < 2; k++ {
				c.Ops = append(c.Ops, mk(0, fmt.Sprintf("m:%d:%d:%d:%d", 1+r.Intn(2*nr), regs[r.Intn(len(regs))], r.Intn(3), r.Pick(0, 60, 300))))
			}
		}
	}
	return c
}

func b2i(b bool) int64 {
	if b {
		return 1
	}
	return 0
}

// ---- in-process TinyKv shim -------------------------------------------------

type c28 struct {
	w      *world
	nreg   int
	repl   bool
	reuse  bool
	model  map[string]string // committed value per key ("" = absent) after all decided transactions
	txnSeq int
	writer *client.Client
	reader *client.Client
	cl     *cliTask
	tbuf   []string
	rolled map[string]bool // keys that received a rollback record at some point
	coarse bool

	// per-transaction fault state
	faultOn                     bool
	fMethod, fRegion, fAtt, fMd int
	attempts                    map[string]int
	fired                       bool
	rpcIndex                    int
	faultsArmed                 bool
	midAt                       int
	midRegion, midStore, midMs  int
}

type shim struct {
	h     *c28
	store int
}

// origin describes, for a proposal-type RPC, the per-request response message the service
// returned, whether the reply carried a region error, and the tag of the command that was sent.
type origin struct {
	inner     any
	regionErr bool
	tag       string
}

func oneReq(t pb.CmdType, r *pb.Request) string {
	r.CmdType = t
	return tagOf(&pb.RaftCmdRequest{Requests: []*pb.Request{r}})
}

func shimCall[R any](s *shim, method int, region uint64, f func(*rkv.Service) (R, error), check func(R) origin) (R, error) {
	var zero R
	h, w := s.h, s.h.w
	name := "other"
	if method >= 0 {
		name = methodNames[method]
	}
	armed := h.faultsArmed && method >= 0
	att := 0
	if armed {
		key := fmt.Sprintf("%s/%d", name, region)
		att = h.attempts[key]
		h.attempts[key]++
		// Park: the root goroutine decides when this RPC proceeds (and may change leaders first).
		w.sched.Yield(nil, "rpc")
	}
	hit := armed && h.faultOn && !h.fired && h.fMethod == method && uint64(h.fRegion+1) == region && h.fAtt == att
	if hit && h.fMd == fBefore {
		h.fired = true
		w.res.Faults["rpc_fail_before_delivery"]++
		h.tbuf = append(h.tbuf, fmt.Sprintf("rpc %s r%d a%d s%d FAIL-BEFORE", name, region, att, s.store+1))
		return zero, status.Error(codes.Unavailable, "injected: request lost before delivery")
	}
	n := w.nodes[s.store]
	if n.down || n.svc == nil {
		return zero, status.Error(codes.Unavailable, "store down")
	}
	out, err := f(n.svc)
	if err == nil && check != nil {
		// C22's defect (a proposal answered with another command's response) is not C28's subject:
		// such a reply is turned into a lost response, which the protocol has to tolerate anyway.
		if o := check(out); !o.regionErr {
			w.mu.Lock()
			from, ok := n.innerTag[o.inner]
			w.mu.Unlock()
			if !ok || from != o.tag {
				w.res.Probes["c22_wrong_response_met"]++
				h.tbuf = append(h.tbuf, fmt.Sprintf("rpc %s r%d s%d WRONG-RESPONSE(C22)", name, region, s.store+1))
				return zero, status.Error(codes.Unavailable, "reply belongs to another command (C22 defect), treated as lost")
			}
		}
	}
	if armed {
		h.tbuf = append(h.tbuf, fmt.Sprintf("rpc %s r%d a%d s%d err=%v", name, region, att, s.store+1, err != nil))
	}
	if hit && h.fMd == fAfter {
		h.fired = true
		w.res.Faults["rpc_response_lost"]++
		h.tbuf = append(h.tbuf, fmt.Sprintf("rpc %s r%d a%d s%d RESPONSE-LOST", name, region, att, s.store+1))
		return zero, status.Error(codes.Unavailable, "injected: response lost")
	}
	return out, err
}

func (s *shim) KvGet(ctx context.Context, in *pb.KvGetRequest, _ ...grpc.CallOption) (*pb.KvGetResponse, error) {
	return shimCall(s, -1, in.GetContext().GetRegionId(), func(v *rkv.Service) (*pb.KvGetResponse, error) { return v.KvGet(ctx, in) }, nil)
}
func (s *shim) KvBatchGet(ctx context.Context, in *pb.KvBatchGetRequest, _ ...grpc.CallOption) (*pb.KvBatchGetResponse, error) {
	return shimCall(s, -1, in.GetContext().GetRegionId(), func(v *rkv.Service) (*pb.KvBatchGetResponse, error) { return v.KvBatchGet(ctx, in) }, nil)
}
func (s *shim) KvScan(ctx context.Context, in *pb.KvScanRequest, _ ...grpc.CallOption) (*pb.KvScanResponse, error) {
	return shimCall(s, -1, in.GetContext().GetRegionId(), func(v *rkv.Service) (*pb.KvScanResponse, error) { return v.KvScan(ctx, in) }, nil)
}
func (s *shim) KvPrewrite(ctx context.Context, in *pb.KvPrewriteRequest, _ ...grpc.CallOption) (*pb.KvPrewriteResponse, error) {
	return shimCall(s, mPrewrite, in.GetContext().GetRegionId(), func(v *rkv.Service) (*pb.KvPrewriteResponse, error) { return v.KvPrewrite(ctx, in) },
		func(o *pb.KvPrewriteResponse) origin {
			return origin{o.GetResponse(), o.GetRegionError() != nil, oneReq(pb.CmdType_CMD_PREWRITE, &pb.Request{Cmd: &pb.Request_Prewrite{Prewrite: in.GetRequest()}})}
		})
}
func (s *shim) KvCommit(ctx context.Context, in *pb.KvCommitRequest, _ ...grpc.CallOption) (*pb.KvCommitResponse, error) {
	return shimCall(s, mCommit, in.GetContext().GetRegionId(), func(v *rkv.Service) (*pb.KvCommitResponse, error) { return v.KvCommit(ctx, in) },
		func(o *pb.KvCommitResponse) origin {
			return origin{o.GetResponse(), o.GetRegionError() != nil, oneReq(pb.CmdType_CMD_COMMIT, &pb.Request{Cmd: &pb.Request_Commit{Commit: in.GetRequest()}})}
		})
}
func (s *shim) KvBatchRollback(ctx context.Context, in *pb.KvBatchRollbackRequest, _ ...grpc.CallOption) (*pb.KvBatchRollbackResponse, error) {
	return shimCall(s, -1, in.GetContext().GetRegionId(), func(v *rkv.Service) (*pb.KvBatchRollbackResponse, error) { return v.KvBatchRollback(ctx, in) },
		func(o *pb.KvBatchRollbackResponse) origin {
			return origin{o.GetResponse(), o.GetRegionError() != nil, oneReq(pb.CmdType_CMD_BATCH_ROLLBACK, &pb.Request{Cmd: &pb.Request_BatchRollback{BatchRollback: in.GetRequest()}})}
		})
}
func (s *shim) KvResolveLock(ctx context.Context, in *pb.KvResolveLockRequest, _ ...grpc.CallOption) (*pb.KvResolveLockResponse, error) {
	return shimCall(s, -1, in.GetContext().GetRegionId(), func(v *rkv.Service) (*pb.KvResolveLockResponse, error) { return v.KvResolveLock(ctx, in) },
		func(o *pb.KvResolveLockResponse) origin {
			return origin{o.GetResponse(), o.GetRegionError() != nil, oneReq(pb.CmdType_CMD_RESOLVE_LOCK, &pb.Request{Cmd: &pb.Request_ResolveLock{ResolveLock: in.GetRequest()}})}
		})
}
func (s *shim) KvCheckTxnStatus(ctx context.Context, in *pb.KvCheckTxnStatusRequest, _ ...grpc.CallOption) (*pb.KvCheckTxnStatusResponse, error) {
	return shimCall(s, -1, in.GetContext().GetRegionId(), func(v *rkv.Service) (*pb.KvCheckTxnStatusResponse, error) { return v.KvCheckTxnStatus(ctx, in) },
		func(o *pb.KvCheckTxnStatusResponse) origin {
			return origin{o.GetResponse(), o.GetRegionError() != nil, oneReq(pb.CmdType_CMD_CHECK_TXN_STATUS, &pb.Request{Cmd: &pb.Request_CheckTxnStatus{CheckTxnStatus: in.GetRequest()}})}
		})
}

// staticResolver answers region lookups from the fixed layout (stands in for PD).
type staticResolver struct{ regions []manifest.RegionMeta }

func (r *staticResolver) GetRegionByKey(_ context.Context, req *pb.GetRegionByKeyRequest) (*pb.GetRegionByKeyResponse, error) {
	for _, m := range r.regions {
		if (len(m.StartKey) == 0 || bytes.Compare(req.GetKey(), m.StartKey) >= 0) && (len(m.EndKey) == 0 || bytes.Compare(req.GetKey(), m.EndKey) < 0) {
			out := &pb.RegionMeta{Id: m.ID, StartKey: m.StartKey, EndKey: m.EndKey, EpochVersion: m.Epoch.Version, EpochConfVersion: m.Epoch.ConfVersion}
			for _, p := range m.Peers {
				out.Peers = append(out.Peers, &pb.RegionPeer{StoreId: p.StoreID, PeerId: p.PeerID})
			}
			return &pb.GetRegionByKeyResponse{Region: out}, nil
		}
	}
	return &pb.GetRegionByKeyResponse{NotFound: true}, nil
}
func (r *staticResolver) Close() error { return nil }

// ---- execution ----------------------------------------------------------------

// call runs one blocking client-API call on the client task while the root
// keeps delivering messages; RPCs parked at the shim are released one at a
// time, optionally after a leader change.
func (h *c28) call(fn func()) bool {
	w := h.w
	h.rpcIndex = 0
	w.dispatch(h.cl, fn, nil)
	deadline := w.now() + 120*time.Second
	for h.cl.busy {
		if w.sched.Parked(h.cl.task) && !h.cl.finished.Load() {
			h.rpcIndex++
			if h.midAt > 0 && h.rpcIndex == h.midAt {
				h.moveLeader(h.midRegion, h.midStore, h.midMs)
			}
			w.step++
			if !h.coarse {
				w.tr("release rpc %d", h.rpcIndex)
			}
			w.sched.Release(h.cl.task)
			w.afterStep()
			continue
		}
		if w.now() > deadline || w.h.Len() == 0 {
			return false
		}
		ev := heapPop(w)
		w.sleepTo(ev.at)
		w.process(ev)
	}
	return true
}

// retry repeats a reader-side client call while it fails with a transport/raft level error
// (a real reader retries too: not-leader without a hint, proposals dropped during a leader
// transfer). ok=false means a call did not return at all.
func (h *c28) retry(fn func() error) (err error, returned bool) {
	for i := 0; i < 12; i++ {
		var e error
		if !h.call(func() { e = fn() }) {
			return nil, false
		}
		if e == nil {
			return nil, true
		}
		err = e
		h.w.res.Probes["reader_call_retried"]++
		h.w.runUntil(h.w.now() + 400*time.Millisecond)
	}
	return err, true
}

func (h *c28) moveLeader(region, store, waitMs int) {
	w := h.w
	if !h.repl {
		return
	}
	rg := w.regions[region%len(w.regions)].ID
	store %= len(w.nodes)
	if ld := w.leaderOf(rg); ld >= 0 && ld != store {
		if p := w.regionPeer(w.nodes[ld], rg); p != nil {
			_ = p.TransferLeader(peerID(rg, store))
			w.fault("leader_transfer")
			w.tr("transfer r%d s%d->s%d wait=%d", rg, ld+1, store+1, waitMs)
			synctest.Wait()
			w.afterStep()
		}
	}
	if waitMs > 0 {
		w.runUntil(w.now() + time.Duration(waitMs)*time.Millisecond)
	}
}

type txnKey struct {
	key    string
	region int
	del    bool
	newVal string // "" for delete
	prev   string
}

func (h *c28) keyFor(region, slot int) string {
	if h.reuse {
		return fmt.Sprintf("%c_%d", "anu"[region], slot)
	}
	return fmt.Sprintf("%c%03d_%d", "anu"[region], h.txnSeq, slot)
}

// flushTrace emits the buffered per-RPC/apply lines of the current phase in sorted order. For a
// mutation set with two secondary regions the client visits them in Go map order, and what the
// second one sees when a fault hits the first depends on that order: those lines are dropped
// (only the order-independent summary lines of the transaction go into the trace).
func (h *c28) flushTrace() {
	sort.Strings(h.tbuf)
	for _, l := range h.tbuf {
		if !h.coarse {
			h.w.tr("%s", l)
		}
	}
	h.tbuf = h.tbuf[:0]
}

// primaryCommitted consults the apply observer: did a commit of (start, commit) covering the primary key apply without error?
func (h *c28) primaryCommitted(region uint64, primary string, start uint64) bool {
	w := h.w
	w.mu.Lock()
	defer w.mu.Unlock()
	for _, n := range w.nodes {
		for _, rec := range n.applied[region] {
			if rec.req == nil || rec.resp == nil {
				continue
			}
			for i, r := range rec.req.GetRequests() {
				c := r.GetCommit()
				if c == nil || c.GetStartVersion() != start || i >= len(rec.resp.GetResponses()) {
					continue
				}
				for _, k := range c.GetKeys() {
					if string(k) == primary && rec.resp.GetResponses()[i].GetCommit().GetError() == nil {
						return true
					}
				}
			}
		}
	}
	return false
}

func (h *c28) runTxn(op sim.Op, opIdx int) {
	w, res := h.w, h.w.res
	h.txnSeq++
	mask, del := op.A&0x3f, (op.A>>8)&0x3f
	if mask == 0 {
		mask = 1
	}
	var keys []*txnKey
	seen := map[string]bool{}
	primary := ""
	for bit := 0; bit < 6; bit++ {
		if mask&(1<<bit) == 0 {
			continue
		}
		rg := (bit / 2) % h.nreg
		k := &txnKey{key: h.keyFor(rg, bit%2), region: rg, del: h.reuse && del&(1<<bit) != 0}
		if seen[k.key] {
			continue
		}
		seen[k.key] = true
		if !k.del {
			k.newVal = fmt.Sprintf("t%d:%s", h.txnSeq, k.key)
		}
		k.prev = h.model[k.key]
		keys = append(keys, k)
		if int64(bit) == op.B {
			primary = k.key
		}
	}
	if h.repl || h.reuse {
		// At most one secondary region where the visiting order of secondaries (Go map order in
		// TwoPhaseCommit) would change what is observable: replicated layouts and re-used keys.
		var kept []*txnKey
		regs := map[int]bool{}
		for _, k := range keys {
			if !regs[k.region] && len(regs) >= 2 {
				continue
			}
			regs[k.region] = true
			kept = append(kept, k)
		}
		keys = kept
		ok := false
		for _, k := range keys {
			ok = ok || k.key == primary
		}
		if !ok {
			primary = ""
		}
	}
	if primary == "" {
		primary = keys[0].key
	}
	regset := map[int]bool{}
	for _, k := range keys {
		regset[k.region] = true
	}
	h.coarse = len(regset) > 2
	var primaryRegion int
	var muts []*pb.Mutation
	for _, k := range keys {
		if k.key == primary {
			primaryRegion = k.region
		}
		if k.del {
			muts = append(muts, &pb.Mutation{Op: pb.Mutation_Delete, Key: []byte(k.key)})
		} else {
			muts = append(muts, &pb.Mutation{Op: pb.Mutation_Put, Key: []byte(k.key), Value: []byte(k.newVal)})
		}
	}
	base := uint64(h.txnSeq) * 100
	start, commit, ttl := base+10, base+20, uint64(5)
	h.faultOn, h.fMethod, h.fRegion, h.fAtt, h.fMd = decodeFault(op.C)
	h.fRegion %= h.nreg
	h.attempts, h.fired, h.midAt = map[string]int{}, false, 0
	// Optional leader moves: "x:region:store:waitms" before the transaction, "m:rpcIndex:region:store:waitms" inside it.
	if f := strings.Split(op.S, ":"); len(f) >= 4 {
		n := make([]int, len(f))
		for i := 1; i < len(f); i++ {
			n[i], _ = strconv.Atoi(f[i])
		}
		switch {
		case f[0] == "x":
			h.moveLeader(n[1], n[2], n[3])
		case f[0] == "m" && len(f) >= 5:
			h.midAt, h.midRegion, h.midStore, h.midMs = n[1], n[2], n[3], n[4]
		}
	}
	w.tr("txn %d keys=%d primary=%s start=%d fault=%v/%s/r%d/a%d/%d", h.txnSeq, len(keys), primary, start, h.faultOn, methodNames[h.fMethod], h.fRegion+1, h.fAtt, h.fMd)

	// 1. The real client runs the two-phase commit; the shim injects the designated fault.
	var merr error
	h.faultsArmed = true
	okRun := h.call(func() { merr = h.writer.Mutate(context.Background(), []byte(primary), muts, start, commit, ttl) })
	h.faultsArmed = false
	h.flushTrace()
	if !okRun {
		res.Violate(opIdx, "client_call_stuck", map[string]string{"call": "Mutate"}, "Mutate did not return within 120 simulated seconds (%s)", w.describe())
		return
	}
	if h.faultOn && !h.fired {
		res.Probes["fault_position_not_reached"]++
	}
	w.tr("mutate err=%v fired=%v", merr != nil, h.fired)

	// 2. A reader resolves leftovers: CheckTxnStatus on the primary past the TTL, then ResolveLocks region by region.
	var st *pb.CheckTxnStatusResponse
	var serr error
	var returned bool
	if serr, returned = h.retry(func() (e error) {
		st, e = h.reader.CheckTxnStatus(context.Background(), []byte(primary), start, start+ttl+1)
		return e
	}); !returned {
		res.Violate(opIdx, "client_call_stuck", map[string]string{"call": "CheckTxnStatus"}, "CheckTxnStatus did not return (%s)", w.describe())
		return
	}
	if serr != nil || st == nil || st.GetError() != nil {
		res.Probes["check_txn_status_error"]++
		res.Violate(opIdx, "resolution_failed", map[string]string{"call": "CheckTxnStatus"}, "CheckTxnStatus(primary=%s, lockTs=%d, currentTs=%d) failed: err=%v keyerror=%v", primary, start, start+ttl+1, serr, st.GetError())
		h.flushTrace()
		return
	}
	resolveCommit := uint64(0)
	switch {
	case st.GetCommitVersion() > 0:
		resolveCommit = st.GetCommitVersion()
	case st.GetAction() == pb.CheckTxnStatusAction_CheckTxnStatusTTLExpireRollback, st.GetAction() == pb.CheckTxnStatusAction_CheckTxnStatusLockNotExistRollback:
	default:
		res.Violate(opIdx, "resolution_failed", map[string]string{"call": "CheckTxnStatus"}, "CheckTxnStatus past the TTL neither reported a commit version nor rolled back: action=%v ttl=%d", st.GetAction(), st.GetLockTtl())
		h.flushTrace()
		return
	}
	// Whether the primary commit succeeded is decided by the order in which the commit and the
	// status check applied in the primary's region (a commit still in flight when Mutate gave up
	// may land first): ask the apply observer now.
	committed := h.primaryCommitted(w.regions[primaryRegion].ID, primary, start)
	w.tr("primary-committed=%v", committed)
	res.Checks++
	if merr == nil && !committed {
		res.Violate(opIdx, "success_without_primary_commit", nil, "Mutate reported success for transaction start=%d but no commit of primary %s was applied", start, primary)
	}
	res.Checks++
	if committed != (resolveCommit > 0) {
		res.Violate(opIdx, "primary_status_mismatch", map[string]string{"committed": yesNo(committed)},
			"primary %s of transaction start=%d: commit applied=%v but CheckTxnStatus reported commit version %d action %v", primary, start, committed, st.GetCommitVersion(), st.GetAction())
	}
	byRegion := map[int][][]byte{}
	for _, k := range keys {
		byRegion[k.region] = append(byRegion[k.region], []byte(k.key))
		if resolveCommit == 0 {
			h.rolled[k.key] = true
		}
	}
	for rg := 0; rg < h.nreg; rg++ {
		if len(byRegion[rg]) == 0 {
			continue
		}
		ks := byRegion[rg]
		rerr, returned := h.retry(func() (e error) {
			_, e = h.reader.ResolveLocks(context.Background(), start, resolveCommit, ks)
			return e
		})
		if !returned {
			res.Violate(opIdx, "client_call_stuck", map[string]string{"call": "ResolveLocks"}, "ResolveLocks did not return (%s)", w.describe())
			return
		}
		if rerr != nil {
			res.Violate(opIdx, "resolution_failed", map[string]string{"call": "ResolveLocks"}, "ResolveLocks(start=%d, commit=%d, region %d) failed: %v", start, resolveCommit, rg+1, rerr)
		}
	}
	w.tr("resolved commit=%d action=%v", resolveCommit, st.GetAction())

	// 3. Read every key (Get and Scan) at and above the commit version.
	for _, ver := range []uint64{commit, commit + 30} {
		got := map[string]string{}
		readOK := true
		for _, k := range keys {
			var g *pb.GetResponse
			kk := k
			gerr, returned := h.retry(func() (e error) {
				g, e = h.reader.Get(context.Background(), []byte(kk.key), ver)
				return e
			})
			if !returned || gerr != nil || g.GetError() != nil {
				res.Violate(opIdx, "read_after_resolution_failed", map[string]string{"api": "Get"}, "Get(%s, %d) after resolution failed: err=%v keyerror=%v", k.key, ver, gerr, g.GetError())
				readOK = false
				continue
			}
			if !g.GetNotFound() {
				got[k.key] = string(g.GetValue())
			}
		}
		var kvs []*pb.KV
		scerr, returned := h.retry(func() (e error) {
			kvs, e = h.reader.Scan(context.Background(), []byte("a"), 500, ver)
			return e
		})
		if !returned || scerr != nil {
			res.Violate(opIdx, "read_after_resolution_failed", map[string]string{"api": "Scan"}, "Scan(a, 500, %d) after resolution failed: %v", ver, scerr)
			readOK = false
		}
		if !readOK {
			continue
		}
		scanned := map[string]string{}
		for _, kv := range kvs {
			scanned[string(kv.GetKey())] = string(kv.GetValue())
		}
		h.judge(opIdx, keys, primary, start, ver, got, scanned, committed, merr == nil)
	}
	h.flushTrace()
	// Narrow resync: the model adopts what is observable now.
	for _, k := range keys {
		var g *pb.GetResponse
		kk := k
		if e, ret := h.retry(func() (e error) {
			g, e = h.reader.Get(context.Background(), []byte(kk.key), commit+30)
			return e
		}); ret && e == nil && g != nil && g.GetError() == nil {
			if g.GetNotFound() {
				h.model[k.key] = ""
			} else {
				h.model[k.key] = string(g.GetValue())
			}
		}
	}
	h.flushTrace()
}

// judge evaluates atomicity for one read version.
func (h *c28) judge(opIdx int, keys []*txnKey, primary string, start, ver uint64, got, scanned map[string]string, committed, reportedOK bool) {
	res := h.w.res
	for _, src := range []struct {
		api string
		m   map[string]string
	}{{"Get", got}, {"Scan", scanned}} {
		res.Checks++
		var vis, invis, odd []string
		shadow := false
		for _, k := range keys {
			v := src.m[k.key]
			switch {
			case k.newVal == k.prev:
				// The mutation does not change the key (delete of an absent key): no information.
			case v == k.newVal:
				vis = append(vis, k.key)
			case v == k.prev:
				invis = append(invis, k.key)
			default:
				odd = append(odd, fmt.Sprintf("%s=%q(prev %q, new %q)", k.key, v, k.prev, k.newVal))
				if v == "" && h.rolled[k.key] {
					shadow = true
				}
			}
		}
		sig := map[string]string{"api": src.api, "primary_committed": yesNo(committed)}
		detail := fmt.Sprintf("transaction start=%d primary=%s read at version %d via %s: visible %v, not visible %v, other %v; primary commit applied=%v, Mutate reported success=%v, injected fault fired=%v (%s r%d attempt %d mode %d)",
			start, primary, ver, src.api, vis, invis, odd, committed, reportedOK, h.fired, methodNames[h.fMethod], h.fRegion+1, h.fAtt, h.fMd)
		switch {
		case len(odd) > 0:
			sig["rollback_record_on_key"] = yesNo(shadow)
			res.Violate(opIdx, "unexpected_value", sig, "%s", detail)
		case len(vis) > 0 && len(invis) > 0:
			res.Violate(opIdx, "partial_commit", sig, "%s", detail)
		case committed && len(invis) > 0:
			res.Violate(opIdx, "committed_txn_not_visible", sig, "%s", detail)
		case !committed && len(vis) > 0:
			res.Violate(opIdx, "uncommitted_txn_visible", sig, "%s", detail)
		}
	}
}

func execC28(t *testing.T, c *sim.Case) *sim.Result {
	res := sim.NewResult()
	synctest.Test(t, func(t *testing.T) {
		w := newWorld(t, c, res)
		nreg := int(c.CfgInt("regions", 2))
		if nreg < 2 || nreg > 3 {
			nreg = 2
		}
		nstores := int(c.CfgInt("stores", 1))
		if nstores < 1 || nstores > 3 {
			nstores = 1
		}
		repl := c.CfgInt("replicated", 0) == 1
		if repl {
			nstores = 3
		}
		voters := make([][]int, nreg)
		for i := range voters {
			if repl {
				voters[i] = []int{0, 1, 2}
			} else {
				voters[i] = []int{i % nstores}
			}
		}
		if err := w.boot(nstores, makeRegions([]string{"m", "t"}, voters)); err != nil {
			res.Violate(0, "boot_failed", nil, "%v", err)
			w.shutdown()
			return
		}
		// Elect leaders: the single voter of each region, or the configured store when replicated.
		for i, rg := range w.regions {
			s := voters[i][0]
			if repl {
				s = imod(c.CfgInt(fmt.Sprintf("leader%d", i), 0), 3)
			}
			if p := w.regionPeer(w.nodes[s], rg.ID); p != nil {
				_ = p.Campaign()
			}
			synctest.Wait()
			w.afterStep()
		}
		w.runUntil(w.now() + 400*time.Millisecond)

		// The scheduler's own "run task@site" lines are replaced by explicit ones: the number of
		// RPC parks of a 3-region transaction depends on the client's map iteration order.
		w.sched.Trace = nil
		h := &c28{w: w, nreg: nreg, repl: repl, reuse: c.CfgInt("reuse_keys", 0) == 1, model: map[string]string{}, rolled: map[string]bool{}, attempts: map[string]int{}}
		w.tbuf = &h.tbuf
		mk := func() *client.Client {
			m := map[uint64]pb.TinyKvClient{}
			for i := 0; i < nstores; i++ {
				m[uint64(i+1)] = &shim{h: h, store: i}
			}
			cli, err := client.NewWithStoreClients(m, &staticResolver{regions: w.regions}, 5)
			if err != nil {
				panic(err)
			}
			return cli
		}
		h.writer, h.reader = mk(), mk()
		h.cl = w.newClient("cli")
		ntx := 0
		for i, op := range c.Ops {
			w.opIdx = i
			if op.D > 0 {
				w.runUntil(w.now() + time.Duration(op.D)*time.Millisecond)
			}
			w.step++
			if op.K == "txn" {
				h.runTxn(op, i)
				ntx++
			} else if w.faultOp(op) {
				w.tr("op %s", op.String())
				synctest.Wait()
				w.afterStep()
			}
		}
		// Non-trivial: at least one injected RPC fault fired and at least two transactions ran.
		res.Nontrivial = ntx >= 2 && (res.Faults["rpc_fail_before_delivery"]+res.Faults["rpc_response_lost"]) > 0
		w.shutdown()
	})
	return res
}
