package storesim

import (
	"bytes"
	"fmt"
	"math"
	"testing"
	"testing/synctest"

	"github.com/feichai0017/NoKV/manifest"
	"github.com/feichai0017/NoKV/pb"
	"github.com/feichai0017/NoKV/raftstore/kv"

	"verif/sim"
)

func init() {
	props["C25"] = sim.PropSpec{Gen: genC25, Exec: execC25}
}

// Key position classes relative to the addressed region's current range.
const (
	kpEmpty      = iota // ""
	kpBelow             // just below StartKey (outside)
	kpStart             // == StartKey (inside)
	kpAboveStart        // StartKey + \x00 (inside)
	kpInside            // a grid key strictly inside
	kpBelowEnd          // just below EndKey (inside)
	kpEnd               // == EndKey (outside)
	kpBeyond            // EndKey + \x00 (outside)
	kpFar               // far away on the other side of the key space
	kpCount
)

var kpNames = []string{"empty", "below_start", "start", "above_start", "inside", "below_end", "end", "beyond_end", "far"}

// Command kinds.
const (
	ckGet = iota
	ckScan
	ckPrewrite
	ckCommit
	ckRollback
	ckResolve
	ckCheckTxn
	ckTwoGets      // two Get requests in one read command
	ckScanPropose  // Scan sent through ProposeCommand (the raft log)
	ckGetPropose   // Get sent through ProposeCommand
	ckPrewriteTwo  // one Prewrite with two mutations
	ckWriteTwoReqs // Prewrite + Commit requests in one command
	ckCount
)

var ckNames = []string{"get", "scan", "prewrite", "commit", "rollback", "resolve", "checktxn", "two_gets", "scan_propose", "get_propose", "prewrite_two", "prewrite_commit"}

// Epoch classes.
const (
	epCurrent = iota
	epOlder
	epNewer
	epMissing
	epConfOlder
	epConfNewer
	epCount
)

var epNames = []string{"current", "older", "newer", "missing", "conf_older", "conf_newer"}

func genC25(r *sim.Rand, tier string) *sim.Case {
	c := &sim.Case{Cfg: genPartitionCfg(r)}
	c.Cfg["wiring"] = 1
	n := 25 + r.Intn(16)
	for i := 0; i < n; i++ {
		switch x := r.Intn(100); {
		case x < 72:
			ep := epCurrent
			if r.Chance(1, 2) {
				ep = r.Intn(epCount)
			}
			region := r.Intn(8)
			if r.Chance(1, 12) {
				region = 8 + r.Intn(2) // 8: an id that was merged away, 9: an id that never existed
			}
			c.Ops = append(c.Ops, sim.Op{K: "cmd", A: int64(region), B: int64(r.Intn(ckCount)),
				C: int64(r.Intn(kpCount) + 16*r.Intn(kpCount)), D: int64(ep), S: fmt.Sprint(r.Intn(3))})
		case x < 86:
			c.Ops = append(c.Ops, sim.Op{K: "split", A: int64(r.Intn(8)), B: int64(validPos[r.Intn(len(validPos))]), C: int64(r.Intn(100)), D: int64(r.Intn(2))})
		case x < 97:
			c.Ops = append(c.Ops, sim.Op{K: "merge", A: int64(r.Intn(8)), B: int64(r.Intn(2))})
		default:
			c.Ops = append(c.Ops, sim.Op{K: "tick", A: int64(1 + r.Intn(15))})
		}
	}
	return c
}

// keyAt computes the key of a position class for region m; classes that do
// not exist for this region (below an unbounded start, ...) fall back to an
// inside key. The oracle never looks at the class, only at the key.
func keyAt(m manifest.RegionMeta, cls int) []byte {
	s, e := m.StartKey, m.EndKey
	inside := func() []byte {
		if k, ok := splitKeyFor(m, posInside, 50); ok {
			return k
		}
		if len(s) > 0 {
			return append([]byte(nil), s...)
		}
		return gkey(0)
	}
	switch cls {
	case kpEmpty:
		return nil
	case kpBelow:
		if len(s) > 0 {
			return justBelow(s)
		}
	case kpStart:
		if len(s) > 0 {
			return append([]byte(nil), s...)
		}
		return []byte{0}
	case kpAboveStart:
		if len(s) > 0 {
			return justAbove(s)
		}
	case kpInside:
	case kpBelowEnd:
		if len(e) > 0 {
			return justBelow(e)
		}
		return gkey(gridN - 1)
	case kpEnd:
		if len(e) > 0 {
			return append([]byte(nil), e...)
		}
	case kpBeyond:
		if len(e) > 0 {
			return justAbove(e)
		}
	case kpFar:
		for _, k := range [][]byte{gkey(gridN - 1), gkey(0), []byte("zzz"), []byte("a")} {
			if !contains(m, k) {
				return k
			}
		}
	}
	return inside()
}

// seedData commits a value under every boundary key and its byte-level
// neighbours directly into the DB (the regions share one DB, so a scan that
// is not cut at the region's end would run into them).
func seedData(w *World) error {
	c := w.C
	n := int(c.CfgInt("regions", 3))
	b0 := int(c.CfgInt("b0", 40))
	gap := int(c.CfgInt("gap", 40))
	var keys [][]byte
	add := func(k []byte) {
		if len(k) > 0 {
			keys = append(keys, k)
		}
	}
	add(gkey(0))
	add(gkey(gridN - 1))
	for i := 0; i <= n; i++ {
		b := gkey(b0 + i*gap)
		add(justBelow(b))
		add(b)
		add(justAbove(b))
		add(gkey(b0 + i*gap + gap/2))
		add(gkey(b0 + i*gap + gap/3))
	}
	for i, k := range keys {
		start := uint64(10 + 2*i)
		pre := &pb.RaftCmdRequest{Requests: []*pb.Request{{CmdType: pb.CmdType_CMD_PREWRITE, Cmd: &pb.Request_Prewrite{Prewrite: &pb.PrewriteRequest{
			Mutations: []*pb.Mutation{{Op: pb.Mutation_Put, Key: k, Value: []byte("seed")}}, PrimaryLock: k, StartVersion: start, LockTtl: 1000}}}}}
		com := &pb.RaftCmdRequest{Requests: []*pb.Request{{CmdType: pb.CmdType_CMD_COMMIT, Cmd: &pb.Request_Commit{Commit: &pb.CommitRequest{
			Keys: [][]byte{k}, StartVersion: start, CommitVersion: start + 1}}}}}
		for _, req := range []*pb.RaftCmdRequest{pre, com} {
			resp, err := kv.Apply(w.DB, req)
			if err != nil {
				return err
			}
			for _, r := range resp.GetResponses() {
				if len(r.GetPrewrite().GetErrors()) > 0 || r.GetCommit().GetError() != nil {
					return fmt.Errorf("seeding %q: %v", k, r)
				}
			}
		}
	}
	synctest.Wait()
	return nil
}

type builtCmd struct {
	req   *pb.RaftCmdRequest
	read  bool     // goes through ReadCommand
	named [][]byte // the keys the command names
}

func buildCmd(kind int, k1, k2 []byte, ts uint64, variant int) builtCmd {
	get := func(k []byte) *pb.Request {
		return &pb.Request{CmdType: pb.CmdType_CMD_GET, Cmd: &pb.Request_Get{Get: &pb.GetRequest{Key: k, Version: math.MaxUint64}}}
	}
	scan := func(k []byte) *pb.Request {
		limit := []uint32{200, 3, 50}[variant%3]
		return &pb.Request{CmdType: pb.CmdType_CMD_SCAN, Cmd: &pb.Request_Scan{Scan: &pb.ScanRequest{StartKey: k, Limit: limit, Version: math.MaxUint64, IncludeStart: variant%2 == 0}}}
	}
	prewrite := func(keys ...[]byte) *pb.Request {
		var muts []*pb.Mutation
		for _, k := range keys {
			muts = append(muts, &pb.Mutation{Op: pb.Mutation_Put, Key: k, Value: []byte(fmt.Sprintf("v%d", ts))})
		}
		return &pb.Request{CmdType: pb.CmdType_CMD_PREWRITE, Cmd: &pb.Request_Prewrite{Prewrite: &pb.PrewriteRequest{
			Mutations: muts, PrimaryLock: keys[0], StartVersion: ts, LockTtl: 3000}}}
	}
	commit := func(keys ...[]byte) *pb.Request {
		return &pb.Request{CmdType: pb.CmdType_CMD_COMMIT, Cmd: &pb.Request_Commit{Commit: &pb.CommitRequest{Keys: keys, StartVersion: ts, CommitVersion: ts + 5}}}
	}
	var b builtCmd
	switch kind {
	case ckGet:
		b = builtCmd{read: true, named: [][]byte{k1}, req: &pb.RaftCmdRequest{Requests: []*pb.Request{get(k1)}}}
	case ckScan:
		b = builtCmd{read: true, named: [][]byte{k1}, req: &pb.RaftCmdRequest{Requests: []*pb.Request{scan(k1)}}}
	case ckPrewrite:
		b = builtCmd{named: [][]byte{k1}, req: &pb.RaftCmdRequest{Requests: []*pb.Request{prewrite(k1)}}}
	case ckCommit:
		b = builtCmd{named: [][]byte{k1, k2}, req: &pb.RaftCmdRequest{Requests: []*pb.Request{commit(k1, k2)}}}
	case ckRollback:
		b = builtCmd{named: [][]byte{k1, k2}, req: &pb.RaftCmdRequest{Requests: []*pb.Request{{CmdType: pb.CmdType_CMD_BATCH_ROLLBACK,
			Cmd: &pb.Request_BatchRollback{BatchRollback: &pb.BatchRollbackRequest{Keys: [][]byte{k1, k2}, StartVersion: ts}}}}}}
	case ckResolve:
		cv := uint64(0)
		if variant%2 == 1 {
			cv = ts + 5
		}
		b = builtCmd{named: [][]byte{k1, k2}, req: &pb.RaftCmdRequest{Requests: []*pb.Request{{CmdType: pb.CmdType_CMD_RESOLVE_LOCK,
			Cmd: &pb.Request_ResolveLock{ResolveLock: &pb.ResolveLockRequest{StartVersion: ts, CommitVersion: cv, Keys: [][]byte{k1, k2}}}}}}}
	case ckCheckTxn:
		b = builtCmd{named: [][]byte{k1}, req: &pb.RaftCmdRequest{Requests: []*pb.Request{{CmdType: pb.CmdType_CMD_CHECK_TXN_STATUS,
			Cmd: &pb.Request_CheckTxnStatus{CheckTxnStatus: &pb.CheckTxnStatusRequest{PrimaryKey: k1, LockTs: ts, CurrentTs: ts + 1, RollbackIfNotExist: variant%2 == 0}}}}}}
	case ckTwoGets:
		b = builtCmd{read: true, named: [][]byte{k1, k2}, req: &pb.RaftCmdRequest{Requests: []*pb.Request{get(k1), get(k2)}}}
	case ckScanPropose:
		b = builtCmd{named: [][]byte{k1}, req: &pb.RaftCmdRequest{Requests: []*pb.Request{scan(k1)}}}
	case ckGetPropose:
		b = builtCmd{named: [][]byte{k1}, req: &pb.RaftCmdRequest{Requests: []*pb.Request{get(k1)}}}
	case ckPrewriteTwo:
		b = builtCmd{named: [][]byte{k1, k2}, req: &pb.RaftCmdRequest{Requests: []*pb.Request{prewrite(k1, k2)}}}
	default:
		b = builtCmd{named: [][]byte{k1, k2}, req: &pb.RaftCmdRequest{Requests: []*pb.Request{prewrite(k1), commit(k2)}}}
	}
	return b
}

func execC25(t *testing.T, c *sim.Case) *sim.Result {
	res := sim.NewResult()
	synctest.Test(t, func(t *testing.T) {
		w := NewWorld(t, c, res)
		defer w.Cleanup()
		if !bringUp(w) {
			return
		}
		if err := seedData(w); err != nil {
			res.Violate(0, "seed_failed", nil, "%v", err)
			return
		}
		res.Trace.Add("initial %s", catalogString(w.Catalog()))
		nextID := uint64(100)
		var mergedAway []uint64
		accepted, rejected, admin := 0, 0, 0
		for i, op := range c.Ops {
			w.step = i
			sim.Beat()
			res.Steps++
			cat := w.Catalog()
			var pv any
			switch op.K {
			case "cmd":
				pv = execCmd(w, op, cat, mergedAway, &accepted, &rejected)
			case "split":
				if len(cat) == 0 {
					continue
				}
				parent := cat[int(op.A)%len(cat)]
				key, ok := splitKeyFor(parent, int(op.B)%8, op.C%100)
				if !ok || !contains(parent, key) || bytes.Equal(key, parent.StartKey) || degenerate(parent) {
					continue // C25 only moves ranges with requests the store accepts
				}
				nextID++
				child := manifest.RegionMeta{ID: nextID, StartKey: key, EndKey: append([]byte(nil), parent.EndKey...),
					Epoch: manifest.RegionEpoch{Version: 1, ConfVersion: 1}, Peers: []manifest.PeerMeta{{StoreID: theStoreID, PeerID: peerIDBase + nextID}}}
				var err error
				pv, _ = w.Call(func() { err = w.Store.ProposeSplit(parent.ID, child, key) })
				res.Trace.Add("split %s at %q -> %s", fmtRegion(parent), key, errClass(err))
				if err == nil {
					admin++
					res.Faults["split_applied"]++
				}
			case "merge":
				if len(cat) < 2 {
					continue
				}
				target := cat[int(op.A)%len(cat)]
				if degenerate(target) {
					continue
				}
				left, right := neighbours(cat, target)
				source := right
				if op.B%2 == 1 {
					source = left
				}
				if source == nil {
					continue
				}
				var err error
				pv, _ = w.Call(func() { err = w.Store.ProposeMerge(target.ID, source.ID) })
				res.Trace.Add("merge %s into %s -> %s", fmtRegion(*source), fmtRegion(target), errClass(err))
				if err == nil {
					admin++
					mergedAway = append(mergedAway, source.ID)
					res.Faults["merge_applied"]++
				}
			case "tick":
				pv = w.Tick(int(op.A%16) + 1)
			default:
				continue
			}
			if pv == nil {
				pv = w.Settle()
			}
			if pv != nil {
				res.Violate(i, "sut_panic", panicSig(pv), "step %d %s: the store panicked: %v", i, op.String(), pv)
				w.dead = true
				break
			}
		}
		res.Nontrivial = accepted > 0 && rejected > 0 && admin > 0
	})
	return res
}

// execCmd issues one command and evaluates the statement on its outcome.
func execCmd(w *World, op sim.Op, cat []manifest.RegionMeta, mergedAway []uint64, accepted, rejected *int) any {
	res := w.Res
	kind := int(op.B) % ckCount
	p1, p2 := int(op.C%16)%kpCount, int(op.C/16)%kpCount
	ep := int(op.D) % epCount
	variant := 0
	if len(op.S) > 0 {
		variant = int(op.S[0] - '0')
	}
	// Which region is addressed.
	var id uint64
	var shape manifest.RegionMeta // the range key positions are computed against
	sel := int(op.A) % 10
	switch {
	case sel == 9 || (sel == 8 && len(mergedAway) == 0) || len(cat) == 0:
		id = 9999
		shape = manifest.RegionMeta{StartKey: gkey(100), EndKey: gkey(200), Epoch: manifest.RegionEpoch{Version: 1, ConfVersion: 1}}
	case sel == 8:
		id = mergedAway[len(mergedAway)-1]
		shape = manifest.RegionMeta{StartKey: gkey(100), EndKey: gkey(200), Epoch: manifest.RegionEpoch{Version: 1, ConfVersion: 1}}
	default:
		shape = cat[sel%len(cat)]
		id = shape.ID
	}
	// The region's current epoch and range, read from the catalog right before the call.
	meta, exists := w.Store.RegionMetaByID(id)
	if exists {
		shape = meta
	}
	k1, k2 := keyAt(shape, p1), keyAt(shape, p2)
	if kind == ckGetPropose && len(k1) == 0 {
		// A Get of the empty key fails inside the engine with a Go error; through
		// the raft log that is an apply error, which wedges the peer (C24's
		// finding, not this property's subject). On the read path it stays.
		k1 = keyAt(shape, kpInside)
	}
	ts := uint64(100000 + 10*w.step)
	cmd := buildCmd(kind, k1, k2, ts, variant)
	hdr := &pb.CmdHeader{RegionId: id}
	cur := shape.Epoch
	switch ep {
	case epCurrent:
		hdr.RegionEpoch = &pb.RegionEpoch{Version: cur.Version, ConfVer: cur.ConfVersion}
	case epOlder:
		hdr.RegionEpoch = &pb.RegionEpoch{Version: cur.Version - 1, ConfVer: cur.ConfVersion}
	case epNewer:
		hdr.RegionEpoch = &pb.RegionEpoch{Version: cur.Version + 1, ConfVer: cur.ConfVersion}
	case epMissing:
	case epConfOlder:
		hdr.RegionEpoch = &pb.RegionEpoch{Version: cur.Version, ConfVer: cur.ConfVersion - 1}
	case epConfNewer:
		hdr.RegionEpoch = &pb.RegionEpoch{Version: cur.Version, ConfVer: cur.ConfVersion + 1}
	}
	cmd.req.Header = hdr

	// What the statement allows.
	epochOK := exists && hdr.RegionEpoch != nil && hdr.RegionEpoch.Version == meta.Epoch.Version && hdr.RegionEpoch.ConfVer == meta.Epoch.ConfVersion
	keysOK := true
	for _, k := range cmd.named {
		if len(k) > 0 && !(exists && contains(meta, k)) {
			keysOK = false
		}
	}
	valid := exists && epochOK && keysOK

	var resp *pb.RaftCmdResponse
	var err error
	path := "propose"
	if cmd.read {
		path = "read"
	}
	pv, fin := w.Call(func() {
		if cmd.read {
			resp, err = w.Store.ReadCommand(cmd.req)
		} else {
			resp, err = w.Store.ProposeCommand(cmd.req)
		}
	})
	if pv != nil {
		return pv
	}
	isAccepted := fin && err == nil && resp != nil && resp.GetRegionError() == nil
	regionErr := fin && err == nil && resp != nil && resp.GetRegionError() != nil
	outcome := "accepted"
	switch {
	case !fin:
		outcome = "hung"
	case err != nil:
		outcome = "error:" + errClass(err)
	case regionErr:
		outcome = "region_error"
	}
	res.Trace.Add("cmd %s/%s r%d k1=%q(%s) k2=%q(%s) epoch=%s exists=%v valid=%v -> %s", ckNames[kind], path, id, k1, kpNames[p1], k2, kpNames[p2], epNames[ep], exists, valid, outcome)
	sig := func(extra map[string]string) map[string]string {
		out := map[string]string{"cmd": ckNames[kind], "path": path}
		for k, v := range extra {
			out[k] = v
		}
		return out
	}
	why := ""
	switch {
	case !exists:
		why = "no_such_region"
	case !epochOK && !keysOK:
		why = "epoch_and_key"
	case !epochOK:
		why = "epoch"
	case !keysOK:
		why = "key"
	}
	res.Checks++
	switch {
	case isAccepted && !valid:
		res.Violate(w.step, "accepted_foreign", sig(map[string]string{"why": why}),
			"%s through %s on %s with header epoch %v and keys %q/%q was accepted although %s does not match", ckNames[kind], path, describe(meta, exists, id), hdr.RegionEpoch, k1, k2, why)
	case !valid && !regionErr:
		res.Violate(w.step, "no_region_error", sig(map[string]string{"why": why, "got": errClass(err)}),
			"%s through %s on %s with header epoch %v and keys %q/%q must be refused with a region error; got err=%v resp=%v", ckNames[kind], path, describe(meta, exists, id), hdr.RegionEpoch, k1, k2, err, resp)
	}
	if isAccepted {
		*accepted++
		res.Probes["accepted_"+ckNames[kind]]++
		for _, r := range resp.GetResponses() {
			sc := r.GetScan()
			if sc == nil {
				continue
			}
			res.Probes["scan_keys_returned"] += len(sc.GetKvs())
			for _, item := range sc.GetKvs() {
				res.Checks++
				if !contains(meta, item.GetKey()) {
					side := "beyond_end"
					if len(meta.StartKey) > 0 && bytes.Compare(item.GetKey(), meta.StartKey) < 0 {
						side = "below_start"
					}
					res.Violate(w.step, "scan_outside_range", sig(map[string]string{"side": side}),
						"scan from %q through %s (%s) returned key %q, outside the region", k1, fmtRegion(meta), path, item.GetKey())
					break
				}
			}
		}
	} else {
		*rejected++
		if valid {
			res.Probes["valid_not_accepted:"+outcome]++
		}
	}
	return nil
}

func describe(m manifest.RegionMeta, exists bool, id uint64) string {
	if !exists {
		return fmt.Sprintf("unknown region %d", id)
	}
	return fmtRegion(m)
}
