// Package storesim is the single-store engine: one real NoKV.DB plus a real
// raftstore store.Store with single-voter peers (engine.WALStorage on the DB's
// WAL, etcd raft RawNode) inside a synctest bubble on SimFS. The harness
// replaces the server's wall-clock tick loop (ticks are issued by the root
// goroutine in peer-id order) and the gRPC transport (a single store sends no
// raft messages). It also hosts the PD routing check (C26), which needs no DB.
package storesim

import (
	"bytes"
	"fmt"
	"io"
	"log"
	"os"
	"path/filepath"
	"sort"
	"testing"
	"testing/synctest"
	"time"

	NoKV "github.com/feichai0017/NoKV"
	"github.com/feichai0017/NoKV/manifest"
	myraft "github.com/feichai0017/NoKV/raft"
	"github.com/feichai0017/NoKV/raftstore/kv"
	"github.com/feichai0017/NoKV/raftstore/peer"
	"github.com/feichai0017/NoKV/raftstore/store"
	"github.com/feichai0017/NoKV/verifhook"

	"verif/sim"
)

const (
	theStoreID    = uint64(1)
	electionTick  = 10
	heartbeatTick = 2
	tickEvery     = 100 * time.Millisecond
	peerIDBase    = uint64(1000)
)

// quietLogger silences etcd raft; Panic*/Fatal* keep their fail-stop meaning.
type quietLogger struct{}

func (quietLogger) Debug(...any)              {}
func (quietLogger) Debugf(string, ...any)     {}
func (quietLogger) Info(...any)               {}
func (quietLogger) Infof(string, ...any)      {}
func (quietLogger) Warning(...any)            {}
func (quietLogger) Warningf(string, ...any)   {}
func (quietLogger) Error(...any)              {}
func (quietLogger) Errorf(string, ...any)     {}
func (quietLogger) Fatal(v ...any)            { panic("raft fatal: " + fmt.Sprint(v...)) }
func (quietLogger) Fatalf(f string, v ...any) { panic("raft fatal: " + fmt.Sprintf(f, v...)) }
func (quietLogger) Panic(v ...any)            { panic("raft panic: " + fmt.Sprint(v...)) }
func (quietLogger) Panicf(f string, v ...any) { panic("raft panic: " + fmt.Sprintf(f, v...)) }

func init() {
	log.SetOutput(io.Discard)
	myraft.SetLogger(quietLogger{})
}

type noopTransport struct{}

func (noopTransport) Send(myraft.Message) {}

// regionEvent is one OnRegionUpdate/OnRegionRemove callback of the store.
type regionEvent struct {
	id      uint64
	state   manifest.RegionState
	removed bool
}

// World is one store instance on one work directory.
type World struct {
	T     *testing.T
	C     *sim.Case
	Res   *sim.Result
	Dir   string
	FS    *sim.SimFS
	DB    *NoKV.DB
	Store *store.Store
	// wiring 0: store.Config exactly as raftstore/server.New + cmd/nokv serve
	// build it (no Manifest: region catalog changes are not logged by the
	// store); wiring 1: store.Config.Manifest = db.Manifest().
	wiring int
	// dead: the SUT panicked while holding peer locks; nothing may touch the
	// store any more (a second access would block on a sync.Mutex forever).
	dead   bool
	step   int
	events []regionEvent
}

var worldSeq int

func NewWorld(t *testing.T, c *sim.Case, res *sim.Result) *World {
	worldSeq++
	dir := filepath.Join(sim.Scratch(), fmt.Sprintf("s%d", worldSeq))
	_ = os.RemoveAll(dir)
	_ = os.MkdirAll(dir, 0o755)
	w := &World{T: t, C: c, Res: res, Dir: dir, wiring: int(c.CfgInt("wiring", 1))}
	w.FS = tracedFS(dir, res.Trace)
	return w
}

// tracedFS builds a SimFS whose state-changing calls go into the trace, except
// writes to the LOCK file: its content is the process id, so its size differs
// between the process that found a failure and the one that replays it.
func tracedFS(dir string, tr *sim.Trace) *sim.SimFS {
	fs := sim.NewSimFS(dir)
	fs.BeforeMutation = func(ev sim.FSEvent, torn int64) {
		if torn >= 0 || ev.Class == "lock" {
			return
		}
		tr.Add("fs %s %s[%d] %s %d", ev.Op, ev.Class, ev.ClassN, ev.Path, ev.Size)
	}
	return fs
}

func (w *World) options() *NoKV.Options {
	opt := NoKV.NewDefaultOptions()
	opt.WorkDir = w.Dir
	opt.FS = w.FS
	opt.MemTableSize = 1 << 20
	opt.SSTableMaxSz = 1 << 20
	opt.ValueThreshold = 1 << 20
	opt.ValueLogFileSize = 1 << 16
	opt.ValueLogBucketCount = 1
	opt.ValueLogHotBucketCount = 0
	opt.ValueLogGCInterval = 0
	opt.ValueLogGCSampleFromHead = true
	opt.HotRingEnabled = false
	opt.ValueLogHotRingOverride = false
	opt.WriteHotKeyLimit = 0
	opt.WriteBatchWait = 0
	opt.BlockCacheSize = 4096
	opt.BloomCacheSize = 64
	opt.EnableWALWatchdog = false
	opt.WALAutoGCInterval = time.Hour
	opt.NumCompactors = 1
	return opt
}

// OpenDB opens (or reopens) the database; a panic from Open is returned as error.
func (w *World) OpenDB() (err error) {
	verifhook.Reset()
	verifhook.Set("lsm.no-background-compaction", 1)
	verifhook.Set("lsm.serial-table-build", 1)
	defer func() {
		if r := recover(); r != nil {
			err = fmt.Errorf("open panicked: %v", r)
			w.DB = nil
		}
	}()
	w.DB = NoKV.Open(w.options())
	synctest.Wait()
	return nil
}

// peerBuilder is the builder of raftstore/server.New with the transport
// replaced by a no-op (one store never sends raft messages).
func (w *World) peerBuilder(meta manifest.RegionMeta) (*peer.Config, error) {
	var peerID uint64
	for _, p := range meta.Peers {
		if p.StoreID == theStoreID {
			peerID = p.PeerID
			break
		}
	}
	if peerID == 0 {
		return nil, fmt.Errorf("store %d missing peer in region %d", theStoreID, meta.ID)
	}
	return &peer.Config{
		RaftConfig: myraft.Config{
			ID:              peerID,
			ElectionTick:    electionTick,
			HeartbeatTick:   heartbeatTick,
			MaxSizePerMsg:   1 << 20,
			MaxInflightMsgs: 256,
			PreVote:         true,
		},
		Transport: noopTransport{},
		Apply:     kv.NewEntryApplier(w.DB),
		WAL:       w.DB.WAL(),
		Manifest:  w.DB.Manifest(),
		GroupID:   meta.ID,
		Region:    manifest.CloneRegionMetaPtr(&meta),
	}, nil
}

// StartStore builds the store the way raftstore/server.New does and starts one
// peer per region of the manifest the way cmd/nokv serve's startStorePeers does
// (regions visited in id order instead of map order).
func (w *World) StartStore() error {
	cfg := store.Config{
		StoreID:        theStoreID,
		Router:         store.NewRouter(),
		CommandApplier: kv.NewApplier(w.DB),
		PeerBuilder:    w.peerBuilder,
		RegionHooks: store.RegionHooks{
			OnRegionUpdate: func(m manifest.RegionMeta) {
				w.events = append(w.events, regionEvent{id: m.ID, state: m.State})
			},
			OnRegionRemove: func(id uint64) {
				w.events = append(w.events, regionEvent{id: id, removed: true})
			},
		},
	}
	if w.wiring == 1 {
		cfg.Manifest = w.DB.Manifest()
	}
	w.Store = store.NewStoreWithConfig(cfg)
	snap := w.DB.Manifest().RegionSnapshot()
	ids := make([]uint64, 0, len(snap))
	for id := range snap {
		ids = append(ids, id)
	}
	sort.Slice(ids, func(i, j int) bool { return ids[i] < ids[j] })
	for _, id := range ids {
		meta := snap[id]
		pcfg, err := w.peerBuilder(meta)
		if err != nil {
			continue // store not present in the region: serve skips it as well
		}
		var boot []myraft.Peer
		for _, p := range meta.Peers {
			boot = append(boot, myraft.Peer{ID: p.PeerID})
		}
		if _, err := w.Store.StartPeer(pcfg, boot); err != nil {
			return fmt.Errorf("start peer for region %d: %w", meta.ID, err)
		}
	}
	synctest.Wait()
	return nil
}

// StopStore closes every peer (without StopPeer, which would log a state
// change), the store and the DB — a clean process exit.
func (w *World) StopStore() error {
	if w.Store != nil {
		hs := w.Store.Peers()
		sort.Slice(hs, func(i, j int) bool { return hs[i].ID < hs[j].ID })
		for _, h := range hs {
			_ = h.Peer.Close()
		}
		w.Store.Close()
		w.Store = nil
	}
	var err error
	if w.DB != nil {
		err = w.DB.Close()
		w.DB = nil
	}
	synctest.Wait()
	verifhook.Reset()
	return err
}

func (w *World) Cleanup() {
	_ = w.StopStore()
	_ = os.RemoveAll(w.Dir)
}

// guard runs fn on the calling goroutine and converts a SUT panic into a value.
func guard(fn func()) (pv any) {
	defer func() {
		if r := recover(); r != nil {
			pv = r
		}
	}()
	fn()
	return nil
}

// peerIDs lists the registered peers in id order.
func (w *World) peerIDs() []uint64 {
	hs := w.Store.Peers()
	ids := make([]uint64, 0, len(hs))
	for _, h := range hs {
		ids = append(ids, h.ID)
	}
	sort.Slice(ids, func(i, j int) bool { return ids[i] < ids[j] })
	return ids
}

// Tick delivers n rounds of ticks (every peer, id order) and advances the fake
// clock like the server's 100 ms tick loop would. Returns a recovered panic.
func (w *World) Tick(n int) any {
	for i := 0; i < n; i++ {
		for _, id := range w.peerIDs() {
			if pv := guard(func() { _ = w.Store.Router().SendTick(id) }); pv != nil {
				return pv
			}
		}
		time.Sleep(tickEvery)
		w.Res.SimTime += tickEvery
		synctest.Wait()
	}
	return nil
}

// Settle ticks every peer that is not leader through a full randomized
// election timeout (raft draws it from an unseeded source: between
// electionTick and 2*electionTick-1), one peer after the other, so that the
// order of elections — and of their WAL records — is fixed.
func (w *World) Settle() any {
	for _, id := range w.peerIDs() {
		p, ok := w.Store.Peer(id)
		if !ok {
			continue
		}
		var st myraft.Status
		if pv := guard(func() { st = p.Status() }); pv != nil {
			return pv
		}
		if st.RaftState == myraft.StateLeader {
			continue
		}
		for i := 0; i < 2*electionTick; i++ {
			if pv := guard(func() { _ = w.Store.Router().SendTick(id) }); pv != nil {
				return pv
			}
		}
		synctest.Wait()
	}
	return nil
}

// Call runs a (possibly blocking) SUT call on its own goroutine inside the
// bubble while the root goroutine keeps delivering ticks and fake time, so SUT
// deadlines expire on the simulated clock. It reports a recovered panic and
// whether the call returned.
func (w *World) Call(fn func()) (pv any, finished bool) {
	done := make(chan struct{})
	go func() {
		defer close(done)
		defer func() {
			if r := recover(); r != nil {
				pv = r
			}
		}()
		fn()
	}()
	for i := 0; i < 80; i++ {
		synctest.Wait()
		select {
		case <-done:
			return pv, true
		default:
		}
		if tp := w.Tick(1); tp != nil {
			// The store blew up under the root goroutine; the caller is stuck behind it.
			return tp, false
		}
	}
	return nil, false
}

// Catalog returns the store's region catalog in id order.
func (w *World) Catalog() []manifest.RegionMeta {
	ms := w.Store.RegionMetas()
	sort.Slice(ms, func(i, j int) bool { return ms[i].ID < ms[j].ID })
	return ms
}

// ---- keys ---------------------------------------------------------------

const gridN = 400

// gkey is grid point i as a key; the grid is what region boundaries live on.
func gkey(i int) []byte {
	if i < 0 {
		i = 0
	}
	if i >= gridN {
		i = gridN - 1
	}
	return []byte(fmt.Sprintf("k%03d", i))
}

// justBelow returns a key that is smaller than k with no grid key in between.
func justBelow(k []byte) []byte {
	if len(k) == 0 {
		return nil
	}
	out := append([]byte(nil), k...)
	last := out[len(out)-1]
	if last == 0 {
		return out[:len(out)-1]
	}
	out[len(out)-1] = last - 1
	return append(out, 0xff)
}

// justAbove returns the immediate successor of k in byte order.
func justAbove(k []byte) []byte { return append(append([]byte(nil), k...), 0) }

// gridIdx maps a boundary key back to its grid index (-1 when not a grid key).
func gridIdx(k []byte) int {
	var i int
	if len(k) != 4 || k[0] != 'k' {
		return -1
	}
	if _, err := fmt.Sscanf(string(k[1:]), "%03d", &i); err != nil {
		return -1
	}
	return i
}

func fmtKey(k []byte, start bool) string {
	if len(k) == 0 {
		if start {
			return "-inf"
		}
		return "+inf"
	}
	return fmt.Sprintf("%q", k)
}

func fmtRegion(m manifest.RegionMeta) string {
	return fmt.Sprintf("r%d[%s,%s)e%d.%d/%s", m.ID, fmtKey(m.StartKey, true), fmtKey(m.EndKey, false),
		m.Epoch.Version, m.Epoch.ConfVersion, stateName(m.State))
}

func stateName(s manifest.RegionState) string {
	switch s {
	case manifest.RegionStateNew:
		return "new"
	case manifest.RegionStateRunning:
		return "running"
	case manifest.RegionStateRemoving:
		return "removing"
	case manifest.RegionStateTombstone:
		return "tombstone"
	}
	return fmt.Sprintf("state%d", s)
}

// contains is the harness's own range test: StartKey <= k < EndKey with empty
// bounds meaning unbounded.
func contains(m manifest.RegionMeta, k []byte) bool {
	if len(m.StartKey) > 0 && bytes.Compare(k, m.StartKey) < 0 {
		return false
	}
	if len(m.EndKey) > 0 && bytes.Compare(k, m.EndKey) >= 0 {
		return false
	}
	return true
}

// ---- initial partition ----------------------------------------------------

// seedRegions writes the initial partition into the manifest the way
// `nokv-config manifest` does before a store is first started.
func (w *World) seedRegions(metas []manifest.RegionMeta) error {
	for _, m := range metas {
		if err := w.DB.Manifest().LogRegionUpdate(m); err != nil {
			return err
		}
	}
	return nil
}

// initialPartition decodes the case's configuration into region metas.
// Cfg: regions (2..5), b0 (first boundary grid index), gap (distance between
// boundaries), lo_unbounded, hi_unbounded.
func initialPartition(c *sim.Case) []manifest.RegionMeta {
	n := int(c.CfgInt("regions", 3))
	if n < 1 {
		n = 1
	}
	if n > 6 {
		n = 6
	}
	b0 := int(c.CfgInt("b0", 40))
	gap := int(c.CfgInt("gap", 40))
	if gap < 2 {
		gap = 2
	}
	var out []manifest.RegionMeta
	for i := 0; i < n; i++ {
		m := manifest.RegionMeta{
			ID:       uint64(i + 1),
			StartKey: gkey(b0 + i*gap),
			EndKey:   gkey(b0 + (i+1)*gap),
			Epoch:    manifest.RegionEpoch{Version: 1, ConfVersion: 1},
			Peers:    []manifest.PeerMeta{{StoreID: theStoreID, PeerID: peerIDBase + uint64(i+1)}},
			State:    manifest.RegionStateRunning,
		}
		if i == 0 && c.CfgInt("lo_unbounded", 0) == 1 {
			m.StartKey = nil
		}
		if i == n-1 && c.CfgInt("hi_unbounded", 0) == 1 {
			m.EndKey = nil
		}
		out = append(out, m)
	}
	return out
}
