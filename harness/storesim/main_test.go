package storesim

import (
	"testing"

	"verif/sim"
)

var props = map[string]sim.PropSpec{}

func TestVerif(t *testing.T) { sim.Main(t, "storesim", props) }
