package storesim

import (
	"bytes"
	"context"
	"encoding/hex"
	"fmt"
	"os"
	"path/filepath"
	"sort"
	"strings"
	"testing"
	"testing/synctest"

	"github.com/feichai0017/NoKV/manifest"
	"github.com/feichai0017/NoKV/pb"
	"github.com/feichai0017/NoKV/pd/core"
	pdserver "github.com/feichai0017/NoKV/pd/server"
	pdstorage "github.com/feichai0017/NoKV/pd/storage"
	"github.com/feichai0017/NoKV/pd/tso"

	"verif/sim"
)

func init() {
	props["C26"] = sim.PropSpec{Gen: genC26, Exec: execC26}
}

// ---- reference model: a list of regions ------------------------------------

type pdModel struct {
	regions []manifest.RegionMeta // id order
}

func (m *pdModel) find(id uint64) int {
	for i := range m.regions {
		if m.regions[i].ID == id {
			return i
		}
	}
	return -1
}

func (m *pdModel) put(meta manifest.RegionMeta) {
	if i := m.find(meta.ID); i >= 0 {
		m.regions[i] = meta
		return
	}
	m.regions = append(m.regions, meta)
	sort.Slice(m.regions, func(i, j int) bool { return m.regions[i].ID < m.regions[j].ID })
}

func (m *pdModel) remove(id uint64) bool {
	i := m.find(id)
	if i < 0 {
		return false
	}
	m.regions = append(m.regions[:i:i], m.regions[i+1:]...)
	return true
}

// keyBeforeEnd: k < end, where an empty end is +infinity.
func keyBeforeEnd(k, end []byte) bool { return len(end) == 0 || bytes.Compare(k, end) < 0 }

// intervalsOverlap is the textbook test for half-open intervals:
// a.start < b.end and b.start < a.end.
func intervalsOverlap(a, b manifest.RegionMeta) bool {
	return keyBeforeEnd(a.StartKey, b.EndKey) && keyBeforeEnd(b.StartKey, a.EndKey)
}

func (m *pdModel) overlapping(meta manifest.RegionMeta) (manifest.RegionMeta, bool) {
	for _, r := range m.regions {
		if r.ID != meta.ID && intervalsOverlap(meta, r) {
			return r, true
		}
	}
	return manifest.RegionMeta{}, false
}

func (m *pdModel) lookup(k []byte) []manifest.RegionMeta {
	var out []manifest.RegionMeta
	for _, r := range m.regions {
		if bytes.Compare(k, r.StartKey) >= 0 && keyBeforeEnd(k, r.EndKey) {
			out = append(out, r)
		}
	}
	return out
}

// staleness: "stale" when no component is newer and one is older, "fresh" when
// no component is older; one component newer and the other older cannot come
// from one region's history and is left unspecified.
func staleness(in, cur manifest.RegionEpoch) string {
	switch {
	case in.Version >= cur.Version && in.ConfVersion >= cur.ConfVersion:
		return "fresh"
	case in.Version <= cur.Version && in.ConfVersion <= cur.ConfVersion:
		return "stale"
	}
	return "mixed"
}

// ---- keys --------------------------------------------------------------------

const pdGrid = 16

func pkey(i int) []byte {
	if i < 0 {
		i = 0
	}
	if i >= pdGrid {
		i = pdGrid - 1
	}
	return []byte(fmt.Sprintf("p%02d", i))
}

func encRange(s, e []byte) string { return hex.EncodeToString(s) + "|" + hex.EncodeToString(e) }

func decRange(x string) (s, e []byte) {
	parts := strings.SplitN(x, "|", 2)
	s, _ = hex.DecodeString(parts[0])
	if len(parts) > 1 {
		e, _ = hex.DecodeString(parts[1])
	}
	return s, e
}

func pidx(k []byte) int {
	var i int
	if len(k) >= 3 && k[0] == 'p' {
		if _, err := fmt.Sscanf(string(k[1:3]), "%02d", &i); err == nil {
			return i
		}
	}
	return pdGrid / 2
}

// ---- generator -----------------------------------------------------------------

var epochDeltas = [][2]int64{{0, 0}, {1, 0}, {0, 1}, {-1, 0}, {0, -1}, {1, -1}, {1, 1}, {-1, 1}}
var epochDeltaNames = []string{"equal", "ver_newer", "conf_newer", "ver_older", "conf_older", "ver_newer_conf_older", "both_newer", "ver_older_conf_newer"}

func applyDelta(e manifest.RegionEpoch, d int) manifest.RegionEpoch {
	dl := epochDeltas[d%len(epochDeltas)]
	return manifest.RegionEpoch{Version: uint64(int64(e.Version) + dl[0]), ConfVersion: uint64(int64(e.ConfVersion) + dl[1])}
}

var baseEpoch = manifest.RegionEpoch{Version: 5, ConfVersion: 5}

func genC26(r *sim.Rand, tier string) *sim.Case {
	c := &sim.Case{Cfg: map[string]int64{}}
	shadow := &pdModel{}
	n := 20 + r.Intn(21)
	for i := 0; i < n; i++ {
		switch x := r.Intn(100); {
		case x < 62:
			var id uint64
			if len(shadow.regions) > 0 && r.Chance(1, 2) {
				id = shadow.regions[r.Intn(len(shadow.regions))].ID
			} else {
				id = uint64(1 + r.Intn(8))
			}
			var s, e []byte
			own := shadow.find(id)
			var ref *manifest.RegionMeta
			if len(shadow.regions) > 0 {
				ref = &shadow.regions[r.Intn(len(shadow.regions))]
			}
			rel := r.Intn(11)
			if rel == 10 {
				rel = 12 // random range
			}
			if own >= 0 && r.Chance(1, 3) {
				rel = 0
			}
			if r.Chance(1, 12) {
				rel = 10
			}
			if r.Chance(1, 40) {
				rel = 11 // empty or inverted range: rare, it is malformed input
			}
			d := 1 + r.Intn(3)
			switch {
			case rel == 0 && own >= 0: // refresh with the same range
				s, e = shadow.regions[own].StartKey, shadow.regions[own].EndKey
			case rel == 1 && ref != nil && len(ref.EndKey) > 0: // adjacent on the right
				s, e = ref.EndKey, pkey(pidx(ref.EndKey)+d)
			case rel == 2 && ref != nil && len(ref.StartKey) > 0: // adjacent on the left
				s, e = pkey(pidx(ref.StartKey)-d), ref.StartKey
			case rel == 3 && ref != nil: // nested
				s, e = justAbove(ref.StartKey), ref.EndKey
				if len(e) > 0 {
					e = justBelow(e)
				}
			case rel == 4 && ref != nil && len(ref.EndKey) > 0: // straddles ref's end by one byte-step
				s, e = justBelow(ref.EndKey), pkey(pidx(ref.EndKey)+d)
			case rel == 5 && ref != nil && len(ref.StartKey) > 0: // straddles ref's start
				s, e = pkey(pidx(ref.StartKey)-d), justAbove(ref.StartKey)
			case rel == 6 && ref != nil: // superset
				s, e = pkey(pidx(ref.StartKey)-d), pkey(pidx(ref.EndKey)+d)
				if len(ref.EndKey) == 0 {
					e = nil
				}
			case rel == 7:
				s, e = nil, pkey(r.Intn(pdGrid))
			case rel == 8:
				s, e = pkey(r.Intn(pdGrid)), nil
			case rel == 9:
				s, e = nil, nil
			case rel == 10 && ref != nil && len(ref.EndKey) > 0: // one byte-step right of adjacency (a one-key hole)
				s, e = justAbove(ref.EndKey), pkey(pidx(ref.EndKey)+d)
			case rel == 11: // empty or inverted range
				g := r.Intn(pdGrid)
				s, e = pkey(g), pkey(g-r.Intn(2))
			default:
				a, b := r.Intn(pdGrid), r.Intn(pdGrid)
				if a > b {
					a, b = b, a
				}
				if a == b {
					b++
				}
				s, e = pkey(a), pkey(b)
			}
			if rel != 11 && len(e) > 0 && bytes.Compare(s, e) >= 0 {
				// clipped at the edge of the grid: take a well-formed range instead
				a := r.Intn(pdGrid - 1)
				s, e = pkey(a), pkey(a+1+r.Intn(pdGrid-1-a))
			}
			dcls := r.Pick(0, 0, 1, 1, 2, 3, 3, 4, 5, 6, 7)
			peers := 1 + r.Intn(3)
			c.Ops = append(c.Ops, sim.Op{K: "hb", A: int64(id), B: int64(peers), D: int64(dcls), S: encRange(s, e)})
			// shadow model (only steers generation)
			meta := manifest.RegionMeta{ID: id, StartKey: s, EndKey: e, Epoch: applyDelta(baseEpoch, dcls)}
			okStale := true
			if own >= 0 {
				meta.Epoch = applyDelta(shadow.regions[own].Epoch, dcls)
				okStale = staleness(meta.Epoch, shadow.regions[own].Epoch) != "stale"
			}
			if _, ov := shadow.overlapping(meta); okStale && !ov {
				shadow.put(meta)
			}
		case x < 72:
			id := uint64(1 + r.Intn(8))
			if len(shadow.regions) > 0 && r.Chance(2, 3) {
				id = shadow.regions[r.Intn(len(shadow.regions))].ID
			}
			c.Ops = append(c.Ops, sim.Op{K: "rm", A: int64(id)})
			shadow.remove(id)
		case x < 94:
			k := pkey(r.Intn(pdGrid))
			switch r.Intn(5) {
			case 0:
				k = justBelow(k)
			case 1:
				k = justAbove(k)
			case 2:
				k = nil
			}
			c.Ops = append(c.Ops, sim.Op{K: "get", S: hex.EncodeToString(k)})
		default:
			c.Ops = append(c.Ops, sim.Op{K: "restart"})
		}
	}
	return c
}

// ---- the PD world ----------------------------------------------------------------

type pdWorld struct {
	dir     string
	fs      *sim.SimFS
	store   *pdstorage.LocalStore
	cluster *core.Cluster
	svc     *pdserver.Service
}

// restorePDRegionsReplica is cmd/nokv/pd.go:restorePDRegions (package main, not
// importable), replicated line by line.
func restorePDRegionsReplica(cluster *core.Cluster, snapshot map[uint64]manifest.RegionMeta) (int, error) {
	if cluster == nil || len(snapshot) == 0 {
		return 0, nil
	}
	ids := make([]uint64, 0, len(snapshot))
	for id := range snapshot {
		if id == 0 {
			continue
		}
		ids = append(ids, id)
	}
	sort.Slice(ids, func(i, j int) bool { return ids[i] < ids[j] })
	loaded := 0
	for _, id := range ids {
		meta := snapshot[id]
		if meta.ID == 0 {
			continue
		}
		if err := cluster.UpsertRegionHeartbeat(meta); err != nil {
			return loaded, err
		}
		loaded++
	}
	return loaded, nil
}

// start does what runPDCmd does between parsing its flags and serving gRPC.
func (p *pdWorld) start() error {
	p.cluster = core.NewCluster()
	ls, err := pdstorage.OpenLocalStore(p.dir, p.fs)
	if err != nil {
		return fmt.Errorf("pd open storage workdir: %w", err)
	}
	p.store = ls
	snapshot, err := ls.Load()
	if err != nil {
		return fmt.Errorf("pd load snapshot: %w", err)
	}
	idStart, tsStart := pdstorage.ResolveAllocatorStarts(1, 1, snapshot.Allocator)
	if _, err := restorePDRegionsReplica(p.cluster, snapshot.Regions); err != nil {
		return fmt.Errorf("pd restore regions: %w", err)
	}
	p.svc = pdserver.NewService(p.cluster, core.NewIDAllocator(idStart), tso.NewAllocator(tsStart))
	p.svc.SetStorage(ls)
	return nil
}

func (p *pdWorld) stop() {
	if p.store != nil {
		_ = p.store.Close()
		p.store = nil
	}
}

func pdMetaEqual(a, b manifest.RegionMeta) bool {
	return a.ID == b.ID && bytes.Equal(a.StartKey, b.StartKey) && bytes.Equal(a.EndKey, b.EndKey) && a.Epoch == b.Epoch && peersEqual(a.Peers, b.Peers)
}

func pbToMeta(r *pb.RegionMeta) manifest.RegionMeta {
	m := manifest.RegionMeta{ID: r.GetId(), StartKey: r.GetStartKey(), EndKey: r.GetEndKey(),
		Epoch: manifest.RegionEpoch{Version: r.GetEpochVersion(), ConfVersion: r.GetEpochConfVersion()}}
	for _, p := range r.GetPeers() {
		m.Peers = append(m.Peers, manifest.PeerMeta{StoreID: p.GetStoreId(), PeerID: p.GetPeerId()})
	}
	return m
}

func pdFmt(m manifest.RegionMeta) string {
	return fmt.Sprintf("r%d[%s,%s)e%d.%d", m.ID, fmtKey(m.StartKey, true), fmtKey(m.EndKey, false), m.Epoch.Version, m.Epoch.ConfVersion)
}

func pdList(ms []manifest.RegionMeta) string {
	var parts []string
	for _, m := range ms {
		parts = append(parts, pdFmt(m))
	}
	return strings.Join(parts, " ")
}

// sweepKeys: every grid key with its byte-level neighbours, the empty key and
// keys beyond both ends of the grid.
func sweepKeys() [][]byte {
	ks := [][]byte{nil, []byte("a"), []byte("z")}
	for i := 0; i < pdGrid; i++ {
		ks = append(ks, justBelow(pkey(i)), pkey(i), justAbove(pkey(i)))
	}
	return ks
}

// checkLookup compares one GetRegionByKey answer with the model.
func checkLookup(p *pdWorld, m *pdModel, res *sim.Result, step int, k []byte, phase string) {
	resp, err := p.svc.GetRegionByKey(context.Background(), &pb.GetRegionByKeyRequest{Key: k})
	res.Checks++
	if err != nil || resp == nil {
		res.Violate(step, "lookup_error", map[string]string{"phase": phase}, "GetRegionByKey(%q): %v", k, err)
		return
	}
	want := m.lookup(k)
	degKnown := "no"
	for _, r := range m.regions {
		if degenerate(r) {
			degKnown = "yes" // an empty/inverted range was accepted earlier
		}
	}
	switch {
	case resp.GetNotFound() || resp.GetRegion() == nil:
		if len(want) > 0 {
			res.Violate(step, "lookup_wrong", map[string]string{"degenerate_known": degKnown, "expected": "region", "got": "not_found"},
				"GetRegionByKey(%q) = not found; known regions: %s; %s contains the key", k, pdList(m.regions), pdFmt(want[0]))
		}
	default:
		got := pbToMeta(resp.GetRegion())
		if len(want) == 0 {
			res.Violate(step, "lookup_wrong", map[string]string{"degenerate_known": degKnown, "expected": "not_found", "got": "region"},
				"GetRegionByKey(%q) = %s; known regions: %s; none contains the key", k, pdFmt(got), pdList(m.regions))
			return
		}
		for _, w := range want {
			if pdMetaEqual(w, got) {
				return
			}
		}
		res.Violate(step, "lookup_wrong", map[string]string{"degenerate_known": degKnown, "expected": "region", "got": "other_region"},
			"GetRegionByKey(%q) = %s; known regions: %s; the key lies in %s", k, pdFmt(got), pdList(m.regions), pdFmt(want[0]))
	}
}

func snapshotMetas(c *core.Cluster) []manifest.RegionMeta {
	var out []manifest.RegionMeta
	for _, ri := range c.RegionSnapshot() {
		out = append(out, ri.Meta)
	}
	sort.Slice(out, func(i, j int) bool { return out[i].ID < out[j].ID })
	return out
}

func relationOf(m *pdModel, meta manifest.RegionMeta) string {
	if len(meta.EndKey) > 0 && bytes.Compare(meta.StartKey, meta.EndKey) >= 0 {
		return "degenerate"
	}
	for _, r := range m.regions {
		if r.ID == meta.ID {
			continue
		}
		if len(r.EndKey) > 0 && bytes.Equal(r.EndKey, meta.StartKey) || len(meta.EndKey) > 0 && bytes.Equal(meta.EndKey, r.StartKey) {
			return "adjacent"
		}
	}
	return "other"
}

func execC26(t *testing.T, c *sim.Case) *sim.Result {
	res := sim.NewResult()
	synctest.Test(t, func(t *testing.T) {
		worldSeq++
		dir := filepath.Join(sim.Scratch(), fmt.Sprintf("pd%d", worldSeq))
		_ = os.RemoveAll(dir)
		_ = os.MkdirAll(dir, 0o755)
		defer os.RemoveAll(dir)
		p := &pdWorld{dir: dir, fs: tracedFS(dir, res.Trace)}
		if err := p.start(); err != nil {
			res.Violate(0, "start_failed", nil, "%v", err)
			return
		}
		defer p.stop()
		m := &pdModel{}
		accepted, rejected := 0, 0
		ctx := context.Background()
		for i, op := range c.Ops {
			sim.Beat()
			res.Steps++
			switch op.K {
			case "hb":
				id := uint64(op.A%8) + 1
				if op.A >= 1 && op.A <= 8 {
					id = uint64(op.A)
				}
				s, e := decRange(op.S)
				meta := manifest.RegionMeta{ID: id, StartKey: s, EndKey: e, Epoch: applyDelta(baseEpoch, int(op.D))}
				for k := 0; k < int(op.B%3)+1; k++ {
					meta.Peers = append(meta.Peers, manifest.PeerMeta{StoreID: uint64(k + 1), PeerID: id*10 + uint64(k)})
				}
				st := "fresh"
				own := m.find(id)
				if own >= 0 {
					meta.Epoch = applyDelta(m.regions[own].Epoch, int(op.D))
					st = staleness(meta.Epoch, m.regions[own].Epoch)
				}
				other, overlaps := m.overlapping(meta)
				rel := relationOf(m, meta)
				req := &pb.RegionHeartbeatRequest{Region: &pb.RegionMeta{Id: id, StartKey: s, EndKey: e,
					EpochVersion: meta.Epoch.Version, EpochConfVersion: meta.Epoch.ConfVersion}}
				for _, pm := range meta.Peers {
					req.Region.Peers = append(req.Region.Peers, &pb.RegionPeer{StoreId: pm.StoreID, PeerId: pm.PeerID})
				}
				resp, err := p.svc.RegionHeartbeat(ctx, req)
				got := err == nil && resp != nil && resp.GetAccepted()
				res.Trace.Add("hb %s epoch=%s overlaps=%v -> accepted=%v", pdFmt(meta), st, overlaps, got)
				res.Checks++
				sig := map[string]string{"epoch": epochDeltaNames[int(op.D)%len(epochDeltaNames)], "relation": rel}
				switch {
				case st == "mixed" && !overlaps:
					res.Probes["hb_mixed_epoch"]++ // unspecified: follow the SUT
				case got && st == "stale":
					res.Violate(i, "hb_accepted_stale", sig, "heartbeat %s accepted although region %d is known with epoch %d.%d", pdFmt(meta), id, m.regions[own].Epoch.Version, m.regions[own].Epoch.ConfVersion)
				case got && overlaps:
					res.Violate(i, "hb_accepted_overlap", sig, "heartbeat %s accepted although it overlaps known region %s", pdFmt(meta), pdFmt(other))
				case !got && rel == "degenerate":
					res.Probes["hb_degenerate_rejected"]++ // an empty or inverted range is malformed input: refusing it is always fine
				case !got && st != "stale" && !overlaps:
					res.Violate(i, "hb_rejected_valid", sig, "heartbeat %s rejected (%v) although it is not stale and overlaps none of: %s", pdFmt(meta), err, pdList(m.regions))
				}
				if got {
					accepted++
					m.put(meta) // follow the SUT (narrow resync after a mismatch)
					res.Faults["hb_accepted"]++
				} else {
					rejected++
					if st == "stale" {
						res.Faults["hb_rejected_stale"]++
					}
					if overlaps {
						res.Faults["hb_rejected_overlap"]++
					}
				}
			case "rm":
				id := uint64(op.A%8) + 1
				if op.A >= 1 && op.A <= 8 {
					id = uint64(op.A)
				}
				resp, err := p.svc.RemoveRegion(ctx, &pb.RemoveRegionRequest{RegionId: id})
				want := m.remove(id)
				res.Trace.Add("rm r%d -> %v %v", id, resp.GetRemoved(), err)
				res.Checks++
				if err != nil || resp.GetRemoved() != want {
					res.Violate(i, "remove_wrong", nil, "RemoveRegion(%d) = removed:%v err:%v; the region was known: %v", id, resp.GetRemoved(), err, want)
				}
				if want {
					res.Faults["region_removed"]++
				}
			case "get":
				k, _ := hex.DecodeString(op.S)
				checkLookup(p, m, res, i, k, "step")
				res.Trace.Add("get %q", k)
			case "restart":
				before := snapshotMetas(p.cluster)
				p.stop()
				if err := p.start(); err != nil {
					res.Violate(i, "restart_failed", nil, "PD does not come back: %v; regions before: %s", err, pdList(before))
					return
				}
				res.Faults["restart"]++
				after := snapshotMetas(p.cluster)
				res.Trace.Add("restart -> %s", pdList(after))
				res.Checks++
				same := len(before) == len(after)
				for k := 0; same && k < len(before); k++ {
					same = pdMetaEqual(before[k], after[k])
				}
				if !same {
					res.Violate(i, "reload_mismatch", nil, "region snapshot before restart: %s; after: %s", pdList(before), pdList(after))
				}
			default:
				continue
			}
			// Route every probe key after every step.
			for _, k := range sweepKeys() {
				checkLookup(p, m, res, i, k, op.K)
			}
			// The catalog the service exposes is the model's list.
			res.Checks++
			if snap := snapshotMetas(p.cluster); len(snap) != len(m.regions) {
				res.Violate(i, "catalog_differs", map[string]string{"phase": op.K}, "region snapshot %s; model %s", pdList(snap), pdList(m.regions))
				m.regions = snap
			} else {
				for k := range snap {
					if !pdMetaEqual(snap[k], m.regions[k]) {
						res.Violate(i, "catalog_differs", map[string]string{"phase": op.K}, "region snapshot %s; model %s", pdList(snap), pdList(m.regions))
						m.regions = snap
						break
					}
				}
			}
		}
		res.Nontrivial = accepted >= 2 && rejected >= 1
	})
	return res
}
