package storesim

import (
	"fmt"
	"os"
	"testing"
	"testing/synctest"

	"github.com/feichai0017/NoKV/manifest"

	"verif/sim"
)

func dump(w *World, tag string) {
	fmt.Fprintf(os.Stderr, "%s:", tag)
	for _, m := range w.Catalog() {
		fmt.Fprintf(os.Stderr, " %s", fmtRegion(m))
	}
	fmt.Fprintln(os.Stderr)
}

func probeWorld(t *testing.T, wiring int64, hi int64) *World {
	c := &sim.Case{Cfg: map[string]int64{"wiring": wiring, "regions": 3, "b0": 40, "gap": 40, "hi_unbounded": hi}}
	res := sim.NewResult()
	w := NewWorld(t, c, res)
	if err := w.OpenDB(); err != nil {
		t.Fatal(err)
	}
	if err := w.seedRegions(initialPartition(c)); err != nil {
		t.Fatal(err)
	}
	if err := w.StartStore(); err != nil {
		t.Fatal(err)
	}
	if pv := w.Settle(); pv != nil {
		t.Fatal(pv)
	}
	return w
}

func child(id uint64, start, end []byte) manifest.RegionMeta {
	return manifest.RegionMeta{ID: id, StartKey: start, EndKey: end, Epoch: manifest.RegionEpoch{Version: 1, ConfVersion: 1},
		Peers: []manifest.PeerMeta{{StoreID: theStoreID, PeerID: peerIDBase + id}}}
}

func TestProbe(t *testing.T) {
	if os.Getenv("STORESIM_PROBE") == "" {
		t.Skip()
	}
	for _, wiring := range []int64{1, 0} {
		synctest.Test(t, func(t *testing.T) {
			fmt.Fprintf(os.Stderr, "=== wiring %d: split, left merge, restart\n", wiring)
			w := probeWorld(t, wiring, 1)
			defer w.Cleanup()
			dump(w, "start")
			var err error
			pv, fin := w.Call(func() { err = w.Store.ProposeSplit(1, child(10, gkey(60), gkey(80)), gkey(60)) })
			fmt.Fprintln(os.Stderr, "split r1@k060:", err, pv, fin)
			dump(w, "after split")
			fmt.Fprintln(os.Stderr, "settle:", w.Settle())
			pv, fin = w.Call(func() { err = w.Store.ProposeMerge(2, 10) })
			fmt.Fprintln(os.Stderr, "merge left 10 into 2:", err, pv, fin)
			dump(w, "after left merge")
			pv, fin = w.Call(func() { err = w.Store.ProposeMerge(3, 2) })
			fmt.Fprintln(os.Stderr, "merge left 2 into unbounded 3:", err, pv, fin)
			dump(w, "after left merge into unbounded")
			fmt.Fprintln(os.Stderr, "manifest:", len(w.DB.Manifest().RegionSnapshot()))
			fmt.Fprintln(os.Stderr, "stop:", w.StopStore())
			fmt.Fprintln(os.Stderr, "open:", w.OpenDB())
			fmt.Fprintln(os.Stderr, "start:", w.StartStore())
			dump(w, "after restart (load)")
			fmt.Fprintln(os.Stderr, "settle:", w.Settle())
			dump(w, "after restart (settled)")
			fmt.Fprintln(os.Stderr, "tick:", w.Tick(3))
			dump(w, "after ticks")
		})
	}
	synctest.Test(t, func(t *testing.T) {
		fmt.Fprintf(os.Stderr, "=== rejected split then another proposal\n")
		w := probeWorld(t, 1, 0)
		defer w.Cleanup()
		var err error
		pv, fin := w.Call(func() { err = w.Store.ProposeSplit(1, child(10, gkey(200), gkey(80)), gkey(200)) })
		fmt.Fprintln(os.Stderr, "split r1@k200 (outside):", err, pv, fin)
		dump(w, "after")
		fmt.Fprintln(os.Stderr, "tick:", w.Tick(3))
		pv, fin = w.Call(func() { err = w.Store.ProposeSplit(1, child(11, gkey(60), gkey(80)), gkey(60)) })
		fmt.Fprintln(os.Stderr, "split r1@k060:", err, pv, fin)
		if pv != nil {
			w.dead = true
		}
	})
}
