package storesim

import (
	"bytes"
	"fmt"
	"sort"
	"strings"
	"testing"
	"testing/synctest"

	"github.com/feichai0017/NoKV/manifest"

	"verif/sim"
)

func init() {
	props["C24"] = sim.PropSpec{Gen: genC24, Exec: execC24}
}

// Split key position classes (relative to the parent's range at execution time).
const (
	posInside     = iota // a grid key strictly inside
	posAtStart           // == StartKey (must not split)
	posAtEnd             // == EndKey (must not split)
	posBefore            // just below StartKey
	posBeyond            // just above EndKey
	posEmpty             // empty split key
	posInsideHigh        // just below EndKey (inside, edge)
	posInsideLow         // just above StartKey (inside, edge)
)

var validPos = []int{posInside, posInside, posInside, posInsideHigh, posInsideLow}
var invalidPos = []int{posAtStart, posAtEnd, posBefore, posBeyond, posEmpty}

func genPartitionCfg(r *sim.Rand) map[string]int64 {
	return map[string]int64{
		"regions":      int64(2 + r.Intn(4)),
		"b0":           int64(20 + 10*r.Intn(5)),
		"gap":          r.Pick64(20, 40, 60),
		"lo_unbounded": int64(r.Pick(0, 0, 0, 1, 1)),
		"hi_unbounded": int64(r.Pick(0, 0, 0, 1, 1)),
	}
}

func genC24(r *sim.Rand, tier string) *sim.Case {
	c := &sim.Case{Cfg: genPartitionCfg(r)}
	c.Cfg["wiring"] = int64(r.Pick(1, 1, 1, 1, 0))
	n := 20 + r.Intn(21)
	invalidRun := r.Chance(30, 100) // split keys at/outside the edges
	nonadjRun := r.Chance(15, 100)  // merges of regions that are not neighbours
	for i := 0; i < n; i++ {
		switch x := r.Intn(100); {
		case x < 38:
			pos := validPos[r.Intn(len(validPos))]
			if invalidRun && r.Chance(1, 4) {
				pos = invalidPos[r.Intn(len(invalidPos))]
			}
			// D bit 0: child start key left empty; D>>1 == 3: the child has no replica on this
			// store, so its peer cannot be built and the split must be undone completely
			c.Ops = append(c.Ops, sim.Op{K: "split", A: int64(r.Intn(8)), B: int64(pos), C: int64(r.Intn(100)), D: int64(r.Intn(2) + 2*r.Pick(0, 0, 0, 0, 3))})
		case x < 78:
			rel := int64(r.Intn(2)) // 0 = right neighbour is the source, 1 = left neighbour is the source
			if nonadjRun && r.Chance(1, 4) {
				rel = 2
			}
			c.Ops = append(c.Ops, sim.Op{K: "merge", A: int64(r.Intn(8)), B: rel, C: int64(r.Intn(8))})
		case x < 85:
			c.Ops = append(c.Ops, sim.Op{K: "remove", A: int64(r.Intn(8)), B: int64(r.Pick(0, 0, 0, 0, 1))})
		default:
			c.Ops = append(c.Ops, sim.Op{K: "tick", A: int64(1 + r.Intn(25))})
		}
	}
	// 0, 1 or 2 restarts at random positions.
	for k := r.Pick(0, 0, 0, 1, 1, 1, 2); k > 0; k-- {
		at := r.Intn(len(c.Ops) + 1)
		ops := append([]sim.Op(nil), c.Ops[:at]...)
		ops = append(ops, sim.Op{K: "restart"})
		c.Ops = append(ops, c.Ops[at:]...)
	}
	return c
}

// ---- interval arithmetic (the harness's own) ------------------------------

type span struct {
	lo    []byte // empty = -inf
	hi    []byte
	hiInf bool
}

func (s span) String() string {
	hi := fmt.Sprintf("%q", s.hi)
	if s.hiInf {
		hi = "+inf"
	}
	return fmt.Sprintf("[%s,%s)", fmtKey(s.lo, true), hi)
}

func degenerate(m manifest.RegionMeta) bool {
	return len(m.EndKey) > 0 && bytes.Compare(m.StartKey, m.EndKey) >= 0
}

// coverage returns the union of the regions' key sets as sorted, merged spans.
func coverage(ms []manifest.RegionMeta, skip uint64) []span {
	var in []span
	for _, m := range ms {
		if (skip != 0 && m.ID == skip) || degenerate(m) || m.State == manifest.RegionStateTombstone {
			continue
		}
		in = append(in, span{lo: m.StartKey, hi: m.EndKey, hiInf: len(m.EndKey) == 0})
	}
	sort.SliceStable(in, func(i, j int) bool { return bytes.Compare(in[i].lo, in[j].lo) < 0 })
	var out []span
	for _, s := range in {
		if n := len(out); n > 0 {
			last := &out[n-1]
			if last.hiInf || bytes.Compare(s.lo, last.hi) <= 0 {
				if !last.hiInf && (s.hiInf || bytes.Compare(s.hi, last.hi) > 0) {
					last.hi, last.hiInf = s.hi, s.hiInf
				}
				continue
			}
		}
		out = append(out, s)
	}
	return out
}

func spansEqual(a, b []span) bool {
	if len(a) != len(b) {
		return false
	}
	for i := range a {
		if !bytes.Equal(a[i].lo, b[i].lo) || a[i].hiInf != b[i].hiInf || (!a[i].hiInf && !bytes.Equal(a[i].hi, b[i].hi)) {
			return false
		}
	}
	return true
}

func spansString(s []span) string {
	var parts []string
	for _, x := range s {
		parts = append(parts, x.String())
	}
	if len(parts) == 0 {
		return "{}"
	}
	return strings.Join(parts, "+")
}

// spanContains reports whether every key of b lies in the union a.
func spansCover(a []span, b span) bool {
	for _, x := range a {
		if bytes.Compare(x.lo, b.lo) > 0 {
			continue
		}
		if x.hiInf {
			return true
		}
		if b.hiInf {
			continue
		}
		if bytes.Compare(b.hi, x.hi) <= 0 {
			return true
		}
	}
	return false
}

// covKind classifies a coverage difference: keys lost (gap), keys gained (extra) or both.
func covKind(want, got []span) string {
	lost, gained := false, false
	for _, s := range want {
		if !spansCover(got, s) {
			lost = true
		}
	}
	for _, s := range got {
		if !spansCover(want, s) {
			gained = true
		}
	}
	switch {
	case lost && gained:
		return "both"
	case lost:
		return "gap"
	case gained:
		return "extra"
	}
	return "none"
}

// setsOverlap: two regions share at least one key (degenerate ranges hold no key).
func setsOverlap(a, b manifest.RegionMeta) bool {
	if degenerate(a) || degenerate(b) {
		return false
	}
	aBeforeB := len(a.EndKey) > 0 && bytes.Compare(a.EndKey, b.StartKey) <= 0
	bBeforeA := len(b.EndKey) > 0 && bytes.Compare(b.EndKey, a.StartKey) <= 0
	return !aBeforeB && !bBeforeA
}

// doubleCover returns the keys that lie in at least two regions, as merged spans.
func doubleCover(ms []manifest.RegionMeta) []span {
	var pieces []manifest.RegionMeta
	for i := 0; i < len(ms); i++ {
		for j := i + 1; j < len(ms); j++ {
			if !setsOverlap(ms[i], ms[j]) {
				continue
			}
			x := manifest.RegionMeta{StartKey: ms[i].StartKey, EndKey: ms[i].EndKey}
			if bytes.Compare(ms[j].StartKey, x.StartKey) > 0 {
				x.StartKey = ms[j].StartKey
			}
			if len(x.EndKey) == 0 || (len(ms[j].EndKey) > 0 && bytes.Compare(ms[j].EndKey, x.EndKey) < 0) {
				x.EndKey = ms[j].EndKey
			}
			pieces = append(pieces, x)
		}
	}
	return coverage(pieces, 0)
}

// overlappingPair names two regions that both intersect s (for the report text).
func overlappingPair(ms []manifest.RegionMeta, s span) (string, string) {
	probe := manifest.RegionMeta{StartKey: s.lo, EndKey: s.hi}
	var names []string
	for _, m := range ms {
		if setsOverlap(m, probe) {
			names = append(names, fmtRegion(m))
		}
	}
	for len(names) < 2 {
		names = append(names, "?")
	}
	return names[0], names[1]
}

func epochRaised(prev, cur manifest.RegionEpoch) bool {
	if cur.Version < prev.Version || cur.ConfVersion < prev.ConfVersion {
		return false
	}
	return cur.Version > prev.Version || cur.ConfVersion > prev.ConfVersion
}

func peersEqual(a, b []manifest.PeerMeta) bool {
	if len(a) != len(b) {
		return false
	}
	for i := range a {
		if a[i] != b[i] {
			return false
		}
	}
	return true
}

func metaEqual(a, b manifest.RegionMeta) bool {
	return a.ID == b.ID && bytes.Equal(a.StartKey, b.StartKey) && bytes.Equal(a.EndKey, b.EndKey) &&
		a.Epoch == b.Epoch && a.State == b.State && peersEqual(a.Peers, b.Peers)
}

func catalogString(ms []manifest.RegionMeta) string {
	var parts []string
	for _, m := range ms {
		parts = append(parts, fmtRegion(m))
	}
	return strings.Join(parts, " ")
}

// ---- the C24 oracle ---------------------------------------------------------

type c24Oracle struct {
	w       *World
	prev    []manifest.RegionMeta           // catalog after the previous step
	state   map[uint64]manifest.RegionState // last state seen through the store's region hooks
	gone    map[uint64]bool                 // ids whose removal was reported by the hooks
	evPos   int
	applied int
}

func byID(ms []manifest.RegionMeta) map[uint64]manifest.RegionMeta {
	out := make(map[uint64]manifest.RegionMeta, len(ms))
	for _, m := range ms {
		out[m.ID] = m
	}
	return out
}

// stepInfo describes what the step did, for signatures.
type stepInfo struct {
	op       string // split, merge, remove, tick, restart
	sig      map[string]string
	removeID uint64 // region taken out on purpose (its keys legitimately leave the coverage)
}

func (o *c24Oracle) sigWith(info stepInfo, extra map[string]string) map[string]string {
	out := map[string]string{"op": info.op}
	for k, v := range info.sig {
		out[k] = v
	}
	for k, v := range extra {
		out[k] = v
	}
	return out
}

// check evaluates the statement's invariants on the catalog after a step.
func (o *c24Oracle) check(info stepInfo) {
	w, res := o.w, o.w.Res
	cur := w.Catalog()
	res.Trace.Add("catalog %s", catalogString(cur))

	// (1) live ranges pairwise disjoint: no key may become covered twice in this
	// step (keys that were already covered twice were reported when that happened).
	was := doubleCover(o.prev)
	res.Checks += len(cur) * (len(cur) - 1) / 2
	for _, s := range doubleCover(cur) {
		if spansCover(was, s) {
			continue
		}
		a, b := overlappingPair(cur, s)
		res.Violate(w.step, "overlap", o.sigWith(info, nil), "after %s: keys %s are now inside both %s and %s; catalog before: %s", info.op, s, a, b, catalogString(o.prev))
		break
	}
	// (2) union of the ranges unchanged (minus a region removed on purpose).
	want := coverage(o.prev, info.removeID)
	got := coverage(cur, 0)
	res.Checks++
	if !spansEqual(want, got) {
		res.Violate(w.step, "coverage_changed", o.sigWith(info, map[string]string{"kind": covKind(want, got)}),
			"after %s: covered key space was %s, is %s; catalog before: %s; after: %s", info.op, spansString(want), spansString(got),
			catalogString(o.prev), catalogString(cur))
	}
	// (3) every change raised the epoch of the region it changed; epochs never go back.
	pm := byID(o.prev)
	changed := 0
	for _, m := range cur {
		p, ok := pm[m.ID]
		if !ok {
			changed++
			continue
		}
		res.Checks++
		if m.Epoch.Version < p.Epoch.Version || m.Epoch.ConfVersion < p.Epoch.ConfVersion {
			res.Violate(w.step, "epoch_regressed", o.sigWith(info, nil), "after %s: %s had epoch %d.%d", info.op, fmtRegion(m), p.Epoch.Version, p.Epoch.ConfVersion)
			continue
		}
		if !metaRangeEqual(p, m) || !peersEqual(p.Peers, m.Peers) {
			changed++
			if !epochRaised(p.Epoch, m.Epoch) {
				res.Violate(w.step, "epoch_not_raised", o.sigWith(info, nil), "after %s: region changed from %s to %s without a higher epoch", info.op, fmtRegion(p), fmtRegion(m))
			}
		}
		// (4) state only moves forward (catalog view).
		if m.State < p.State {
			res.Violate(w.step, "state_regress", o.sigWith(info, map[string]string{"seen": "catalog"}), "after %s: %s was %s", info.op, fmtRegion(m), stateName(p.State))
		}
	}
	if len(cur) != len(o.prev) {
		changed++
	}
	if changed > 0 && (info.op == "split" || info.op == "merge") {
		o.applied++
		res.Faults[info.op+"_applied"]++
	}
	o.checkEvents(info)
	o.prev = cur
}

func metaRangeEqual(a, b manifest.RegionMeta) bool {
	return bytes.Equal(a.StartKey, b.StartKey) && bytes.Equal(a.EndKey, b.EndKey)
}

// checkEvents walks the region hook callbacks issued since the last step: the
// store reports every catalog write, so intermediate states are visible too.
func (o *c24Oracle) checkEvents(info stepInfo) {
	w, res := o.w, o.w.Res
	for ; o.evPos < len(w.events); o.evPos++ {
		ev := w.events[o.evPos]
		res.Checks++
		if ev.removed {
			o.gone[ev.id] = true
			delete(o.state, ev.id)
			continue
		}
		if o.gone[ev.id] {
			res.Violate(w.step, "state_regress", o.sigWith(info, map[string]string{"seen": "hook", "from": "removed"}),
				"during %s: region %d was removed (tombstone) earlier and is %s again", info.op, ev.id, stateName(ev.state))
			delete(o.gone, ev.id)
		}
		if last, ok := o.state[ev.id]; ok && ev.state < last {
			res.Violate(w.step, "state_regress", o.sigWith(info, map[string]string{"seen": "hook", "from": stateName(last)}),
				"during %s: region %d went from %s to %s", info.op, ev.id, stateName(last), stateName(ev.state))
		}
		o.state[ev.id] = ev.state
	}
}

func panicSig(pv any) map[string]string {
	s := fmt.Sprint(pv)
	cause := "other"
	if strings.Contains(s, "two accepted Ready structs without call to Advance") {
		cause = "ready_without_advance"
	}
	return map[string]string{"cause": cause}
}

// neighbours finds the regions adjacent to t in the current catalog.
func neighbours(cat []manifest.RegionMeta, t manifest.RegionMeta) (left, right *manifest.RegionMeta) {
	for i := range cat {
		m := &cat[i]
		if m.ID == t.ID || degenerate(*m) {
			continue
		}
		if len(t.EndKey) > 0 && bytes.Equal(m.StartKey, t.EndKey) && right == nil {
			right = m
		}
		if len(t.StartKey) > 0 && bytes.Equal(m.EndKey, t.StartKey) && left == nil {
			left = m
		}
	}
	return
}

// splitKeyFor computes the split key of the given position class; ok=false
// when the class does not exist for this parent (e.g. "before" an unbounded start).
func splitKeyFor(parent manifest.RegionMeta, pos int, frac int64) (key []byte, ok bool) {
	s, e := parent.StartKey, parent.EndKey
	inside := func(k []byte) bool {
		return len(k) > 0 && (len(s) == 0 || bytes.Compare(k, s) > 0) && (len(e) == 0 || bytes.Compare(k, e) < 0)
	}
	switch pos {
	case posInside:
		lo, hi := -1, -1
		for g := 0; g < gridN; g++ {
			if inside(gkey(g)) {
				if lo < 0 {
					lo = g
				}
				hi = g
			}
		}
		if lo >= 0 {
			return gkey(lo + int(frac)*(hi-lo+1)/100), true
		}
		if len(s) > 0 {
			k := justAbove(s)
			return k, inside(k)
		}
		return nil, false
	case posInsideLow:
		if len(s) == 0 {
			k := gkey(0)
			return k, inside(k)
		}
		k := justAbove(s)
		return k, inside(k)
	case posInsideHigh:
		if len(e) == 0 {
			k := gkey(gridN - 1)
			return k, inside(k)
		}
		k := justBelow(e)
		return k, inside(k)
	case posAtStart:
		return append([]byte(nil), s...), len(s) > 0
	case posAtEnd:
		return append([]byte(nil), e...), len(e) > 0
	case posBefore:
		return justBelow(s), len(s) > 0
	case posBeyond:
		if len(e) == 0 {
			return nil, false
		}
		return justAbove(e), true
	case posEmpty:
		return nil, true
	}
	return nil, false
}

var posNames = map[int]string{posInside: "inside", posAtStart: "at_start", posAtEnd: "at_end", posBefore: "before_start",
	posBeyond: "beyond_end", posEmpty: "empty", posInsideHigh: "inside_high", posInsideLow: "inside_low"}

func errClass(err error) string {
	if err == nil {
		return "ok"
	}
	s := err.Error()
	if i := strings.IndexAny(s, "0123456789"); i > 0 {
		s = s[:i]
	}
	return strings.TrimSpace(s)
}

// bringUp opens the DB, seeds the initial partition and starts the store.
func bringUp(w *World) bool {
	if err := w.OpenDB(); err != nil {
		w.Res.Violate(0, "open_failed", nil, "%v", err)
		return false
	}
	if err := w.seedRegions(initialPartition(w.C)); err != nil {
		w.Res.Violate(0, "seed_failed", nil, "%v", err)
		return false
	}
	if err := w.StartStore(); err != nil {
		w.Res.Violate(0, "start_failed", nil, "%v", err)
		return false
	}
	if pv := w.Settle(); pv != nil {
		w.Res.Violate(0, "sut_panic", panicSig(pv), "panic while electing the initial leaders: %v", pv)
		w.dead = true
		return false
	}
	return true
}

func execC24(t *testing.T, c *sim.Case) *sim.Result {
	res := sim.NewResult()
	synctest.Test(t, func(t *testing.T) {
		w := NewWorld(t, c, res)
		defer w.Cleanup()
		if !bringUp(w) {
			return
		}
		o := &c24Oracle{w: w, state: map[uint64]manifest.RegionState{}, gone: map[uint64]bool{}}
		o.prev = w.Catalog()
		defer func() { res.Nontrivial = o.applied > 0 }()
		res.Trace.Add("initial %s wiring=%d", catalogString(o.prev), w.wiring)
		o.checkEvents(stepInfo{op: "start"})
		nextID := uint64(100)
		for i, op := range c.Ops {
			w.step = i
			sim.Beat()
			res.Steps++
			info := stepInfo{op: op.K}
			var pv any
			cat := w.Catalog()
			switch op.K {
			case "split":
				if len(cat) == 0 {
					continue
				}
				parent := cat[int(op.A)%len(cat)]
				pos := int(op.B) % 8
				key, ok := splitKeyFor(parent, pos, op.C%100)
				if !ok {
					continue
				}
				nextID++
				child := manifest.RegionMeta{
					ID:       nextID,
					StartKey: append([]byte(nil), key...),
					EndKey:   append([]byte(nil), parent.EndKey...),
					Epoch:    manifest.RegionEpoch{Version: 1, ConfVersion: 1},
					Peers:    []manifest.PeerMeta{{StoreID: theStoreID, PeerID: peerIDBase + nextID}},
				}
				if op.D%2 == 1 {
					child.StartKey = nil // let the store take the start from the split key
				}
				info.sig = map[string]string{"key": posNames[pos]}
				if (op.D>>1)%4 == 3 {
					child.Peers = []manifest.PeerMeta{{StoreID: theStoreID + 1, PeerID: peerIDBase + nextID}}
					info.sig["child"] = "no_local_replica"
					res.Faults["split_child_cannot_start"]++
				}
				var err error
				var fin bool
				pv, fin = w.Call(func() { err = w.Store.ProposeSplit(parent.ID, child, key) })
				res.Trace.Add("split %s at %q (%s) child r%d -> %s fin=%v", fmtRegion(parent), key, posNames[pos], child.ID, errClass(err), fin)
				if err != nil {
					res.Probes["split_rejected"]++
				}
			case "merge":
				if len(cat) < 2 {
					continue
				}
				target := cat[int(op.A)%len(cat)]
				if degenerate(target) {
					continue // an empty or inverted range has no neighbours to speak of
				}
				left, right := neighbours(cat, target)
				var source *manifest.RegionMeta
				rel := ""
				switch op.B % 3 {
				case 0:
					source, rel = right, "right"
				case 1:
					source, rel = left, "left"
				default:
					var others []*manifest.RegionMeta
					for k := range cat {
						m := &cat[k]
						if m.ID != target.ID && !degenerate(*m) && (left == nil || m.ID != left.ID) && (right == nil || m.ID != right.ID) {
							others = append(others, m)
						}
					}
					if len(others) > 0 {
						source, rel = others[int(op.C)%len(others)], "nonadjacent"
					}
				}
				if source == nil {
					continue
				}
				tend := "bounded"
				if len(target.EndKey) == 0 {
					tend = "unbounded"
				}
				info.sig = map[string]string{"relation": rel, "target_end": tend}
				var err error
				var fin bool
				pv, fin = w.Call(func() { err = w.Store.ProposeMerge(target.ID, source.ID) })
				res.Trace.Add("merge %s (%s) into %s -> %s fin=%v", fmtRegion(*source), rel, fmtRegion(target), errClass(err), fin)
				if err != nil {
					res.Probes["merge_rejected"]++
				}
			case "remove":
				if len(cat) == 0 {
					continue
				}
				victim := cat[int(op.A)%len(cat)]
				var err error
				pv = guard(func() {
					for _, p := range victim.Peers {
						if p.StoreID == theStoreID {
							w.Store.StopPeer(p.PeerID)
						}
					}
					if op.B%2 == 0 {
						err = w.Store.RemoveRegion(victim.ID)
					}
				})
				if op.B%2 == 0 && err == nil {
					info.removeID = victim.ID
					res.Faults["region_removed"]++
				} else {
					res.Faults["peer_stopped"]++
				}
				res.Trace.Add("remove %s only_stop=%v -> %s", fmtRegion(victim), op.B%2 == 1, errClass(err))
			case "tick":
				pv = w.Tick(int(op.A%26) + 1)
				res.Trace.Add("tick %d", op.A%26+1)
			case "restart":
				if !o.restart(info) {
					return
				}
				continue
			default:
				continue
			}
			if pv == nil {
				pv = w.Settle()
			}
			if pv != nil {
				res.Violate(i, "sut_panic", panicSig(pv), "step %d %s: the store panicked: %v", i, op.String(), pv)
				w.dead = true
				res.Trace.Add("panic %v", panicSig(pv))
				break
			}
			o.check(info)
		}
	})
	return res
}

// restart closes store and DB, reopens and restores the store from the
// manifest; false = the run cannot continue.
func (o *c24Oracle) restart(info stepInfo) bool {
	w, res := o.w, o.w.Res
	before := w.Catalog()
	if err := w.StopStore(); err != nil {
		res.Violate(w.step, "close_error", nil, "DB.Close: %v", err)
	}
	if err := w.OpenDB(); err != nil {
		res.Violate(w.step, "reopen_failed", nil, "%v", err)
		return false
	}
	// The manifest is what the next process restores the catalog from.
	snap := w.DB.Manifest().RegionSnapshot()
	var persisted []manifest.RegionMeta
	for _, m := range snap {
		persisted = append(persisted, m)
	}
	sort.Slice(persisted, func(i, j int) bool { return persisted[i].ID < persisted[j].ID })
	w.events = w.events[:0]
	o.evPos = 0
	if err := w.StartStore(); err != nil {
		res.Violate(w.step, "restart_failed", nil, "%v", err)
		return false
	}
	res.Faults["restart"]++
	after := w.Catalog()
	res.Trace.Add("restart loaded %s", catalogString(after))
	wiring := "manifest"
	if w.wiring == 0 {
		wiring = "serve"
	}
	res.Checks++
	same := len(before) == len(after)
	for i := 0; same && i < len(before); i++ {
		same = metaEqual(before[i], after[i])
	}
	if !same {
		res.Violate(w.step, "reload_mismatch", map[string]string{"op": "restart", "wiring": wiring, "phase": "load"},
			"catalog before restart: %s; manifest after reopen: %s; catalog after restart: %s", catalogString(before), catalogString(persisted), catalogString(after))
		if w.wiring == 0 {
			// cmd/nokv serve builds the store without a manifest, so nothing the
			// store did was persisted; everything after this point would only
			// restate that. The run ends here.
			return false
		}
	}
	// Let the restarted peers elect themselves (raft re-delivers the retained log).
	tickErr := ""
	var pv any
	for _, id := range w.peerIDs() {
		for k := 0; k < 2*electionTick && pv == nil; k++ {
			pv = guard(func() {
				if err := w.Store.Router().SendTick(id); err != nil && tickErr == "" {
					tickErr = errClass(err)
					res.Probes["replay_error"]++
				}
			})
		}
	}
	synctest.Wait()
	if pv == nil {
		pv = w.Settle()
	}
	res.Trace.Add("restart replay err=%q", tickErr)
	if pv != nil {
		res.Violate(w.step, "sut_panic", panicSig(pv), "restart: the store panicked while replaying: %v", pv)
		w.dead = true
		return false
	}
	settled := w.Catalog()
	res.Checks++
	same = len(before) == len(settled)
	for i := 0; same && i < len(before); i++ {
		same = metaEqual(before[i], settled[i])
	}
	if !same {
		res.Violate(w.step, "reload_mismatch", map[string]string{"op": "restart", "wiring": wiring, "phase": "replay"},
			"catalog before restart: %s; after restart and log replay: %s (first tick error: %q)", catalogString(before), catalogString(settled), tickErr)
	}
	// Invariants against the pre-restart catalog, then carry on from what is there.
	o.prev = before
	o.check(stepInfo{op: "restart", sig: map[string]string{"wiring": wiring}})
	if !same || tickErr != "" {
		// The restarted store re-applied (or refused to re-apply) old admin
		// entries: peers whose replay failed never advance again (they stay
		// without a leader), children re-created by a replayed split replay their
		// own logs in later ticks. Whatever the rest of the run showed would be a
		// consequence of this restart, so the run ends here.
		res.Probes["restart_replay_trouble"]++
		return false
	}
	return true
}
