"""Engine E2 "unitsim": single components under the seeded task scheduler."""

ENGINES_ADD = {
    "unitsim": {
        "pkg": "./harness/unitsim",
        "kind": "E2: one component alone (utils.WaterMark, latch.Manager, utils.DirLock, utils.Skiplist/utils.ART, pd/server.Service + LocalStore) driven by 2-4 client tasks under the seeded task scheduler inside a synctest bubble; interleavings at verifhook yield sites",
        "real": [],
        "stub": ["OS scheduler (tasks park at verifhook.Yield/BeforeLock sites and are released one at a time by the seeded scheduler)"],
    },
}

E2_ASSUME = [
    "interleavings are explored at yield-site granularity (sites listed in harness/unitsim/NOTES.md); code between two sites runs atomically",
    "a clean batch is evidence, not proof: 2-4 tasks, <= 16 operations per run",
]

PROPS_ADD = {
    "C32": {
        "engine": "unitsim", "level": "exploration", "budget": {"quick": 15, "thorough": 600},
        "title": "The watermark never passes an unfinished index",
        "technique": "deterministic simulation: 2-4 tasks issue Begin/BeginMany/Done/DoneMany/WaitForMark on a real utils.WaterMark with a 2-8 slot window; seeded scheduler interleaves them at every atomic step; invariants checked after every scheduler step",
        "rule": "case = seeded op lists for 2-4 tasks + window size + scheduler stickiness; after every scheduler step: DoneUntil monotone, DoneUntil < every begun-and-unfinished index (for a further Begin of the newest index, issued like the oracle's reader registration while the mark may already stand there: DoneUntil <= it), a returned WaitForMark(i) saw no unfinished index <= i; distinct = distinct event-trace hash (includes the schedule); non-trivial = at least two tasks were inside watermark calls at the same time",
        "level_text": "Seeded search over task interleavings at yield sites placed around every atomic step of the watermark, with a token model (indices whose Begin returned and whose Done was not invoked) as oracle. Right level because the property quantifies over all schedules; the state per run is tiny so tens of thousands of schedules fit the quick tier.",
        "note": "Trusted: the usage discipline encoded in the harness (new indices are begun serialised and increasing, as txn.go and raftstore/peer do; lock-free re-Begin only under a held lower index) and the verif-tag accessors VerifSetWindow/VerifSlot.",
        "design_ref": "7/C32", "assumptions": E2_ASSUME,
        "real": ["utils.WaterMark"],
    },
    "C20": {
        "engine": "unitsim", "level": "exploration", "budget": {"quick": 15, "thorough": 600},
        "title": "Key latches exclude overlapping requests without deadlock",
        "technique": "deterministic simulation: 2-4 tasks Acquire/hold/Release (sometimes twice) generated key sets on a real latch.Manager with 1-8 stripes or the shipped sizes 64/256/512 (keys then drawn from a pool of stripes at power-of-two distances); every stripe acquisition is a scheduling point and a contended stripe a parking point; exclusion, latch ownership and progress checked after every step",
        "rule": "case = seeded key-set patterns (stripe.variant lists with duplicates, empty and colliding keys) for 2-4 tasks + stripe count + scheduler stickiness; after every step: no two holders share a non-empty key, every holder's stripes are still locked, and not every unfinished task waits on a held stripe; distinct = distinct event-trace hash (includes the schedule); non-trivial = some task actually waited on a contended stripe",
        "level_text": "Seeded search over acquisition interleavings with a holder model; deadlock is decided exactly at the explored state (all unfinished tasks wait on held stripes), exclusion by comparing holders' key sets. Right level because the property quantifies over all key sets and schedules; the state is tiny, so tens of thousands of schedules fit the quick tier.",
        "note": "Trusted: the holder bookkeeping of the harness and the interpretation that sharing is evaluated over non-empty keys (empty keys are generated but latch nothing by design of Acquire). Keys are materialised per process from stripe patterns because kv.MemHash is process-seeded.",
        "design_ref": "7/C20", "assumptions": E2_ASSUME,
        "real": ["percolator/latch.Manager"],
    },
    "C33": {
        "engine": "unitsim", "level": "exploration", "budget": {"quick": 15, "thorough": 600},
        "title": "At most one database holds a working directory at a time",
        "technique": "deterministic simulation: 2-3 contenders loop utils.AcquireDirLock/hold/Release on one directory through SimFS (real files, real flock); every file-system call of a contender and the verif site between unlock and unlink are scheduling points; a fraction of the runs opens and closes whole NoKV.DBs instead",
        "rule": "case = seeded acquire/hold/release loops for 2-3 contenders + scheduler stickiness (+ db variant); after every step at most one contender is between a successful acquire and the start of its release; distinct = distinct event-trace hash (includes the schedule and the FS events); non-trivial = at least one acquisition was refused because the directory was in use",
        "level_text": "Seeded search over interleavings of the lock-file operations (open/create, flock, truncate, write, sync, unlock, close, unlink) of several contenders with a holder count as oracle. Right level because the property quantifies over all schedules of opens and closes; contenders in one process stand for several processes because flock arbitrates open file descriptions.",
        "note": "Trusted: the kernel's flock on /dev/shm (tmpfs) as the arbiter, SimFS forwarding to the real file system, and the harness's holder bookkeeping (holding = Acquire/Open returned successfully and Release/Close not yet invoked).",
        "design_ref": "7/C33", "assumptions": E2_ASSUME,
        "real": ["utils.DirLock (flock on a real LOCK file)", "NoKV.DB Open/Close (db variant)"],
        "stub": ["disk = real directory on /dev/shm behind SimFS"],
    },
    "C27": {
        "engine": "unitsim", "level": "exploration", "budget": {"quick": 20, "thorough": 600},
        "title": "PD timestamps and IDs are unique and increasing across restarts",
        "technique": "deterministic simulation: 2-4 tasks call Tso/AllocID on a real pd/server.Service persisting through pd/storage.LocalStore on SimFS; scheduling points before/after the counters are read, at the checkpoint mutex and at the checkpoint WriteFile/Rename; process-crash images at chosen FS events and at the end are restarted as cmd/nokv pd does and allocation continues",
        "rule": "case = seeded Tso/AllocID calls (count 1-3) for 2-4 tasks + warm-up lifetime + up to 3 crash-image positions + scheduler stickiness; oracle: values of a lifetime are distinct and respect real-time order of calls; every value handed out after restarting an image is greater than every value whose response had been returned before the image instant; distinct = distinct event-trace hash (includes the schedule); non-trivial = at least two calls were in progress at the same time",
        "level_text": "Seeded search over interleavings of concurrent allocation requests with the checkpoint writes, with crash images cut at file-system events and restarted. Right level because the property quantifies over schedules and crash points; each run restarts up to four images, and a run costs about a millisecond.",
        "note": "Trusted: the restart sequence replicated from cmd/nokv/pd.go (package main: OpenLocalStore, Load, ResolveAllocatorStarts with the default starts 1/1, NewIDAllocator/NewAllocator/NewService, SetStorage), the process-crash model (a checkpoint WriteFile or Rename is atomic; an image holds what the kernel has), and the harness's logical clock for call invocation/return.",
        "design_ref": "7/C27", "assumptions": E2_ASSUME + ["process-crash model: kernel-held file contents survive; power loss and torn checkpoint writes are not modelled"],
        "real": ["pd/server.Service (Tso, AllocID)", "pd/tso.Allocator", "pd/core.IDAllocator", "pd/storage.LocalStore + manifest.Manager", "pd/storage.ResolveAllocatorStarts"],
        "stub": ["gRPC transport (handlers are called directly)", "cmd/nokv pd start-up sequence (replicated in the harness)", "disk = real directory on /dev/shm behind SimFS"],
    },
    "C07": {
        "engine": "unitsim", "level": "exploration", "budget": {"quick": 20, "thorough": 600},
        "title": "Both memtable engines behave as the same ordered map",
        "technique": "deterministic simulation / model-based testing: generated multisets of internal keys (arbitrary bytes, prefix pairs, many versions, all column families) inserted into a real utils.Skiplist and a real utils.ART, sequentially or by 2-3 inserter tasks (plus a reader) interleaved at the CAS yield sites; every Search, forward/reverse iteration and Seek compared with a sorted-slice model ordered by an independent comparator",
        "rule": "case = seeded insert list (cf, user key, version, tower height) + key-shape mode + sequential/concurrent + arena size; oracle = sorted slice ordered by (cf asc, user key asc, version desc); after the inserts (and once midway) every Search probe (stored keys, version neighbours, absent neighbours), full forward and reverse iteration, and Seek+3xNext in both directions of both engines are compared with it; distinct = distinct event-trace hash; non-trivial = at least two distinct internal keys stored (sequential) / two inserters inside Add at the same time (concurrent)",
        "level_text": "Seeded search over key multisets, insertion orders and (in a third of the runs) insert interleavings, with an independent sorted-slice model as oracle. Right level because the property quantifies over all key sets and interleavings; the structures are in-memory and a case costs well under a millisecond.",
        "note": "Trusted: the independent comparator of the harness and kv.InternalKey as the key encoder. Skiplist tower heights are set through the verif knob skiplist.height (runtime.fastrand is not seedable); arena sizes below 1 MiB cannot be configured (newArena rounds up).",
        "design_ref": "7/C07", "assumptions": E2_ASSUME,
        "real": ["utils.Skiplist", "utils.ART", "utils.Arena", "utils.CompareKeys", "kv.InternalKey"],
    },
}
