"""Engine E2 "unitsim": single components under the seeded task scheduler."""

ENGINES_ADD = {
    "unitsim": {
        "pkg": "./harness/unitsim",
        "kind": "E2: one component alone (utils.WaterMark, latch.Manager, utils.DirLock, utils.Skiplist/utils.ART, pd/server.Service + LocalStore) driven by 2-4 client tasks under the seeded task scheduler inside a synctest bubble; interleavings at verifhook yield sites",
        "real": [],
        "stub": ["OS scheduler (tasks park at verifhook.Yield/BeforeLock sites and are released one at a time by the seeded scheduler)"],
    },
}

E2_ASSUME = [
    "interleavings are explored at yield-site granularity (sites listed in harness/unitsim/NOTES.md); code between two sites runs atomically",
    "a clean batch is evidence, not proof: 2-4 tasks, <= 16 operations per run",
]

PROPS_ADD = {
    "C32": {
        "engine": "unitsim", "level": "exploration", "budget": {"quick": 20, "thorough": 600},
        "title": "The watermark never passes an unfinished index",
        "technique": "deterministic simulation: 2-4 tasks issue Begin/BeginMany/Done/DoneMany/WaitForMark on a real utils.WaterMark with a 2-8 slot window; seeded scheduler interleaves them at every atomic step; invariants checked after every scheduler step",
        "rule": "case = seeded op lists for 2-4 tasks + window size + scheduler stickiness; after every scheduler step: DoneUntil monotone, DoneUntil < every begun-and-unfinished index, a returned WaitForMark(i) saw no unfinished index <= i; distinct = distinct event-trace hash (includes the schedule); non-trivial = at least two tasks were inside watermark calls at the same time",
        "level_text": "Seeded search over task interleavings at yield sites placed around every atomic step of the watermark, with a token model (indices whose Begin returned and whose Done was not invoked) as oracle. Right level because the property quantifies over all schedules; the state per run is tiny so tens of thousands of schedules fit the quick tier.",
        "note": "Trusted: the usage discipline encoded in the harness (new indices are begun serialised and increasing, as txn.go and raftstore/peer do; lock-free re-Begin only under a held lower index) and the verif-tag accessors VerifSetWindow/VerifSlot.",
        "design_ref": "7/C32", "assumptions": E2_ASSUME,
        "real": ["utils.WaterMark"],
    },
}
