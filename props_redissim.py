"""Registry of engine E5 redissim (harness overlaid into /repo/cmd/nokv-redis; see overlay/redis/NOTES.md)."""

ENGINES_ADD = {
    "redissim": {
        "overlay": True, "repo_pkg": "cmd/nokv-redis", "src": "overlay/redis",
        "kind": "E5: the real Redis gateway (redisServer.handleConn, RESP parser, dispatch, embeddedBackend on a real NoKV.DB, raftBackend) compiled together with the harness into cmd/nokv-redis through go test -overlay, driven over net.Pipe connections inside a synctest bubble",
        "real": ["cmd/nokv-redis: redisServer.handleConn/execute/execSet, parseRESP/readLine/expectCRLF, reply writers",
                 "cmd/nokv-redis: main() option construction (captured by running main with a failing listener stub)"],
        "stub": ["net.Listener/TCP (connections are net.Pipe pairs handed to handleConn directly)",
                 "OS clock (synctest fake clock, starts 2000-01-01T00:00:00Z)"],
    },
}

E5_ASSUME = [
    "one gateway process, connections are in-memory pipes: TCP segmentation is modelled by explicit fragmentation of the client's writes",
    "a clean batch is evidence, not proof: bounds are small (<= 5 keys, <= a few hundred commands per run)",
    "options are main.go's except MemTableSize and ValueLogFileSize (1 MiB each) and background compaction switched off",
]

PROPS_ADD = {
    "C29": {
        "engine": "redissim", "level": "exploration", "budget": {"quick": 12, "thorough": 600},
        "title": "Redis gateway commands follow Redis semantics",
        "technique": "deterministic simulation: seeded RESP command sequences (all listed commands, option combinations, int64 limits, non-integers, wrong arities, pipelining, inline form, clock advances) from one client against a reference Redis model; embedded backend on a real DB, and the raft backend over an ideal store",
        "rule": "case = seeded list of commands over <= 5 keys + fake-clock advances + backend choice; every reply is compared with the model by kind and payload (error replies by kind, the two INCR-family texts exactly), every key is read once more at the end; time-sensitive commands are issued only >= 1 s away from a key's deadline; distinct = distinct event-trace hash; non-trivial = at least 8 compared replies and at least one write command",
        "level_text": "Seeded search over command sequences with a reference model as oracle. The property quantifies over all sequences, so it can only be sampled; small key spaces and values at the integer limits maximise the density of interesting states.",
        "note": "Trusted: the reference model in overlay/redis/model_test.go (written from the Redis documentation; syntax the documentation leaves open is not asserted). The raft-backed variant runs the real raftBackend over the harness's ideal single-region percolator store, not over a cluster.",
        "design_ref": "7/C29", "assumptions": E5_ASSUME,
        "real": ["embeddedBackend on a real NoKV.DB opened with main.go's options", "raftBackend (variant backend=1)"],
        "stub": ["raftstore client + PD TSO (variant backend=1): ideal single-region percolator store of the harness"],
    },
    "C30": {
        "engine": "redissim", "level": "exploration", "budget": {"quick": 28, "thorough": 600},
        "title": "Concurrent Redis clients never lose updates",
        "technique": "deterministic simulation: 2-4 connections served by the real handleConn as scheduler tasks issue INCR/INCRBY/DECRBY and SET NX on shared keys; a seeded scheduler interleaves them at backend-call boundaries, at the verifhook yield sites inside the transaction path, at the SUT's own blocking points (WaitForMark, commit wait) and, for the raft-backed variant, at every raftClient/TSO call",
        "rule": "case = per-connection command scripts + configuration (connections, counters, NX keys, backend, retry budget of read-modify-write commands 1-3 or shipped 64) + scheduler choice tape; oracle: final GET of every counter = initial value + sum of the deltas of the commands that replied an integer, at most one SET NX per absent key replied OK; distinct = distinct event-trace hash (scheduler decisions included); non-trivial = backend calls of different connections alternated at least twice",
        "level_text": "Seeded search over interleavings of concurrent client commands. The property quantifies over all schedules; they are sampled at the granularity of the yield sites reachable in the tree, which is stated in the note.",
        "note": "Granularity: embedded backend - boundaries of each redisBackend call, every verifhook.Yield site named wm./txn./oracle./orc./db./commit./write. that the handler goroutine reaches inside db.Update (yields under the oracle mutex are passed through unless the tree announces the lock with BeforeLock), and the engine's own blocking points (a command started while another is in its commit window waits in WaitForMark). Raft-backed variant - the real raftBackend over an ideal single-region snapshot-isolation store (harness model of percolator: locks, write conflicts) with a scheduling point at every raftClient/TSO call; it shows what the gateway's own read-then-write logic loses, not what a real cluster adds. The bubble runs on one P (GOMAXPROCS 1) so that tasks woken by the same event run in readying order.",
        "design_ref": "7/C30", "assumptions": E5_ASSUME,
        "real": ["embeddedBackend on a real NoKV.DB opened with main.go's options", "raftBackend (Get/Set/IncrBy/mutate/lock resolution)"],
        "stub": ["raftstore client + PD TSO (raft-backed variant): ideal single-region percolator store of the harness"],
    },
    "C31": {
        "engine": "redissim", "level": "exploration", "budget": {"quick": 10, "thorough": 600},
        "title": "The RESP parser is total and allocation-bounded",
        "technique": "deterministic simulation: seeded byte streams (well-formed array/inline commands, malformed frames, huge and negative declared lengths, truncation) delivered over a pipe with seeded fragmentation, every 2-way split of short streams, pauses and mid-frame EOF, to handleConn (recording stub backend) or to a bare parseRESP loop",
        "rule": "case = seeded frame list + truncation + delivery plan + mode; per delivery: no panic, handler returns after end of stream, runtime.MemStats.TotalAlloc delta <= 64 x bytes delivered + 64 KiB, replies are well-formed RESP, every leading well-formed command is parsed into exactly the generator's arguments (bare parser: argument lists; handleConn: replies and recorded backend calls); distinct = distinct event-trace hash; non-trivial = the stream contains a malformed/oversized/truncated frame or was delivered in more than one piece",
        "level_text": "Seeded search over byte streams and fragmentations with a structural oracle. The property quantifies over all byte strings, so it is sampled; frames are built from the grammar's boundary cases rather than from uniform noise.",
        "note": "Trusted: the client-side RESP decoder of the harness and the TotalAlloc accounting (process-wide counter, read while every other goroutine of the bubble is quiescent). Declared lengths are capped at 2^28 (bulk) and 2^23 (array) so that unfixed code cannot exhaust the machine; raw frames keep longer digit runs only in spellings >= 2^63-1. Replies after a stream that ends inside a frame are not asserted.",
        "design_ref": "7/C31", "assumptions": E5_ASSUME[:2],
        "stub": ["redisBackend (recording stub: replies are a pure function of the arguments)"],
    },
}
