"""Registry of engine E5 redissim (harness overlaid into /repo/cmd/nokv-redis)."""

ENGINES_ADD = {
    "redissim": {
        "overlay": True, "repo_pkg": "cmd/nokv-redis", "src": "overlay/redis",
        "kind": "E5: the real Redis gateway (redisServer.handleConn, RESP parser, dispatch, backends) compiled together with the harness into cmd/nokv-redis through go test -overlay, driven over net.Pipe connections inside a synctest bubble",
        "real": ["cmd/nokv-redis: redisServer.handleConn/execute/execSet, parseRESP/readLine/expectCRLF, reply writers",
                 "cmd/nokv-redis: main() option construction (captured by running main with a failing listener stub)"],
        "stub": ["net.Listener/TCP (connections are net.Pipe pairs handed to handleConn directly)",
                 "OS clock (synctest fake clock, starts 2000-01-01T00:00:00Z)"],
    },
}

E5_ASSUME = [
    "one gateway process, connections are in-memory pipes: TCP segmentation is modelled by explicit fragmentation of the client's writes",
    "a clean batch is evidence, not proof: bounds are small (<= 5 keys, <= a few hundred commands per run)",
]

PROPS_ADD = {
    "C29": {
        "engine": "redissim", "level": "exploration", "budget": {"quick": 12, "thorough": 600},
        "title": "Redis gateway commands follow Redis semantics",
        "technique": "deterministic simulation: seeded RESP command sequences (all listed commands, option combinations, int64 limits, non-integers, wrong arities, pipelining, inline form, clock advances) from one client against a reference Redis model",
        "rule": "case = seeded list of commands over <= 5 keys + fake-clock advances; every reply is compared with the model by kind and payload (error replies by kind, the two INCR-family texts exactly); time-sensitive commands are issued only >= 1 s away from a key's deadline; distinct = distinct event-trace hash; non-trivial = at least 8 compared replies and at least one write command",
        "level_text": "Seeded search over command sequences with a reference model as oracle. The property quantifies over all sequences, so it can only be sampled; small key spaces and values at the integer limits maximise the density of interesting states.",
        "note": "Trusted: the reference model in overlay/redis/model_test.go (written from the Redis documentation; syntax the documentation leaves open is not asserted). Embedded backend only; the raft-backed deployment is not exercised by this check.",
        "design_ref": "7/C29", "assumptions": E5_ASSUME,
        "real": ["embeddedBackend on a real NoKV.DB opened with main.go's options"],
    },
}

PROPS_ADD["C31"] = {
    "engine": "redissim", "level": "exploration", "budget": {"quick": 10, "thorough": 600},
    "title": "The RESP parser is total and allocation-bounded",
    "technique": "deterministic simulation: seeded byte streams (well-formed array/inline commands, malformed frames, huge and negative declared lengths, truncation) delivered over a pipe with seeded fragmentation, every 2-way split of short streams, pauses and mid-frame EOF, to handleConn (recording stub backend) or to a bare parseRESP loop",
    "rule": "case = seeded frame list + truncation + delivery plan + mode; per delivery: no panic, handler returns after end of stream, runtime.MemStats.TotalAlloc delta <= 64 x bytes delivered + 64 KiB, replies are well-formed RESP, every leading well-formed command is parsed into exactly the generator's arguments (bare parser: argument lists; handleConn: replies and recorded backend calls); distinct = distinct event-trace hash; non-trivial = the stream contains a malformed/oversized/truncated frame or was delivered in more than one piece",
    "level_text": "Seeded search over byte streams and fragmentations with a structural oracle. The property quantifies over all byte strings, so it is sampled; frames are built from the grammar's boundary cases rather than from uniform noise.",
    "note": "Trusted: the client-side RESP decoder of the harness and the TotalAlloc accounting (process-wide counter, read while every other goroutine of the bubble is quiescent). Declared lengths are capped at 2^28 (bulk) and 2^23 (array) so that unfixed code cannot exhaust the machine; raw frames keep longer digit runs only in spellings >= 2^63-1.",
    "design_ref": "7/C31", "assumptions": E5_ASSUME,
    "stub": ["redisBackend (recording stub: replies are a pure function of the arguments)"],
}

PROPS_ADD["C30"] = {
    "engine": "redissim", "level": "exploration", "budget": {"quick": 10, "thorough": 600},
    "title": "Concurrent Redis clients never lose updates",
    "technique": "deterministic simulation: 2-4 connections served by the real handleConn as scheduler tasks issue INCR/INCRBY/DECRBY and SET NX on shared keys; a seeded scheduler interleaves them at backend-call boundaries, at the verifhook yield sites inside the transaction path and, for the raft-backed variant, at every raftClient/TSO call",
    "rule": "case = per-connection command scripts + configuration (connections, counters, NX keys, backend) + scheduler choice tape; oracle: final GET of every counter = initial value + sum of the deltas of the commands that replied an integer, at most one SET NX per absent key replied OK; distinct = distinct event-trace hash (scheduler decisions included); non-trivial = backend calls of different connections alternated at least twice",
    "level_text": "Seeded search over interleavings of concurrent client commands. The property quantifies over all schedules; they are sampled at the granularity of the yield sites reachable in the tree, which is stated in the note.",
    "note": "Granularity: embedded backend - boundaries of each redisBackend call plus every verifhook.Yield site the handler goroutine reaches inside db.Update (watermark/oracle/commit sites as far as /repo has them; with no site between transaction begin and commit an embedded INCR is one atomic step for the scheduler and a lost update cannot be exhibited). Raft-backed variant - the real raftBackend runs over an ideal single-region snapshot-isolation store (harness model of percolator: locks, write conflicts) with a scheduling point at every raftClient/TSO call; it shows what the gateway's own read-then-write logic loses, not what a real cluster adds.",
    "design_ref": "7/C30", "assumptions": E5_ASSUME + ["yields taken while a goroutine holds the transaction oracle's mutex are passed through unless /repo announces the lock with verifhook.BeforeLock"],
    "real": ["embeddedBackend on a real NoKV.DB opened with main.go's options", "raftBackend (Get/Set/IncrBy/mutate/lock resolution)"],
    "stub": ["raftstore client + PD TSO (raft-backed variant): ideal single-region percolator store"],
}
