package main

// C30: concurrent Redis clients never lose updates.
//
// 2-4 connections, each served by the real handleConn running as a scheduler
// task; the client side of a connection is a closed loop (send one command,
// wait for its reply). Tasks are interleaved
//   - at the boundaries of every backend call (shim around redisBackend),
//   - at every verifhook.Yield site compiled into /repo that the handler's
//     goroutine reaches inside the call (transaction begin / oracle /
//     watermark / commit path, as far as such sites exist in the tree), and
//   - for the raft-backed variant at every call of the raftClient and
//     timestamp-allocator interfaces (the "RPC boundaries").

import (
	"fmt"
	"runtime"
	"sort"
	"strconv"
	"strings"
	"sync/atomic"
	"testing"
	"testing/synctest"
	"time"

	"github.com/feichai0017/NoKV/verifhook"

	"verif/sim"
)

func init() {
	vsProps["C30"] = sim.PropSpec{Gen: vsGenC30, Exec: vsExecC30}
}

// ---------------------------------------------------------------------------
// Generator
// ---------------------------------------------------------------------------

func vsGenC30(r *sim.Rand, tier string) *sim.Case {
	c := &sim.Case{Cfg: map[string]int64{}}
	conns := r.Pick(2, 2, 3, 4, 4, 5)
	counters := r.Pick(1, 1, 2, 2, 3)
	nx := r.Pick(0, 1, 1, 2)
	c.Cfg["conns"] = int64(conns)
	c.Cfg["counters"] = int64(counters)
	c.Cfg["nxkeys"] = int64(nx)
	c.Cfg["backend"] = int64(r.Pick(0, 0, 1)) // 0 embedded (NoKV.DB), 1 raftBackend over a model store
	// retry budget of the embedded backend's read-modify-write commands: the shipped 64 is
	// out of reach for a handful of connections; 1-3 makes "every attempt lost its race"
	// (an error reply, which must not count as an increment) an ordinary event
	c.Cfg["txn_retries"] = r.Pick64(0, 0, 1, 2, 3)
	// scheduling policy: uniform, or PCT (a connection can stay paused across several
	// complete transactions of the others) with pauses biased to the oracle sites
	c.Cfg["pct_depth"] = r.Pick64(0, 0, 1, 2, 3)
	c.Cfg["pct_horizon"] = r.Pick64(100, 300, 600, 1200)
	c.Cfg["pause_odds"] = r.Pick64(0, 4, 8)
	c.Cfg["pause_budget"] = r.Pick64(0, 1, 1, 2, 3)
	for k := 0; k < counters; k++ {
		// initial value: absent (-1 code) or an integer
		c.Cfg[fmt.Sprintf("init%d", k)] = r.Pick64(-1, 0, 10, 1000, -50)
	}
	per := 1 + r.Intn(4)
	if tier == "thorough" {
		per = 1 + r.Intn(8)
	}
	// straggler shape (1 in 3): connection 0 issues a single command while the others
	// run several complete read-modify-write transactions around it
	straggler := r.Intn(3) == 0
	if straggler {
		per = 3 + r.Intn(4)
		// one long preemption of connection 0: right after its transaction got its
		// snapshot (hold_site 1), or at its n-th scheduling point whatever it is (2)
		c.Cfg["hold_site"] = r.Pick64(1, 1, 2)
		c.Cfg["hold_nth"] = 1
		if c.Cfg["hold_site"] == 2 {
			c.Cfg["hold_nth"] = int64(1 + r.Intn(60))
		}
	}
	stragglerDone := false
	for i := 0; i < conns*per; i++ {
		conn := int64(i % conns)
		if straggler && conn == 0 {
			if stragglerDone {
				continue
			}
			stragglerDone = true
		}
		if nx > 0 && r.Intn(4) == 0 {
			c.Ops = append(c.Ops, sim.Op{K: "setnx", A: conn, B: int64(r.Intn(nx)), C: int64(i)})
			continue
		}
		switch r.Intn(4) {
		case 0, 1:
			c.Ops = append(c.Ops, sim.Op{K: "incr", A: conn, B: int64(r.Intn(counters))})
		case 2:
			c.Ops = append(c.Ops, sim.Op{K: "incrby", A: conn, B: int64(r.Intn(counters)), C: r.Pick64(1, 2, 5, 10, 100, -3)})
		default:
			c.Ops = append(c.Ops, sim.Op{K: "decrby", A: conn, B: int64(r.Intn(counters)), C: r.Pick64(1, 2, 7, 50)})
		}
	}
	return c
}

// ---------------------------------------------------------------------------
// Backend shim: a scheduling point before and after every backend call
// ---------------------------------------------------------------------------

type vsShim struct {
	inner  redisBackend
	x      *vsC30
	active bool
}

func (s *vsShim) enter(m string) {
	if !s.active {
		return
	}
	x := s.x
	x.sched.Yield(nil, "be."+m+".pre")
	if x.inflight.Add(1) > 1 {
		x.nOverlap.Add(1)
	}
	name := x.taskName()
	if x.lastCaller != "" && x.lastCaller != name {
		x.switches++
	}
	x.lastCaller = name
}

func (s *vsShim) leave(m string) {
	if !s.active {
		return
	}
	s.x.inflight.Add(-1)
	s.x.sched.Yield(nil, "be."+m+".post")
}

func (s *vsShim) Get(key []byte) (*redisValue, error) {
	s.enter("Get")
	defer s.leave("Get")
	return s.inner.Get(key)
}
func (s *vsShim) Set(a setArgs) (bool, error) {
	s.enter("Set")
	defer s.leave("Set")
	return s.inner.Set(a)
}
func (s *vsShim) Del(keys [][]byte) (int64, error) {
	s.enter("Del")
	defer s.leave("Del")
	return s.inner.Del(keys)
}
func (s *vsShim) MGet(keys [][]byte) ([]*redisValue, error) {
	s.enter("MGet")
	defer s.leave("MGet")
	return s.inner.MGet(keys)
}
func (s *vsShim) MSet(pairs [][2][]byte) error {
	s.enter("MSet")
	defer s.leave("MSet")
	return s.inner.MSet(pairs)
}
func (s *vsShim) Exists(keys [][]byte) (int64, error) {
	s.enter("Exists")
	defer s.leave("Exists")
	return s.inner.Exists(keys)
}
func (s *vsShim) IncrBy(key []byte, delta int64) (int64, error) {
	s.enter("IncrBy")
	defer s.leave("IncrBy")
	return s.inner.IncrBy(key, delta)
}
func (s *vsShim) Close() error { return s.inner.Close() }

// ---------------------------------------------------------------------------
// Executor
// ---------------------------------------------------------------------------

type vsC30Cmd struct {
	op    sim.Op
	step  int
	args  [][]byte
	reply vsReply
	done  bool
}

type vsC30 struct {
	c     *sim.Case
	res   *sim.Result
	sched *sim.Sched
	// bookkeeping written only by the one causally active chain of goroutines
	inflight   atomic.Int64
	switches   int
	lastCaller string
	tasks      map[uint64]string // goroutine id -> connection name
	// oracleLockSafe: a BeforeLock hook precedes oracle.Lock() in this tree, so a
	// task may park while holding the oracle mutex (others spin in BeforeLock).
	oracleLockSafe atomic.Bool
	// counters bumped from SUT goroutines (copied into res.Probes at the end)
	nSiteReached, nSkippedUnderLock, nOverlap atomic.Int64
}

func vsGID() uint64 {
	var buf [64]byte
	n := runtime.Stack(buf[:], false)
	var id uint64
	for i := len("goroutine "); i < n; i++ {
		ch := buf[i]
		if ch < '0' || ch > '9' {
			break
		}
		id = id*10 + uint64(ch-'0')
	}
	return id
}

func (x *vsC30) taskName() string {
	if n, ok := x.tasks[vsGID()]; ok {
		return n
	}
	return "?"
}

// vsUnderOracleLock reports whether the calling goroutine is inside
// oracle.newCommitTs, i.e. holds the transaction oracle's mutex.
func vsUnderOracleLock() bool {
	var pcs [48]uintptr
	n := runtime.Callers(3, pcs[:])
	frames := runtime.CallersFrames(pcs[:n])
	for {
		f, more := frames.Next()
		if strings.HasSuffix(f.Function, "(*oracle).newCommitTs") || strings.HasSuffix(f.Function, "(*oracle).initCommitState") {
			return true
		}
		if !more {
			return false
		}
	}
}

// installHooks routes the SUT's yield sites to the scheduler. A yield reached
// while the goroutine holds the oracle mutex is passed through unless the tree
// announces (by a BeforeLock call on the oracle) that contenders park instead
// of blocking on that mutex: a goroutine blocked on a sync.Mutex is not
// durably blocked and synctest.Wait would never return.
func (x *vsC30) installHooks() {
	verifhook.BeforeLockFn = func(l verifhook.TryLocker) {
		if !x.oracleLockSafe.Load() && strings.HasSuffix(fmt.Sprintf("%T", l), ".oracle") {
			x.oracleLockSafe.Store(true)
		}
		x.sched.BeforeLock(l)
	}
	verifhook.YieldFn = func(owner any, site string) {
		if !vsC30Site(site) {
			return
		}
		if !x.oracleLockSafe.Load() && vsUnderOracleLock() {
			x.nSkippedUnderLock.Add(1)
			return
		}
		x.nSiteReached.Add(1)
		x.sched.Yield(owner, site)
	}
}

// vsC30Site selects the yield sites of /repo that take part in C30's schedules:
// the transaction, oracle, watermark and commit path. Sites inside the
// memtable index, LSM, value log or WAL stay pass-through: they do not decide
// which transaction sees which value, and some of them (skiplist tower heights
// drawn from the runtime's per-process random source) fire a different number
// of times in every process, which would make a schedule unreplayable.
func vsC30Site(site string) bool {
	for _, p := range []string{"wm.", "txn.", "oracle.", "orc.", "db.", "commit.", "write."} {
		if strings.HasPrefix(site, p) {
			return true
		}
	}
	return false
}

func vsCounterKey(i int) []byte { return []byte("ctr:" + strconv.Itoa(i)) }
func vsNXKey(i int) []byte      { return []byte("nx:" + strconv.Itoa(i)) }

func vsExecC30(t *testing.T, c *sim.Case) *sim.Result {
	res := sim.NewResult()
	vsOptOnce.Do(vsCaptureMainOptions)
	conns := int(c.CfgInt("conns", 2))
	if conns < 1 {
		conns = 1
	}
	if conns > 8 {
		conns = 8
	}
	counters := int(c.CfgInt("counters", 1))
	if counters < 1 {
		counters = 1
	}
	nxkeys := int(c.CfgInt("nxkeys", 0))
	raft := c.CfgInt("backend", 0) == 1
	backendName := "embedded"
	if raft {
		backendName = "raft"
	}
	// Tasks that wait inside the SUT for the same event (two transactions waiting
	// in WaitForMark for a commit that is in its coalescing window) are woken
	// together and would then run in parallel, racing for the oracle mutex; no
	// yield site lies between the wake-up and that lock. On one P they run one
	// after the other in the order the runtime readied them.
	prevProcs := runtime.GOMAXPROCS(1)
	defer runtime.GOMAXPROCS(prevProcs)
	synctest.Test(t, func(t *testing.T) {
		x := &vsC30{c: c, res: res, tasks: map[uint64]string{}}
		shim := &vsShim{x: x}
		var w *vsWorld
		var store *vsSIStore
		if raft {
			store = vsNewSIStore(x)
			shim.inner = &raftBackend{client: store, ts: store}
			w = &vsWorld{c: c, res: res, srv: newServer(shim)}
		} else {
			var err error
			w, err = vsOpenWorld(c, res, func(be redisBackend) redisBackend { shim.inner = be; return shim })
			if err != nil {
				res.Violate(0, "open_failed", nil, "%v", err)
				return
			}
		}
		defer func() {
			if w.db != nil {
				w.close()
			}
		}()
		// --- setup (no scheduling yet): initial counter values
		setup := vsNewConn()
		go setup.serve(w.srv)
		for k := 0; k < counters; k++ {
			if v := c.CfgInt(fmt.Sprintf("init%d", k), -1); v != -1 {
				_, _ = setup.cli.Write(vsEncode([][]byte{[]byte("SET"), vsCounterKey(k), []byte(strconv.FormatInt(v, 10))}))
				if rep := vsRecv(setup); rep.Kind != '+' {
					res.Violate(0, "setup_failed", nil, "SET of the initial value replied %s", rep)
					return
				}
			}
		}
		_ = setup.cli.Close()
		synctest.Wait()

		// --- scripts
		scripts := make([][]*vsC30Cmd, conns)
		for i, op := range c.Ops {
			ci := int(op.A % int64(conns))
			if ci < 0 {
				ci = -ci
			}
			cmd := &vsC30Cmd{op: op, step: i}
			switch op.K {
			case "incr":
				cmd.args = [][]byte{[]byte("INCR"), vsCounterKey(int(op.B) % counters)}
			case "incrby":
				cmd.args = [][]byte{[]byte("INCRBY"), vsCounterKey(int(op.B) % counters), []byte(strconv.FormatInt(op.C%1_000_000, 10))}
			case "decrby":
				cmd.args = [][]byte{[]byte("DECRBY"), vsCounterKey(int(op.B) % counters), []byte(strconv.FormatInt(op.C%1_000_000, 10))}
			case "setnx":
				if nxkeys <= 0 {
					continue
				}
				cmd.args = [][]byte{[]byte("SET"), vsNXKey(int(op.B) % nxkeys), []byte(fmt.Sprintf("c%d-s%d", ci, i)), []byte("NX")}
			default:
				continue
			}
			scripts[ci] = append(scripts[ci], cmd)
		}

		// --- scheduler and tasks
		x.sched = sim.NewSched(sim.NewRand(c.Seed, c.Run, 1), c.Sched, res.Trace)
		if d := int(c.CfgInt("pct_depth", 0)); d > 0 {
			x.sched.UsePCT(d, int(c.CfgInt("pct_horizon", 300)))
			if odds := int(c.CfgInt("pause_odds", 0)); odds > 0 {
				x.sched.PauseOdds = odds
				x.sched.PauseBudget = int(c.CfgInt("pause_budget", 0))
				x.sched.PauseAt = map[string]bool{}
				for _, site := range []string{"wm.begin.published", "wm.add.added", "orc.readts.waited", "txn.commit.written", "orc.donecommit",
					"be.IncrBy.pre", "be.Set.pre", "be.Get.post", "lock.pre"} {
					x.sched.PauseAt[site] = true
				}
			}
		}
		if hs := c.CfgInt("hold_site", 0); hs > 0 {
			x.sched.HoldTask, x.sched.HoldNth, x.sched.HoldFirst = "conn0", int(c.CfgInt("hold_nth", 1)), true
			if hs == 1 {
				x.sched.HoldSite = "orc.readts.waited"
			}
		}
		x.installHooks()
		shim.active = true
		if store != nil {
			store.active = true
		}
		vcs := make([]*vsConn, conns)
		for i := 0; i < conns; i++ {
			i := i
			vc := vsNewConn()
			vcs[i] = vc
			name := fmt.Sprintf("conn%d", i)
			x.sched.Go(name, func() {
				x.tasks[vsGID()] = name
				vc.serve(w.srv)
			})
			go func() { // the client: closed loop, one command in flight
				for _, cmd := range scripts[i] {
					if _, err := vc.cli.Write(vsEncode(cmd.args)); err != nil {
						break
					}
					cmd.reply = <-vc.replies
					cmd.done = true
					res.Trace.Add("%s %s -> %s", name, vsPackArgs(cmd.args), cmd.reply)
					if cmd.reply.Kind == 'X' || cmd.reply.Kind == '?' {
						break
					}
				}
				_ = vc.cli.Close()
			}()
		}
		synctest.Wait()
		allDone := func() bool {
			for _, vc := range vcs {
				if !vc.handlerDone() {
					return false
				}
			}
			return true
		}
		idle, stuck := 0, false
		for steps := 0; !allDone(); steps++ {
			sim.Beat()
			if steps > 200000 {
				stuck = true
				break
			}
			if x.sched.StepAny() {
				idle = 0
				res.Steps++
				continue
			}
			// Nobody is parked: somebody waits for a timer of the engine (commit
			// coalescing window) - let the fake clock move.
			idle++
			if idle > 5000 {
				stuck = true
				break
			}
			time.Sleep(time.Millisecond)
			synctest.Wait()
			res.SimTime += time.Millisecond
			res.Faults["clock_advance_while_all_blocked"]++
		}
		res.Sched = x.sched.Recorded
		x.sched.Passthrough()
		shim.active = false
		if store != nil {
			store.active = false
		}
		verifhook.YieldFn, verifhook.BeforeLockFn = nil, nil
		if stuck {
			// Not what C30 states (C37 does): recorded, nothing asserted for this run.
			res.Probes["no_progress"]++
			res.Trace.Add("no progress")
			time.Sleep(11 * time.Minute) // idle deadlines end the handlers
			synctest.Wait()
			return
		}
		for _, vc := range vcs {
			if vc.panicVal != nil {
				res.Violate(len(c.Ops), "handler_panic", map[string]string{"backend": backendName}, "handleConn panicked: %v", vc.panicVal)
			}
		}

		// --- oracle
		fin := vsNewConn()
		go fin.serve(w.srv)
		defer func() { _ = fin.cli.Close(); synctest.Wait() }()
		get := func(key []byte) vsReply {
			_, _ = fin.cli.Write(vsEncode([][]byte{[]byte("GET"), key}))
			return vsRecv(fin)
		}
		for k := 0; k < counters; k++ {
			key := vsCounterKey(k)
			sum := c.CfgInt(fmt.Sprintf("init%d", k), -1)
			if sum == -1 {
				sum = 0
			}
			applied, failed := 0, 0
			var story []string
			for ci := range scripts {
				for _, cmd := range scripts[ci] {
					if string(cmd.args[1]) != string(key) || cmd.op.K == "setnx" {
						continue
					}
					if !cmd.done || cmd.reply.Kind != ':' {
						failed++
						story = append(story, fmt.Sprintf("conn%d %s -> %s (not counted)", ci, vsPackArgs(cmd.args), cmd.reply))
						continue
					}
					applied++
					d := int64(1)
					if len(cmd.args) == 3 {
						d, _ = strconv.ParseInt(string(cmd.args[2]), 10, 64)
					}
					if cmd.op.K == "decrby" {
						d = -d
					}
					sum += d
					story = append(story, fmt.Sprintf("conn%d %s -> %s", ci, vsPackArgs(cmd.args), cmd.reply))
				}
			}
			if failed > 0 {
				res.Probes["command_replied_error"] += failed
			}
			rep := get(key)
			res.Checks++
			res.Trace.Add("final GET %s -> %s (expected %d)", key, rep, sum)
			want := strconv.FormatInt(sum, 10)
			absentOK := applied == 0 && c.CfgInt(fmt.Sprintf("init%d", k), -1) == -1
			if (rep.Kind == '$' && rep.Str == want) || (absentOK && rep.Kind == '_') {
				continue
			}
			res.Violate(len(c.Ops), "lost_update", map[string]string{"backend": backendName},
				"counter %s: final GET = %s, but initial value + deltas of the %d commands that replied an integer = %d; replies: %s",
				key, rep, applied, sum, strings.Join(story, "; "))
		}
		for k := 0; k < nxkeys; k++ {
			key := vsNXKey(k)
			var winners []string
			for ci := range scripts {
				for _, cmd := range scripts[ci] {
					if cmd.op.K == "setnx" && string(cmd.args[1]) == string(key) && cmd.done && cmd.reply.Kind == '+' && cmd.reply.Str == "OK" {
						winners = append(winners, fmt.Sprintf("conn%d %s", ci, vsPackArgs(cmd.args)))
					}
				}
			}
			res.Checks++
			if len(winners) > 1 {
				sort.Strings(winners)
				res.Violate(len(c.Ops), "nx_double_ok", map[string]string{"backend": backendName},
					"%d SET NX commands on the absent key %s replied OK: %s (final GET %s)", len(winners), key, strings.Join(winners, "; "), get(key))
			}
		}
		res.Faults["run_"+backendName]++
		if n := int(x.nOverlap.Load()); n > 0 {
			res.Faults["backend_calls_overlapped"] += n
		}
		res.Probes["caller_switches"] += x.switches
		res.Probes["overlapping_backend_calls"] += int(x.nOverlap.Load())
		res.Probes["sut_yield_site_reached"] += int(x.nSiteReached.Load())
		res.Probes["sut_yield_skipped_under_oracle_lock"] += int(x.nSkippedUnderLock.Load())
		res.Nontrivial = x.switches >= 2
	})
	return res
}
