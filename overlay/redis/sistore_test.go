package main

// vsSIStore is an ideal single-region percolator store behind the gateway's
// raftClient and timestampAllocator interfaces (C30, raft-backed variant): a
// multi-version map with snapshot reads, prewrite locks and write-conflict
// detection, i.e. what a correct raftstore cluster provides. Every interface
// call is a scheduling point ("RPC boundary"); a Mutate is two calls' worth
// (prewrite, then commit). Whatever is lost on top of this store is lost by
// the gateway's own logic in backend_raft.go.

import (
	"context"
	"sort"

	"github.com/feichai0017/NoKV/pb"
	"github.com/feichai0017/NoKV/raftstore/client"
)

type vsVersion struct {
	start, commit uint64
	val           []byte
	del           bool
}

type vsLockRec struct {
	start   uint64
	primary []byte
	op      pb.Mutation_Op
	val     []byte
	ttl     uint64
}

type vsSIStore struct {
	x      *vsC30
	active bool
	ts     uint64
	data   map[string][]vsVersion
	locks  map[string]*vsLockRec
}

func vsNewSIStore(x *vsC30) *vsSIStore {
	return &vsSIStore{x: x, data: map[string][]vsVersion{}, locks: map[string]*vsLockRec{}}
}

func (s *vsSIStore) yield(site string) {
	if s.active {
		s.x.sched.Yield(nil, site)
	}
}

func (s *vsSIStore) probe(name string) {
	if s.x != nil {
		s.x.res.Probes[name]++
	}
}

// Reserve hands out n consecutive timestamps and returns the first (PD TSO).
func (s *vsSIStore) Reserve(n uint64) (uint64, error) {
	s.yield("rpc.Tso")
	first := s.ts + 1
	s.ts += n
	return first, nil
}

func (s *vsSIStore) lockedErr(key string, l *vsLockRec) *pb.KeyError {
	return &pb.KeyError{Locked: &pb.Locked{
		PrimaryLock: append([]byte(nil), l.primary...), Key: []byte(key),
		LockVersion: l.start, LockTtl: l.ttl, LockType: l.op,
	}}
}

func (s *vsSIStore) BatchGet(ctx context.Context, keys [][]byte, version uint64) (map[string]*pb.GetResponse, error) {
	s.yield("rpc.BatchGet")
	var errs []*pb.KeyError
	for _, k := range keys {
		if l := s.locks[string(k)]; l != nil && l.start <= version {
			errs = append(errs, s.lockedErr(string(k), l))
		}
	}
	if len(errs) > 0 {
		s.probe("rpc_read_met_lock")
		return nil, &client.KeyConflictError{Errors: errs}
	}
	out := make(map[string]*pb.GetResponse, len(keys))
	for _, k := range keys {
		resp := &pb.GetResponse{NotFound: true}
		var best *vsVersion
		vs := s.data[string(k)]
		for i := range vs {
			if vs[i].commit <= version && (best == nil || vs[i].commit > best.commit) {
				best = &vs[i]
			}
		}
		if best != nil && !best.del {
			resp = &pb.GetResponse{Value: append([]byte(nil), best.val...)}
		}
		out[string(k)] = resp
	}
	return out, nil
}

func (s *vsSIStore) Mutate(ctx context.Context, primary []byte, mutations []*pb.Mutation, startVersion, commitVersion, lockTTL uint64) error {
	s.yield("rpc.Prewrite")
	var errs []*pb.KeyError
	for _, m := range mutations {
		k := string(m.GetKey())
		if l := s.locks[k]; l != nil && l.start != startVersion {
			errs = append(errs, s.lockedErr(k, l))
			continue
		}
		for _, v := range s.data[k] {
			if v.commit >= startVersion {
				errs = append(errs, &pb.KeyError{WriteConflict: &pb.WriteConflict{
					Key: []byte(k), Primary: append([]byte(nil), primary...),
					ConflictTs: v.start, CommitTs: v.commit, StartTs: startVersion,
				}})
				break
			}
		}
	}
	if len(errs) > 0 {
		s.probe("rpc_prewrite_conflict")
		return &client.KeyConflictError{Errors: errs}
	}
	keys := make([]string, 0, len(mutations))
	for _, m := range mutations {
		k := string(m.GetKey())
		s.locks[k] = &vsLockRec{start: startVersion, primary: append([]byte(nil), primary...), op: m.GetOp(),
			val: append([]byte(nil), m.GetValue()...), ttl: lockTTL}
		keys = append(keys, k)
	}
	s.yield("rpc.Commit")
	sort.Strings(keys)
	for _, k := range keys {
		s.commitKey(k, startVersion, commitVersion)
	}
	return nil
}

func (s *vsSIStore) commitKey(k string, start, commit uint64) bool {
	l := s.locks[k]
	if l == nil || l.start != start {
		return false
	}
	delete(s.locks, k)
	if commit > 0 {
		s.data[k] = append(s.data[k], vsVersion{start: start, commit: commit, val: l.val, del: l.op == pb.Mutation_Delete})
	}
	return true
}

func (s *vsSIStore) CheckTxnStatus(ctx context.Context, primary []byte, lockVersion, currentTS uint64) (*pb.CheckTxnStatusResponse, error) {
	s.yield("rpc.CheckTxnStatus")
	if l := s.locks[string(primary)]; l != nil && l.start == lockVersion {
		// The owner is alive (it is merely parked between prewrite and commit).
		return &pb.CheckTxnStatusResponse{Action: pb.CheckTxnStatusAction_CheckTxnStatusNoAction, LockTtl: l.ttl}, nil
	}
	for _, v := range s.data[string(primary)] {
		if v.start == lockVersion {
			return &pb.CheckTxnStatusResponse{CommitVersion: v.commit}, nil
		}
	}
	return &pb.CheckTxnStatusResponse{Action: pb.CheckTxnStatusAction_CheckTxnStatusLockNotExistRollback}, nil
}

func (s *vsSIStore) ResolveLocks(ctx context.Context, startVersion, commitVersion uint64, keys [][]byte) (uint64, error) {
	s.yield("rpc.ResolveLock")
	var n uint64
	for _, k := range keys {
		if s.commitKey(string(k), startVersion, commitVersion) {
			n++
		}
	}
	return n, nil
}

func (s *vsSIStore) Close() error { return nil }
