package main

// C29: Redis gateway commands follow Redis semantics (single client).

import (
	"sort"
	"strconv"
	"strings"
	"testing"
	"testing/synctest"
	"time"

	"verif/sim"
)

func init() {
	vsProps["C29"] = sim.PropSpec{Gen: vsGenC29, Exec: vsExecC29}
}

// ---------------------------------------------------------------------------
// Generator
// ---------------------------------------------------------------------------

var vsKeyPool = []string{"k0", "k1", "K0", "user:1:visits", "a b", "\x00\xffbin", "k\r\nx", "k2"}

var vsIntPool = []string{
	"0", "1", "-1", "7", "10", "-10", "42", "100",
	"9223372036854775807", "9223372036854775806", "-9223372036854775808", "-9223372036854775807",
	"4611686018427387904", "-4611686018427387904",
}

var vsNonIntPool = []string{
	"abc", "1.5", "12abc", "1e3", "0x10", "9223372036854775808", "-9223372036854775809",
	"99999999999999999999", "1 2", " 1", "1 ", "--1", "",
}

func vsMixCase(r *sim.Rand, s string) string {
	switch r.Intn(4) {
	case 0:
		return strings.ToLower(s)
	case 1:
		b := []byte(strings.ToLower(s))
		for i := range b {
			if r.Intn(2) == 0 && b[i] >= 'a' && b[i] <= 'z' {
				b[i] -= 32
			}
		}
		return string(b)
	}
	return s
}

func vsGenValue(r *sim.Rand) []byte {
	switch x := r.Intn(100); {
	case x < 45:
		return []byte(vsIntPool[r.Intn(len(vsIntPool))])
	case x < 55:
		return []byte(vsNonIntPool[r.Intn(len(vsNonIntPool))])
	case x < 80:
		return []byte([]string{"v", "hello", "hello world", "value-" + strconv.Itoa(r.Intn(100)), "OK", "nil", "$-1", "*0"}[r.Intn(8)])
	case x < 86:
		return []byte([]string{"", " ", "\r\n", "a\r\nb", "\x00", "\x00\x01\xfe\xff", "+OK\r\n", "\xc2\xa0"}[r.Intn(8)])
	case x < 96:
		return vsRepeat([]string{"x", "ab", "z9"}[r.Intn(3)], r.Pick(63, 64, 1023, 1024, 1025, 2048, 4096, 4097))
	default:
		return vsRepeat("big", r.Pick(5000, 9000, 20000))
	}
}

type vsGenState struct {
	r     *sim.Rand
	keys  []string
	nowMs int64 // generator's estimate of the fake clock (unix ms)
}

func (g *vsGenState) key() []byte { return []byte(g.keys[g.r.Intn(len(g.keys))]) }

func (g *vsGenState) keysN(max int) [][]byte {
	n := 1 + g.r.Intn(max)
	out := make([][]byte, n)
	for i := range out {
		out[i] = g.key()
	}
	return out
}

func (g *vsGenState) name(s string) []byte { return []byte(vsMixCase(g.r, s)) }

func (g *vsGenState) expiry() [][]byte {
	r := g.r
	switch r.Intn(4) {
	case 0:
		return [][]byte{g.name("EX"), []byte(strconv.FormatInt(r.Pick64(1, 1, 2, 3, 5, 10, 60, 3600, 1_000_000_000), 10))}
	case 1:
		return [][]byte{g.name("PX"), []byte(strconv.FormatInt(r.Pick64(1, 10, 500, 999, 1000, 1001, 1500, 2500, 10_000, 100_000, 86_400_000), 10))}
	case 2:
		at := g.nowMs/1000 + r.Pick64(-100, -1, 0, 1, 2, 3, 5, 30, 1000)
		return [][]byte{g.name("EXAT"), []byte(strconv.FormatInt(at, 10))}
	default:
		at := g.nowMs + r.Pick64(-100_000, -1, 0, 1, 999, 1000, 1500, 2001, 5000, 60_000)
		return [][]byte{g.name("PXAT"), []byte(strconv.FormatInt(at, 10))}
	}
}

func (g *vsGenState) set() [][]byte {
	r := g.r
	args := [][]byte{g.name("SET"), g.key(), vsGenValue(r)}
	var opts [][][]byte
	switch x := r.Intn(100); {
	case x < 35:
	case x < 47:
		opts = append(opts, [][]byte{g.name("NX")})
	case x < 59:
		opts = append(opts, [][]byte{g.name("XX")})
	case x < 79:
		opts = append(opts, g.expiry())
	case x < 86:
		opts = append(opts, [][]byte{g.name("NX")}, g.expiry())
	case x < 92:
		opts = append(opts, [][]byte{g.name("XX")}, g.expiry())
	default:
		// invalid combinations and arguments
		switch r.Intn(9) {
		case 0:
			opts = append(opts, [][]byte{g.name("NX")}, [][]byte{g.name("XX")})
		case 1:
			a, b := g.expiry(), g.expiry()
			if strings.EqualFold(string(a[0]), string(b[0])) {
				b = [][]byte{g.name("NX")}
			}
			opts = append(opts, a, b)
		case 2:
			opts = append(opts, [][]byte{g.name([]string{"EX", "PX", "EXAT", "PXAT"}[r.Intn(4)])})
		case 3:
			opts = append(opts, [][]byte{g.name("EX"), []byte([]string{"abc", "1.5", "", "ten"}[r.Intn(4)])})
		case 4:
			opts = append(opts, [][]byte{g.name([]string{"EX", "PX", "EXAT", "PXAT"}[r.Intn(4)]), []byte([]string{"0", "-1", "-100"}[r.Intn(3)])})
		case 5:
			opts = append(opts, [][]byte{[]byte([]string{"FOO", "N", "NXX", "EXX", "10"}[r.Intn(5)])})
		case 6:
			opts = append(opts, [][]byte{g.name("NX")}, [][]byte{g.name("NX")})
		case 7:
			opts = append(opts, g.expiry(), [][]byte{g.name("XX")}, [][]byte{g.name("NX")})
		default:
			opts = append(opts, [][]byte{g.name("XX")}, [][]byte{[]byte("bogus")}, g.expiry())
		}
	}
	for _, i := range r.Perm(len(opts)) {
		args = append(args, opts[i]...)
	}
	return args
}

func (g *vsGenState) delta() []byte {
	r := g.r
	switch x := r.Intn(100); {
	case x < 50:
		return []byte([]string{"0", "1", "-1", "2", "5", "10", "-10", "100"}[r.Intn(8)])
	case x < 88:
		return []byte(vsIntPool[r.Intn(len(vsIntPool))])
	default:
		return []byte(vsNonIntPool[r.Intn(len(vsNonIntPool))])
	}
}

func (g *vsGenState) wrongArity() [][]byte {
	r := g.r
	switch r.Intn(14) {
	case 0:
		return [][]byte{g.name("GET")}
	case 1:
		return [][]byte{g.name("GET"), g.key(), g.key()}
	case 2:
		return [][]byte{g.name("SET"), g.key()}
	case 3:
		return [][]byte{g.name("DEL")}
	case 4:
		return [][]byte{g.name("MGET")}
	case 5:
		return [][]byte{g.name("MSET"), g.key()}
	case 6:
		return [][]byte{g.name("MSET"), g.key(), vsGenValue(r), g.key()}
	case 7:
		return [][]byte{g.name("EXISTS")}
	case 8:
		return [][]byte{g.name("INCR")}
	case 9:
		return [][]byte{g.name("INCR"), g.key(), []byte("1")}
	case 10:
		return [][]byte{g.name("DECR"), g.key(), g.key()}
	case 11:
		return [][]byte{g.name([]string{"INCRBY", "DECRBY"}[r.Intn(2)]), g.key()}
	case 12:
		return [][]byte{g.name("ECHO")}
	default:
		return [][]byte{g.name("PING"), []byte("a"), []byte("b")}
	}
}

func (g *vsGenState) command() [][]byte {
	r := g.r
	switch x := r.Intn(100); {
	case x < 14:
		return [][]byte{g.name("GET"), g.key()}
	case x < 36:
		return g.set()
	case x < 42:
		return append([][]byte{g.name("DEL")}, g.keysN(3)...)
	case x < 48:
		return append([][]byte{g.name("MGET")}, g.keysN(4)...)
	case x < 54:
		args := [][]byte{g.name("MSET")}
		for i, n := 0, 1+r.Intn(3); i < n; i++ {
			args = append(args, g.key(), vsGenValue(r))
		}
		return args
	case x < 59:
		return append([][]byte{g.name("EXISTS")}, g.keysN(4)...)
	case x < 67:
		return [][]byte{g.name("INCR"), g.key()}
	case x < 73:
		return [][]byte{g.name("DECR"), g.key()}
	case x < 82:
		return [][]byte{g.name("INCRBY"), g.key(), g.delta()}
	case x < 91:
		return [][]byte{g.name("DECRBY"), g.key(), g.delta()}
	case x < 93:
		if r.Intn(2) == 0 {
			return [][]byte{g.name("PING")}
		}
		return [][]byte{g.name("PING"), vsGenValue(r)}
	case x < 95:
		return [][]byte{g.name("ECHO"), vsGenValue(r)}
	case x < 96:
		return [][]byte{g.name("QUIT")}
	case x < 99:
		return g.wrongArity()
	default:
		return [][]byte{[]byte([]string{"FLUSHALL", "HGET", "get2", "APPEND", "TTL"}[r.Intn(5)]), g.key()}
	}
}

func vsGenC29(r *sim.Rand, tier string) *sim.Case {
	c := &sim.Case{Cfg: map[string]int64{}}
	g := &vsGenState{r: r, nowMs: 946684800000}
	nkeys := r.Pick(1, 2, 3, 3, 5)
	for _, i := range r.Perm(len(vsKeyPool))[:nkeys] {
		g.keys = append(g.keys, vsKeyPool[i])
	}
	c.Cfg["keys"] = int64(nkeys)
	// 0 = embedded backend on a real NoKV.DB, 1 = raftBackend over the ideal
	// single-region store of sistore_test.go (no database).
	c.Cfg["backend"] = int64(r.Pick(0, 0, 0, 1))
	// Opening the database dominates the cost of a run (NoKV zeroes a 128 MiB
	// arena per memtable whatever the options say), so sequences are long.
	n := 30 + r.Intn(170)
	if tier == "thorough" {
		n = 30 + r.Intn(470)
	}
	shape := r.Intn(40)
	c.Cfg["shape"] = 0
	if shape == 1 || shape == 2 {
		c.Cfg["shape"] = 2
	}
	if shape == 0 {
		// One hot key written a few hundred times in a row (a counter, a rate
		// limiter): the most common way a Redis server is actually used.
		c.Cfg["shape"] = 1
		g.keys = g.keys[:1]
		n = 140 + r.Intn(200)
	}
	advPct := r.Pick(3, 8, 15)
	pipePct := r.Pick(0, 0, 20, 50)
	for i := 0; i < n; i++ {
		if c.Cfg["shape"] == 1 {
			var args [][]byte
			switch r.Intn(10) {
			case 0:
				args = [][]byte{g.name("GET"), g.key()}
			case 1:
				args = [][]byte{g.name("SET"), g.key(), []byte(strconv.Itoa(r.Intn(1000)))}
			case 2:
				args = [][]byte{g.name("INCRBY"), g.key(), []byte(strconv.Itoa(r.Intn(9) + 1))}
			default:
				args = [][]byte{g.name("INCR"), g.key()}
			}
			c.Ops = append(c.Ops, sim.Op{K: "cmd", S: vsPackArgs(args)})
			continue
		}
		if r.Intn(100) < advPct {
			ms := r.Pick64(1, 200, 999, 1000, 1001, 1500, 2000, 3000, 5000, 10_000, 61_000, 3_600_000)
			g.nowMs += ms
			c.Ops = append(c.Ops, sim.Op{K: "adv", A: ms})
			continue
		}
		if (shape == 1 || shape == 2) && r.Intn(30) == 0 {
			// A wide multi-key command (many arguments over the same few keys).
			wide := 40 + r.Intn(80)
			var args [][]byte
			switch r.Intn(4) {
			case 0:
				args = [][]byte{g.name("MSET")}
				for j := 0; j < wide; j++ {
					args = append(args, g.key(), []byte(strconv.Itoa(j)))
				}
			case 1:
				args = [][]byte{g.name("DEL")}
				for j := 0; j < wide; j++ {
					args = append(args, g.key())
				}
			case 2:
				args = [][]byte{g.name("MGET")}
				for j := 0; j < wide; j++ {
					args = append(args, g.key())
				}
			default:
				args = [][]byte{g.name("EXISTS")}
				for j := 0; j < wide; j++ {
					args = append(args, g.key())
				}
			}
			c.Ops = append(c.Ops, sim.Op{K: "cmd", S: vsPackArgs(args)})
			continue
		}
		op := sim.Op{K: "cmd", S: vsPackArgs(g.command())}
		if r.Intn(100) < pipePct {
			op.A = 1 // pipeline with the following command when possible
		}
		if r.Intn(8) == 0 {
			op.B = 1 // send as an inline command when the arguments allow it
		}
		c.Ops = append(c.Ops, op)
	}
	return c
}

// ---------------------------------------------------------------------------
// Executor
// ---------------------------------------------------------------------------

type vsPending struct {
	step int
	args [][]byte
	wire []byte
}

type vsC29 struct {
	w     *vsWorld
	res   *sim.Result
	model *vsModel
	conn  *vsConn
	batch []vsPending
	// universe of keys ever named (for the final state comparison)
	seen map[string]bool
	// lastIO is the fake time of the last byte exchanged on conn.
	lastIO  time.Time
	stopped bool
	backend string
}

// The gateway closes a connection that stays silent for five minutes (Redis
// itself never does by default; connection housekeeping is not part of C29).
// The client therefore hangs up itself before it would be idle that long.
const vsIdleLimit = 4 * time.Minute

func vsNowMicro() int64 { return time.Now().UnixMicro() }

// vsRecv waits for the next reply; Kind 0 = nothing within 10 fake minutes.
func vsRecv(vc *vsConn) vsReply {
	tm := time.NewTimer(10 * time.Minute)
	defer tm.Stop()
	select {
	case r := <-vc.replies:
		return r
	case <-tm.C:
		return vsReply{Kind: 0}
	}
}

func (x *vsC29) ensureConn() {
	if x.conn != nil {
		return
	}
	x.conn = vsNewConn()
	go x.conn.serve(x.w.srv)
	x.lastIO = time.Now()
	x.res.Faults["connect"]++
}

func (x *vsC29) dropConn(step int, expectClosed bool) {
	if x.conn == nil {
		return
	}
	vc := x.conn
	x.conn = nil
	if expectClosed {
		// After QUIT the server must close the connection by itself.
		rep := vsRecv(vc)
		x.res.Checks++
		if rep.Kind != 'X' {
			x.res.Violate(step, "quit_not_closed", map[string]string{"got": vsKindName(rep.Kind)},
				"after QUIT the connection delivered %s instead of being closed", rep)
		}
	}
	_ = vc.cli.Close()
	synctest.Wait()
	if vc.panicVal != nil {
		x.res.Violate(step, "handler_panic", nil, "handleConn panicked: %v", vc.panicVal)
	} else if !vc.handlerDone() {
		x.res.Violate(step, "handler_not_returned", nil, "handleConn still running after the client closed the connection")
	}
}

// sleep advances the fake clock (hanging up first if the connection would sit idle too long).
func (x *vsC29) sleep(d time.Duration, what string) {
	if x.conn != nil && time.Since(x.lastIO)+d >= vsIdleLimit {
		x.dropConn(-1, false)
		x.res.Faults["idle_hangup"]++
	}
	time.Sleep(d)
	synctest.Wait()
	x.res.SimTime += d
	x.res.Faults[what]++
}

// settle advances the fake clock until none of keys is within a second of its deadline.
func (x *vsC29) settle(keys []string) {
	for i := 0; i < 16; i++ {
		now := vsNowMicro()
		until := x.model.unsafeUntil(keys, now)
		if until == 0 {
			return
		}
		d := time.Duration(until-now+1000) * time.Microsecond
		x.sleep(d, "clock_settle")
		x.res.Trace.Add("settle +%dus", d.Microseconds())
	}
}

const (
	vsOK       = iota // reply as demanded
	vsDesync          // mismatch or unasserted write: the keys of the command must be resynchronised
	vsTerminal        // connection gone or run stopped
)

func (x *vsC29) flush() {
	if len(x.batch) == 0 || x.stopped {
		x.batch = nil
		return
	}
	batch := x.batch
	x.batch = nil
	if x.conn != nil && time.Since(x.lastIO) >= vsIdleLimit {
		x.dropConn(batch[0].step, false)
	}
	x.ensureConn()
	var wire []byte
	for _, p := range batch {
		wire = append(wire, p.wire...)
	}
	if len(batch) > 1 {
		x.res.Faults["pipelined_batch"]++
	}
	t0 := vsNowMicro()
	if _, err := x.conn.cli.Write(wire); err != nil {
		x.res.Violate(batch[0].step, "connection_lost", nil, "write of %d bytes failed: %v", len(wire), err)
		x.dropConn(batch[0].step, false)
		x.stopped = true
		return
	}
	var dirty []string
	desynced := false
	for _, p := range batch {
		got := vsRecv(x.conn)
		x.lastIO = time.Now()
		t1 := vsNowMicro() + 1
		if desynced {
			// A command pipelined behind a mismatch ran against a state the model
			// no longer knows: not compared, its keys are resynchronised too.
			x.res.Trace.Add("%d %s -> %s (not compared)", p.step, vsShort(vsPackArgs(p.args)), got)
			x.res.Probes["not_compared_after_mismatch"]++
			dirty = append(dirty, vsCmdKeys(p.args)...)
			continue
		}
		switch x.check(p, got, t0, t1) {
		case vsDesync:
			desynced = true
			dirty = append(dirty, vsCmdKeys(p.args)...)
		case vsTerminal:
			return
		}
	}
	if desynced {
		x.resync(batch[len(batch)-1].step, dirty)
	}
}

func vsCmdName(args [][]byte) string {
	if len(args) == 0 {
		return ""
	}
	n := strings.ToUpper(string(args[0]))
	switch n {
	case "GET", "SET", "DEL", "MGET", "MSET", "EXISTS", "INCR", "DECR", "INCRBY", "DECRBY", "PING", "ECHO", "QUIT":
		return n
	}
	return "OTHER"
}

func vsReadOnly(name string) bool {
	switch name {
	case "GET", "MGET", "EXISTS", "PING", "ECHO", "OTHER":
		return true
	}
	return false
}

// vsErrCause turns the free text of an error reply into a category.
func vsErrCause(text string) string {
	l := strings.ToLower(text)
	switch {
	case strings.Contains(l, "hot key") || strings.Contains(l, "throttl"):
		return "hot_key_throttle"
	case strings.Contains(l, "too big") || strings.Contains(l, "txn is too"):
		return "txn_too_big"
	case strings.Contains(l, "conflict"):
		return "txn_conflict"
	case strings.Contains(l, "empty key"):
		return "empty_key"
	case strings.Contains(l, "timeout"):
		return "timeout"
	case strings.Contains(l, "not an integer"):
		return "not_integer"
	case strings.Contains(l, "overflow"):
		return "overflow"
	case strings.Contains(l, "syntax"):
		return "syntax"
	case strings.Contains(l, "wrong number"):
		return "arity"
	case strings.Contains(l, "unknown command"):
		return "unknown_command"
	case strings.Contains(l, "expire"):
		return "expire"
	}
	return "other"
}

func (x *vsC29) check(p vsPending, got vsReply, t0, t1 int64) int {
	res := x.res
	var delDups, delExpired, delBoth int64 = -1, -1, -1
	if vsCmdName(p.args) == "DEL" && len(p.args) > 1 {
		delDups, delExpired, delBoth = x.model.delVariants(p.args, t0, t1)
	}
	exp := x.model.apply(p.args, t0, t1)
	res.Trace.Add("%d %s -> %s @%dms", p.step, vsShort(vsPackArgs(p.args)), got, t0/1000-946684800000)
	name := vsCmdName(p.args)
	res.Probes["cmd_"+name]++
	if exp.uncertain {
		// Cannot happen unless a command takes more than vsSlack of fake time.
		res.Probes["uncertain_abort"]++
		x.stopped = true
		return vsTerminal
	}
	if exp.skip {
		res.Probes["not_asserted"]++
		if exp.closes {
			x.dropConn(p.step, false)
			return vsTerminal
		}
		if vsReadOnly(name) {
			return vsOK
		}
		return vsDesync
	}
	res.Checks++
	ok := got.Kind == exp.rep.Kind
	if ok {
		switch got.Kind {
		case '-':
			ok = exp.errText == "" || got.Str == exp.errText
			res.Probes["error_"+exp.note]++
		default:
			ok = got.equal(exp.rep)
		}
	}
	if ok {
		switch {
		case got.Kind == '_' && name == "GET":
			res.Probes["get_miss"]++
		case got.Kind == '_' && name == "SET":
			res.Probes["set_condition_failed"]++
		}
		if exp.closes {
			x.dropConn(p.step, true)
			return vsTerminal
		}
		return vsOK
	}
	sig := map[string]string{"cmd": name, "expected": vsKindName(exp.rep.Kind), "got": vsKindName(got.Kind), "backend": x.backend}
	cause := "value"
	switch {
	case got.Kind == '-' && exp.rep.Kind != '-':
		cause = vsErrCause(got.Str)
	case got.Kind == '-' && exp.rep.Kind == '-':
		cause = "error_text"
	case exp.rep.Kind == '-':
		cause = "accepted_" + exp.note
	case got.Kind == 0:
		cause = "no_reply"
	case got.Kind == 'X':
		cause = "closed"
	case got.Kind == exp.rep.Kind:
		cause = "payload"
	}
	if name == "PING" && exp.rep.Kind == '$' && exp.rep.Str == "" && got.Kind == '+' {
		cause = "empty_argument"
	}
	if vsOnlyEmptyAsNil(exp.rep, got) {
		cause = "empty_value_as_nil"
	}
	if name == "DEL" && got.Kind == ':' && exp.rep.Kind == ':' && got.Int > exp.rep.Int {
		// delExpired/delBoth over-approximate: a stale key may have been cleaned
		// up by an earlier read, so anything up to those counts is explained.
		stale := delExpired - exp.rep.Int
		switch {
		case delDups > exp.rep.Int && got.Int == delDups:
			cause = "duplicate_keys_counted"
		case got.Int <= exp.rep.Int+stale:
			cause = "expired_keys_counted"
		case got.Int <= delBoth:
			cause = "duplicate_and_expired_keys_counted"
		}
	}
	sig["cause"] = cause
	want := exp.rep.String()
	if exp.rep.Kind == '-' {
		want = "an error reply"
		if exp.errText != "" {
			want = "-" + strconv.Quote(exp.errText)
		}
	}
	res.Violate(p.step, "reply_mismatch", sig, "%s replied %s; Redis model: %s (rule %q, t=%d..%dus)",
		vsShort(vsPackArgs(p.args)), got, want, exp.note, t0, t1)
	if got.Kind == 0 || got.Kind == 'X' || got.Kind == '?' {
		x.dropConn(p.step, false)
		x.stopped = true
		return vsTerminal
	}
	if exp.closes {
		x.dropConn(p.step, false)
		return vsTerminal
	}
	return vsDesync
}

// vsOnlyEmptyAsNil reports whether got differs from want only in that empty
// bulk strings came back as nil.
func vsOnlyEmptyAsNil(want, got vsReply) bool {
	if want.Kind == '$' && want.Str == "" && got.Kind == '_' {
		return true
	}
	if want.Kind != '*' || got.Kind != '*' || len(want.Arr) != len(got.Arr) {
		return false
	}
	diff := 0
	for i := range want.Arr {
		if want.Arr[i].equal(got.Arr[i]) {
			continue
		}
		if !(want.Arr[i].Kind == '$' && want.Arr[i].Str == "" && got.Arr[i].Kind == '_') {
			return false
		}
		diff++
	}
	return diff > 0
}

// resync brings keys into a known state (absent) after a mismatch, so that one
// defect does not echo through the rest of the run.
func (x *vsC29) resync(step int, keys []string) {
	uniq := map[string]bool{}
	for _, k := range keys {
		if uniq[k] || x.stopped {
			continue
		}
		uniq[k] = true
		if _, err := x.conn.cli.Write(vsEncode([][]byte{[]byte("DEL"), []byte(k)})); err != nil {
			x.stopped = true
			return
		}
		rep := vsRecv(x.conn)
		x.res.Trace.Add("%d resync DEL %q -> %s", step, k, rep)
		delete(x.model.m, k)
		if rep.Kind != ':' {
			// The store refuses writes to this key (e.g. throttled): the model
			// cannot be brought back in line, the run ends here.
			x.res.Probes["resync_failed"]++
			x.stopped = true
			return
		}
	}
}

func vsExecC29(t *testing.T, c *sim.Case) *sim.Result {
	res := sim.NewResult()
	vsOptOnce.Do(vsCaptureMainOptions)
	synctest.Test(t, func(t *testing.T) {
		var w *vsWorld
		backend := "embedded"
		if c.CfgInt("backend", 0) == 1 {
			backend = "raft"
			store := vsNewSIStore(nil)
			w = &vsWorld{c: c, res: res, srv: newServer(&raftBackend{client: store, ts: store})}
		} else {
			var err error
			w, err = vsOpenWorld(c, res, nil)
			if err != nil {
				res.Violate(0, "open_failed", nil, "%v", err)
				return
			}
			defer w.close()
		}
		x := &vsC29{w: w, res: res, model: vsNewModel(), seen: map[string]bool{}, backend: backend}
		for i, op := range c.Ops {
			if x.stopped {
				break
			}
			sim.Beat()
			res.Steps++
			switch op.K {
			case "adv":
				x.flush()
				ms := op.A
				if ms <= 0 {
					continue
				}
				if ms > 86_400_000 {
					ms = 86_400_000
				}
				x.sleep(time.Duration(ms)*time.Millisecond, "clock_advance")
				res.Trace.Add("%d adv %dms", i, ms)
			case "cmd":
				args := vsUnpackArgs(op.S)
				if len(args) == 0 {
					continue
				}
				keys := vsCmdKeys(args)
				for _, k := range keys {
					x.seen[k] = true
				}
				p := vsPending{step: i, args: args}
				if op.B == 1 && vsInlineOK(args) {
					p.wire = vsEncodeInline(args)
					res.Faults["inline_command"]++
				} else {
					p.wire = vsEncode(args)
				}
				timeSensitive := vsHasExpireOption(args) || x.model.hasExpiry(keys, vsNowMicro())
				alone := timeSensitive || vsCmdName(args) == "QUIT" || len(p.wire) > 2048
				if alone {
					x.flush()
					if x.stopped {
						break
					}
					x.settle(keys)
					x.batch = append(x.batch, p)
					x.flush()
					continue
				}
				x.batch = append(x.batch, p)
				if op.A != 1 || len(x.batch) >= 24 {
					x.flush()
				}
			}
		}
		x.flush()
		// Resulting data: every key ever named is read once more at the end.
		if !x.stopped {
			keys := make([]string, 0, len(x.seen))
			for k := range x.seen {
				keys = append(keys, k)
			}
			sort.Strings(keys)
			for _, k := range keys {
				x.settle([]string{k})
				get := [][]byte{[]byte("GET"), []byte(k)}
				x.batch = append(x.batch, vsPending{step: len(c.Ops), args: get, wire: vsEncode(get)})
				x.flush()
				if x.stopped {
					break
				}
			}
		}
		x.dropConn(len(c.Ops), false)
		res.Nontrivial = res.Checks >= 8 && (res.Probes["cmd_SET"]+res.Probes["cmd_MSET"]+res.Probes["cmd_INCR"]+res.Probes["cmd_INCRBY"] > 0)
	})
	return res
}
