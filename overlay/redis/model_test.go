package main

// Reference Redis model for C29, written from the Redis command documentation
// (string commands of Redis 7), not from the gateway's code. Times are unix
// microseconds on the bubble's fake clock.

import (
	"math"
	"sort"
	"strconv"
	"strings"
)

const (
	vsErrNotInt   = "ERR value is not an integer or out of range"
	vsErrOverflow = "ERR increment or decrement would overflow"
	vsSecond      = int64(1_000_000) // µs
	// A command that looks at an expiring key is only issued when the fake clock
	// is at least one second (plus vsSlack for the command's own duration) before
	// or one second after the key's deadline: the gateway stores whole seconds.
	vsSlack = int64(100_000)
)

type vsEntry struct {
	val []byte
	exp bool
	// The true Redis deadline lies in [lo, hi] (the harness only knows that the
	// gateway executed the command between sending it and receiving the reply).
	lo, hi int64
}

type vsModel struct {
	m map[string]*vsEntry
}

func vsNewModel() *vsModel { return &vsModel{m: map[string]*vsEntry{}} }

// vsExpect is what the model demands of one reply.
type vsExpect struct {
	rep     vsReply
	errText string // when rep.Kind=='-': exact text to compare, "" = any error
	skip    bool   // Redis behaviour not pinned down by the documentation: no assertion
	closes  bool   // the server closes the connection after this reply
	// uncertain: the command looked at a key within one second of its deadline.
	uncertain bool
	// note names the rule that produced the expectation (diagnosis only).
	note string
}

func vsExpErr(text, note string) vsExpect {
	return vsExpect{rep: vsReply{Kind: '-'}, errText: text, note: note}
}
func vsExpInt(n int64) vsExpect   { return vsExpect{rep: vsReply{Kind: ':', Int: n}} }
func vsExpBulk(b []byte) vsExpect { return vsExpect{rep: vsReply{Kind: '$', Str: string(b)}} }
func vsExpNil() vsExpect          { return vsExpect{rep: vsReply{Kind: '_'}} }
func vsExpOK() vsExpect           { return vsExpect{rep: vsReply{Kind: '+', Str: "OK"}} }

// state of a key at a command executed in [t0,t1]: 1 alive, 0 absent, -1 uncertain.
func (m *vsModel) state(key string, t0, t1 int64) int {
	e := m.m[key]
	if e == nil {
		return 0
	}
	if !e.exp {
		return 1
	}
	if t1 <= e.lo-vsSecond {
		return 1
	}
	if t0 >= e.hi+vsSecond {
		// The stale entry stays in the map until it is overwritten or deleted:
		// delVariants wants to know which keys a store may still physically hold.
		return 0
	}
	return -1
}

// unsafeUntil returns, for a command about to be sent at time now, the instant
// from which every listed key is at least one second past its deadline, or 0
// when no listed key is inside its uncertainty window.
func (m *vsModel) unsafeUntil(keys []string, now int64) int64 {
	var until int64
	for _, k := range keys {
		e := m.m[k]
		if e == nil || !e.exp {
			continue
		}
		if now+vsSlack <= e.lo-vsSecond || now >= e.hi+vsSecond {
			continue
		}
		if e.hi+vsSecond > until {
			until = e.hi + vsSecond
		}
	}
	return until
}

// delVariants computes, for a DEL about to be applied, what two plausible wrong
// implementations would count: every occurrence of a live key (duplicates
// counted again), distinct keys that are stored but already expired, and both.
func (m *vsModel) delVariants(args [][]byte, t0, t1 int64) (dups, withExpired, both int64) {
	seen := map[string]bool{}
	for _, a := range args[1:] {
		e := m.m[string(a)]
		if e == nil {
			continue
		}
		alive := !e.exp || t1 <= e.lo-vsSecond
		if alive {
			dups++
		}
		both++
		if !seen[string(a)] {
			seen[string(a)] = true
			withExpired++
		}
	}
	return dups, withExpired, both
}

// hasExpiry reports whether one of keys carries a deadline that has not
// safely passed yet at time now.
func (m *vsModel) hasExpiry(keys []string, now int64) bool {
	for _, k := range keys {
		if e := m.m[k]; e != nil && e.exp && now < e.hi+vsSecond {
			return true
		}
	}
	return false
}

func (m *vsModel) sortedKeys() []string {
	ks := make([]string, 0, len(m.m))
	for k := range m.m {
		ks = append(ks, k)
	}
	sort.Strings(ks)
	return ks
}

// Integer syntax. Redis accepts exactly the canonical decimal form of an int64
// (optional '-', no '+', no leading zeros, no blanks).
const (
	vsIntCanon  = iota // canonical int64
	vsIntGoOnly        // accepted by strconv.ParseInt but not canonical: not asserted
	vsIntBlank         // empty or only blanks
	vsIntNo            // anything else, including out of range
)

func vsClassifyInt(b []byte) (int64, int) {
	s := string(b)
	if strings.TrimSpace(s) == "" {
		return 0, vsIntBlank
	}
	n, err := strconv.ParseInt(s, 10, 64)
	if err != nil {
		return 0, vsIntNo
	}
	if strconv.FormatInt(n, 10) == s {
		return n, vsIntCanon
	}
	return n, vsIntGoOnly
}

// vsCmdKeys lists the keys a command looks at (by the documented syntax).
func vsCmdKeys(args [][]byte) []string {
	if len(args) < 2 {
		return nil
	}
	var out []string
	switch strings.ToUpper(string(args[0])) {
	case "GET", "SET", "INCR", "DECR", "INCRBY", "DECRBY":
		out = append(out, string(args[1]))
	case "DEL", "MGET", "EXISTS":
		for _, a := range args[1:] {
			out = append(out, string(a))
		}
	case "MSET":
		for i := 1; i < len(args); i += 2 {
			out = append(out, string(args[i]))
		}
	}
	return out
}

// vsHasExpireOption reports whether a SET carries an expiry option word.
func vsHasExpireOption(args [][]byte) bool {
	if len(args) < 4 || strings.ToUpper(string(args[0])) != "SET" {
		return false
	}
	for _, a := range args[3:] {
		switch strings.ToUpper(string(a)) {
		case "EX", "PX", "EXAT", "PXAT":
			return true
		}
	}
	return false
}

// apply executes one command that the server ran somewhere in [t0,t1].
func (m *vsModel) apply(args [][]byte, t0, t1 int64) vsExpect {
	if len(args) == 0 {
		return vsExpect{skip: true}
	}
	name := strings.ToUpper(string(args[0]))
	arity := func() vsExpect { return vsExpErr("", "arity") }
	// Any key inside its uncertainty window makes the whole command unassertable.
	for _, k := range vsCmdKeys(args) {
		if m.state(k, t0, t1) < 0 {
			return vsExpect{skip: true, uncertain: true}
		}
	}
	alive := func(k string) bool { return m.state(k, t0, t1) == 1 }
	switch name {
	case "PING":
		switch len(args) {
		case 1:
			return vsExpect{rep: vsReply{Kind: '+', Str: "PONG"}}
		case 2:
			return vsExpBulk(args[1])
		}
		return arity()
	case "ECHO":
		if len(args) != 2 {
			return arity()
		}
		return vsExpBulk(args[1])
	case "QUIT":
		if len(args) != 1 {
			return vsExpect{skip: true, closes: true}
		}
		e := vsExpOK()
		e.closes = true
		return e
	case "GET":
		if len(args) != 2 {
			return arity()
		}
		if !alive(string(args[1])) {
			return vsExpNil()
		}
		return vsExpBulk(m.m[string(args[1])].val)
	case "SET":
		if len(args) < 3 {
			return arity()
		}
		return m.applySet(args, t0, t1)
	case "DEL":
		if len(args) < 2 {
			return arity()
		}
		var n int64
		for _, a := range args[1:] {
			if alive(string(a)) {
				n++
			}
			delete(m.m, string(a))
		}
		return vsExpInt(n)
	case "EXISTS":
		if len(args) < 2 {
			return arity()
		}
		var n int64
		for _, a := range args[1:] {
			if alive(string(a)) {
				n++
			}
		}
		return vsExpInt(n)
	case "MGET":
		if len(args) < 2 {
			return arity()
		}
		out := vsReply{Kind: '*'}
		for _, a := range args[1:] {
			if alive(string(a)) {
				out.Arr = append(out.Arr, vsReply{Kind: '$', Str: string(m.m[string(a)].val)})
			} else {
				out.Arr = append(out.Arr, vsReply{Kind: '_'})
			}
		}
		return vsExpect{rep: out}
	case "MSET":
		if len(args) < 3 || len(args)%2 != 1 {
			return arity()
		}
		for i := 1; i+1 < len(args); i += 2 {
			m.m[string(args[i])] = &vsEntry{val: append([]byte(nil), args[i+1]...)}
		}
		return vsExpOK()
	case "INCR", "DECR":
		if len(args) != 2 {
			return arity()
		}
		d := int64(1)
		if name == "DECR" {
			d = -1
		}
		return m.applyIncr(string(args[1]), d, false, alive)
	case "INCRBY", "DECRBY":
		if len(args) != 3 {
			return arity()
		}
		d, cls := vsClassifyInt(args[2])
		switch cls {
		case vsIntGoOnly:
			return vsExpect{skip: true}
		case vsIntBlank, vsIntNo:
			return vsExpErr(vsErrNotInt, "delta_not_integer")
		}
		if name == "DECRBY" {
			if d == math.MinInt64 {
				// The negated decrement does not exist. Redis refuses it outright
				// ("decrement would overflow"); mathematically value+2^63 only fits for
				// negative values. Asserted only where both agree: value >= 0 must fail.
				k := string(args[1])
				cur := int64(0)
				if alive(k) {
					n, c := vsClassifyInt(m.m[k].val)
					if c != vsIntCanon {
						return vsExpect{skip: true}
					}
					cur = n
				}
				if cur >= 0 {
					return vsExpErr("", "decrby_min_int64")
				}
				return vsExpect{skip: true}
			}
			d = -d
		}
		return m.applyIncr(string(args[1]), d, true, alive)
	}
	return vsExpErr("", "unknown_command")
}

func (m *vsModel) applyIncr(k string, d int64, _ bool, alive func(string) bool) vsExpect {
	cur := int64(0)
	var e *vsEntry
	if alive(k) {
		e = m.m[k]
		n, cls := vsClassifyInt(e.val)
		switch cls {
		case vsIntGoOnly:
			return vsExpect{skip: true}
		case vsIntBlank:
			return vsExpErr(vsErrNotInt, "blank_value")
		case vsIntNo:
			return vsExpErr(vsErrNotInt, "value_not_integer")
		}
		cur = n
	}
	if (d > 0 && cur > math.MaxInt64-d) || (d < 0 && cur < math.MinInt64-d) {
		return vsExpErr(vsErrOverflow, "overflow")
	}
	cur += d
	if e == nil {
		e = &vsEntry{}
		m.m[k] = e
	}
	e.val = []byte(strconv.FormatInt(cur, 10)) // the time to live is kept
	return vsExpInt(cur)
}

func (m *vsModel) applySet(args [][]byte, t0, t1 int64) vsExpect {
	k, v := string(args[1]), args[2]
	var nx, xx bool
	unit := ""
	var expArg []byte
	for j := 3; j < len(args); j++ {
		opt := strings.ToUpper(string(args[j]))
		switch opt {
		case "NX":
			if xx {
				return vsExpErr("", "syntax")
			}
			nx = true
		case "XX":
			if nx {
				return vsExpErr("", "syntax")
			}
			xx = true
		case "EX", "PX", "EXAT", "PXAT":
			if j+1 >= len(args) {
				return vsExpErr("", "syntax")
			}
			if unit == opt {
				// The same expiry option twice: Redis takes the last one, the
				// documentation says nothing. Not asserted.
				return vsExpect{skip: true}
			}
			if unit != "" {
				return vsExpErr("", "syntax")
			}
			unit, expArg = opt, args[j+1]
			j++
		case "GET", "KEEPTTL":
			// Outside the statement (and not generated).
			return vsExpect{skip: true}
		default:
			return vsExpErr("", "syntax")
		}
	}
	var lo, hi int64
	if unit != "" {
		n, cls := vsClassifyInt(expArg)
		switch cls {
		case vsIntGoOnly:
			return vsExpect{skip: true}
		case vsIntBlank, vsIntNo:
			return vsExpErr("", "expire_not_integer")
		}
		if n <= 0 {
			return vsExpErr("", "expire_not_positive")
		}
		switch unit {
		case "EX":
			if n > 10_000_000_000 {
				return vsExpect{skip: true} // overflow handling differs between Redis versions
			}
			lo, hi = t0+n*vsSecond, t1+n*vsSecond
		case "PX":
			if n > 10_000_000_000_000 {
				return vsExpect{skip: true}
			}
			lo, hi = t0+n*1000, t1+n*1000
		case "EXAT":
			if n > 100_000_000_000 {
				return vsExpect{skip: true}
			}
			lo, hi = n*vsSecond, n*vsSecond
		case "PXAT":
			if n > 100_000_000_000_000 {
				return vsExpect{skip: true}
			}
			lo, hi = n*1000, n*1000
		}
	}
	exists := m.state(k, t0, t1) == 1
	if (nx && exists) || (xx && !exists) {
		return vsExpNil()
	}
	e := &vsEntry{val: append([]byte(nil), v...)}
	if unit != "" {
		e.exp, e.lo, e.hi = true, lo, hi
	}
	m.m[k] = e
	return vsExpOK()
}
