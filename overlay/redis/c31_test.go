package main

// C31: the RESP parser is total and allocation-bounded.
//
// A case is a byte stream assembled from frames (well-formed array and inline
// commands, malformed frames, frames that declare huge or negative lengths),
// optionally truncated, plus a delivery plan (fragmentation, pauses). The
// stream is delivered over a net.Pipe either to the real handleConn (with a
// recording stub backend) or to a bare parseRESP loop.

import (
	"bufio"
	"bytes"
	"fmt"
	"io"
	"net"
	"runtime"
	"runtime/debug"
	"strconv"
	"strings"
	"testing"
	"testing/synctest"
	"time"

	"verif/sim"
)

func init() {
	vsProps["C31"] = sim.PropSpec{Gen: vsGenC31, Exec: vsExecC31}
}

const (
	vsMaxBulkDecl  = 1 << 28 // largest declared bulk length (268 MB if the parser believes it)
	vsMaxArrayDecl = 1 << 23 // largest declared array length (x24 bytes = 201 MB if believed)
	// "Out of proportion" is decided with a wide margin: streams of many tiny
	// frames legitimately cost ~70 bytes of allocation per byte received (error
	// texts, case folding, reply buffers), while the defect class this bound
	// exists for (allocating from a declared length) is 10^5-10^8 x.
	vsAllocFactor = 256
	vsAllocSlack  = 256 << 10
)

// ---------------------------------------------------------------------------
// Recording stub backend (conn mode): replies are a pure function of the arguments
// ---------------------------------------------------------------------------

// The stub only keeps references during a connection (what it allocates is
// charged to the allocation bound); the call log is rendered afterwards.
type vsStubCall struct {
	name  string
	args  [][]byte
	pairs [][2][]byte
	set   setArgs
	delta int64
}

type vsStubBackend struct{ calls []vsStubCall }

func vsQ(b []byte) string { return strconv.Quote(string(b)) }

func vsQJoin(name string, parts [][]byte) string {
	var sb strings.Builder
	sb.WriteString(name)
	for _, p := range parts {
		sb.WriteByte(' ')
		sb.WriteString(vsQ(p))
	}
	return sb.String()
}

// render produces the textual call log (after the measurement window).
func (b *vsStubBackend) render() []string {
	out := make([]string, 0, len(b.calls))
	for _, c := range b.calls {
		switch c.name {
		case "SET":
			out = append(out, vsQJoin("SET", [][]byte{c.set.Key, c.set.Value})+fmt.Sprintf(" nx=%v xx=%v exp=%d", c.set.NX, c.set.XX, c.set.ExpireAt))
		case "MSET":
			flat := make([][]byte, 0, 2*len(c.pairs))
			for _, p := range c.pairs {
				flat = append(flat, p[0], p[1])
			}
			out = append(out, vsQJoin("MSET", flat))
		case "INCRBY":
			out = append(out, vsQJoin("INCRBY", c.args)+" "+strconv.FormatInt(c.delta, 10))
		default:
			out = append(out, vsQJoin(c.name, c.args))
		}
	}
	return out
}

func vsStubValue(key []byte) []byte { return append([]byte("v:"), key...) }

func (b *vsStubBackend) Get(key []byte) (*redisValue, error) {
	b.calls = append(b.calls, vsStubCall{name: "GET", args: [][]byte{key}})
	return &redisValue{Value: vsStubValue(key), Found: true}, nil
}
func (b *vsStubBackend) Set(a setArgs) (bool, error) {
	b.calls = append(b.calls, vsStubCall{name: "SET", set: a})
	return true, nil
}
func (b *vsStubBackend) Del(keys [][]byte) (int64, error) {
	b.calls = append(b.calls, vsStubCall{name: "DEL", args: keys})
	return int64(len(keys)), nil
}
func (b *vsStubBackend) MGet(keys [][]byte) ([]*redisValue, error) {
	b.calls = append(b.calls, vsStubCall{name: "MGET", args: keys})
	out := make([]*redisValue, len(keys))
	slab := make([]redisValue, len(keys))
	n := 0
	for _, k := range keys {
		n += len(k) + 2
	}
	buf := make([]byte, 0, n)
	for i, k := range keys {
		st := len(buf)
		buf = append(append(buf, 'v', ':'), k...)
		slab[i] = redisValue{Value: buf[st:len(buf):len(buf)], Found: true}
		out[i] = &slab[i]
	}
	return out, nil
}
func (b *vsStubBackend) MSet(pairs [][2][]byte) error {
	b.calls = append(b.calls, vsStubCall{name: "MSET", pairs: pairs})
	return nil
}
func (b *vsStubBackend) Exists(keys [][]byte) (int64, error) {
	b.calls = append(b.calls, vsStubCall{name: "EXISTS", args: keys})
	return int64(len(keys)), nil
}
func (b *vsStubBackend) IncrBy(key []byte, delta int64) (int64, error) {
	b.calls = append(b.calls, vsStubCall{name: "INCRBY", args: [][]byte{key}, delta: delta})
	return delta, nil
}
func (b *vsStubBackend) Close() error { return nil }

// vsStubExpect gives, for a well-formed command the generator produced, the
// reply and the backend call the gateway must make. ok=false: nothing asserted.
func vsStubExpect(args [][]byte) (rep vsReply, call string, ok bool) {
	if len(args) == 0 {
		return vsReply{}, "", true // no reply, no call
	}
	switch strings.ToUpper(string(args[0])) {
	case "ECHO":
		if len(args) == 2 {
			return vsReply{Kind: '$', Str: string(args[1])}, "", true
		}
	case "PING":
		if len(args) == 1 {
			return vsReply{Kind: '+', Str: "PONG"}, "", true
		}
	case "GET":
		if len(args) == 2 {
			return vsReply{Kind: '$', Str: string(vsStubValue(args[1]))}, vsQJoin("GET", args[1:]), true
		}
	case "MGET":
		if len(args) >= 2 {
			r := vsReply{Kind: '*'}
			for _, k := range args[1:] {
				r.Arr = append(r.Arr, vsReply{Kind: '$', Str: string(vsStubValue(k))})
			}
			return r, vsQJoin("MGET", args[1:]), true
		}
	case "DEL":
		if len(args) >= 2 {
			return vsReply{Kind: ':', Int: int64(len(args) - 1)}, vsQJoin("DEL", args[1:]), true
		}
	case "EXISTS":
		if len(args) >= 2 {
			return vsReply{Kind: ':', Int: int64(len(args) - 1)}, vsQJoin("EXISTS", args[1:]), true
		}
	case "MSET":
		if len(args) >= 3 && len(args)%2 == 1 {
			return vsReply{Kind: '+', Str: "OK"}, vsQJoin("MSET", args[1:]), true
		}
	case "SET":
		if len(args) == 3 {
			return vsReply{Kind: '+', Str: "OK"}, vsQJoin("SET", args[1:]) + " nx=false xx=false exp=0", true
		}
	case "INCR", "DECR", "INCRBY", "DECRBY", "QUIT":
		return vsReply{}, "", false
	default:
		// Not a command of the gateway (whatever bytes the name consists of).
		return vsReply{Kind: '-'}, "", true
	}
	return vsReply{}, "", false
}

// ---------------------------------------------------------------------------
// Generator
// ---------------------------------------------------------------------------

var vsMalformed = []string{
	"*abc\r\n", "*\r\n", "*1\r\n+PING\r\n", "*1\r\n:1\r\n", "*2\r\n$4\r\nECHO\r\n*1\r\n", "*1\r\n$abc\r\n",
	"*1\r\n$\r\n", "*1\r\n$4\r\nPINGXY", "*1\r\n$4\r\nPING\rX", "*1\r\n$4\r\nPIN\r\n", "*1\n$4\nPING\n", "*1\r$4\rPING\r",
	"PING\n", "\n", "\r", "\r\n", "\x00\r\n", "*1\r\n$-1\r\n", "*2\r\n$4\r\nECHO\r\n$-1\r\n", "*1\r\n$-5\r\n",
	"*-1\r\n", "*-7\r\n", "*+1\r\n$4\r\nPING\r\n", "*01\r\n$04\r\nPING\r\n", "* 1\r\n", "*1 \r\n", "*1\r\n$ 4\r\nPING\r\n",
	"$4\r\nPING\r\n", "+PING\r\n", "-ERR x\r\n", ":1\r\n", "*9223372036854775807\r\n", "*9223372036854775808\r\n",
	"*1\r\n$9223372036854775807\r\n", "*1\r\n$99999999999999999999\r\n", "*-9223372036854775808\r\n", "*1\r\n$-9223372036854775808\r\n",
	"*1.5\r\n", "*0x10\r\n", "*1e3\r\n", "\"unterminated quote\r\n", "GET \"a b\"\r\n", "*\xff\r\n", "\xff\xfe\xfd\r\n",
}

var vsUnicodeSpaces = []string{"\xc2\xa0", "\xc2\x85", "\xe2\x80\x83", "\xe3\x80\x80", "\xe2\x80\xa8"}

func vsGenBinArg(r *sim.Rand) []byte {
	switch r.Intn(12) {
	case 0:
		return []byte{}
	case 1:
		return []byte("\r\n")
	case 2:
		return []byte("a\r\n$3\r\nb")
	case 3:
		return []byte("*1\r\n")
	case 4:
		return []byte{0, 1, 2, 0xff, 0xfe}
	case 5:
		return []byte("with space")
	case 6:
		return vsRepeat("y", r.Pick(100, 4095, 4096, 4097, 9000))
	case 7:
		return []byte("a" + vsUnicodeSpaces[r.Intn(len(vsUnicodeSpaces))] + "b")
	default:
		n := 1 + r.Intn(10)
		b := make([]byte, n)
		for i := range b {
			b[i] = byte('a' + r.Intn(26))
		}
		return b
	}
}

func vsGenToken(r *sim.Rand, c *sim.Case) []byte {
	switch r.Intn(14) {
	case 0:
		c.Cfg["unicode_space_token"] = 1
		return []byte("a" + vsUnicodeSpaces[r.Intn(len(vsUnicodeSpaces))] + "b")
	case 1:
		return []byte{'h', 0xff, 0xfe, 'i'}
	case 2:
		return []byte("caf\xc3\xa9")
	case 3:
		return []byte{'c', 1, 2, 0x7f}
	case 4:
		return vsRepeat("t", r.Pick(100, 4090, 5000))
	default:
		n := 1 + r.Intn(8)
		b := make([]byte, n)
		for i := range b {
			b[i] = "abcdefghijklmnopqrstuvwxyz0123456789:-_./$*+"[r.Intn(44)]
		}
		return b
	}
}

func vsGenWellFormed(r *sim.Rand, c *sim.Case, inline bool) [][]byte {
	arg := func() []byte {
		if inline {
			return vsGenToken(r, c)
		}
		return vsGenBinArg(r)
	}
	name := func(s string) []byte {
		if inline && (s == "" || s[0] == '*') {
			s = "x" + s
		}
		return []byte(vsMixCase(r, s))
	}
	switch r.Intn(11) {
	case 0:
		return [][]byte{name("ECHO"), arg()}
	case 1:
		return [][]byte{name("PING")}
	case 2:
		return [][]byte{name("GET"), arg()}
	case 3:
		args := [][]byte{name("MGET")}
		for i, n := 0, 1+r.Intn(5); i < n; i++ {
			args = append(args, arg())
		}
		return args
	case 4:
		args := [][]byte{name("DEL")}
		for i, n := 0, 1+r.Intn(4); i < n; i++ {
			args = append(args, arg())
		}
		return args
	case 5:
		args := [][]byte{name("EXISTS")}
		for i, n := 0, 1+r.Intn(4); i < n; i++ {
			args = append(args, arg())
		}
		return args
	case 6:
		args := [][]byte{name("MSET")}
		for i, n := 0, 1+r.Intn(3); i < n; i++ {
			args = append(args, arg(), arg())
		}
		return args
	case 7:
		return [][]byte{name("SET"), arg(), arg()}
	case 8:
		if !inline && r.Intn(2) == 0 {
			return [][]byte{vsGenBinArg(r), arg()} // arbitrary bytes as command name
		}
		return [][]byte{name([]string{"NOSUCHCMD", "FOO"}[r.Intn(2)]), arg()}
	case 9:
		if inline {
			return [][]byte{name("PING")}
		}
		return [][]byte{} // "*0\r\n"
	default:
		if inline {
			return [][]byte{} // empty line
		}
		// many small arguments
		args := [][]byte{name("MGET")}
		for i, n := 0, r.Pick(50, 300, 1500); i < n; i++ {
			args = append(args, []byte(strconv.Itoa(i)))
		}
		return args
	}
}

func vsGenC31(r *sim.Rand, tier string) *sim.Case {
	c := &sim.Case{Cfg: map[string]int64{}}
	c.Cfg["mode"] = int64(r.Intn(2)) // 0 = handleConn, 1 = bare parseRESP loop
	nframes := 1 + r.Intn(5)
	if tier == "thorough" {
		nframes = 1 + r.Intn(10)
	}
	huge := r.Intn(200) == 0 // declared sizes above 16 MB are rare: they cost real memory on unfixed code
	for i := 0; i < nframes; i++ {
		switch x := r.Intn(100); {
		case x < 42:
			c.Ops = append(c.Ops, sim.Op{K: "arr", S: vsPackArgs(vsGenWellFormed(r, c, false))})
		case x < 62:
			c.Ops = append(c.Ops, sim.Op{K: "inl", S: vsPackArgs(vsGenWellFormed(r, c, true)), A: int64(r.Intn(4))})
		case x < 82:
			if r.Intn(4) == 0 {
				n := 1 + r.Intn(40)
				b := make([]byte, n)
				for j := range b {
					b[j] = "*$\r\n0123456789-+: abc\x00\xff"[r.Intn(23)]
				}
				c.Ops = append(c.Ops, sim.Op{K: "raw", S: strconv.Quote(string(b))})
			} else {
				c.Ops = append(c.Ops, sim.Op{K: "raw", S: strconv.Quote(vsMalformed[r.Intn(len(vsMalformed))])})
			}
		default:
			kind := int64(r.Intn(2)) // 0 array header, 1 bulk header
			var n int64
			switch r.Intn(6) {
			case 0:
				n = r.Pick64(1000, 5000, 65536)
			case 1, 2:
				n = r.Pick64(100_000, 1_000_000, 1<<20)
			case 3:
				n = -r.Pick64(1, 2, 1000, 1<<31)
			default:
				// Believed by the parser, an array header costs 24 bytes per declared
				// element: 2^21 elements = 50 MB, 2^23 = 201 MB; a bulk header costs
				// its length. Sizes above 50 MB only in one run out of 200.
				n = r.Pick64(1<<21, 1<<24)
				if kind == 0 {
					n = 1 << 21
				}
				if huge {
					n = r.Pick64(100_000_000, 1<<28)
				}
			}
			c.Ops = append(c.Ops, sim.Op{K: "big", A: kind, B: n, C: int64(r.Pick(0, 0, 1, 5, 64, 5000))})
		}
	}
	if r.Intn(4) == 0 {
		c.Cfg["truncate"] = int64(1 + r.Intn(12))
	}
	c.Cfg["frag"] = int64(r.Pick(0, 1, 2, 2, 3, 3))
	var plan []string
	for i, n := 0, 1+r.Intn(12); i < n; i++ {
		if r.Intn(6) == 0 {
			plan = append(plan, "p"+strconv.Itoa(r.Pick(1, 1000, 299_000, 301_000)))
		} else {
			plan = append(plan, strconv.Itoa(r.Pick(1, 1, 2, 3, 5, 8, 64, 1000, 4096, 4097, 10000)))
		}
	}
	c.Ops = append(c.Ops, sim.Op{K: "plan", S: strings.Join(plan, ",")})
	return c
}

// ---------------------------------------------------------------------------
// Executor
// ---------------------------------------------------------------------------

type vsFrame struct {
	kind   string // arr inl raw big
	args   [][]byte
	bytes  []byte
	end    int   // offset of the first byte after this frame in the stream
	declN  int64 // big: declared length
	declAr bool  // big: array header (else bulk header)
}

func vsBuildFrames(c *sim.Case) (frames []vsFrame, stream []byte) {
	for _, op := range c.Ops {
		var f vsFrame
		switch op.K {
		case "arr":
			f = vsFrame{kind: "arr", args: vsUnpackArgs(op.S)}
			f.bytes = vsEncode(f.args)
		case "inl":
			f = vsFrame{kind: "inl", args: vsUnpackArgs(op.S)}
			ok := true
			for _, a := range f.args {
				if len(a) == 0 || bytes.ContainsAny(a, " \t\r\n\v\f\"'\\") {
					ok = false
				}
			}
			if len(f.args) > 0 && (f.args[0][0] == '*') {
				ok = false
			}
			if !ok { // hand-edited replay: not an inline command any more
				f.kind = "raw"
			}
			sep := strings.Repeat(" ", 1+int(op.A%3))
			var b []byte
			if op.A%4 == 3 {
				b = append(b, ' ')
			}
			for i, a := range f.args {
				if i > 0 {
					b = append(b, sep...)
				}
				b = append(b, a...)
			}
			if op.A%4 == 2 && len(f.args) > 0 {
				b = append(b, ' ')
			}
			f.bytes = append(b, '\r', '\n')
		case "raw":
			s, err := strconv.Unquote(op.S)
			if err != nil {
				continue
			}
			f = vsFrame{kind: "raw", bytes: vsClampDigits([]byte(s))}
		case "big":
			n := op.B
			f = vsFrame{kind: "big", declN: n, declAr: op.A%2 == 0}
			if f.declAr {
				if n > vsMaxArrayDecl {
					n = vsMaxArrayDecl
				}
				f.bytes = []byte("*" + strconv.FormatInt(n, 10) + "\r\n")
			} else {
				if n > vsMaxBulkDecl {
					n = vsMaxBulkDecl
				}
				f.bytes = []byte("*1\r\n$" + strconv.FormatInt(n, 10) + "\r\n")
			}
			f.declN = n
			fill := int(op.C)
			if fill < 0 {
				fill = 0
			}
			if fill > 1<<16 {
				fill = 1 << 16
			}
			if f.declAr {
				for i := 0; i < fill/8; i++ {
					f.bytes = append(f.bytes, "$1\r\nz\r\n"[:]...)
				}
			} else {
				f.bytes = append(f.bytes, vsRepeat("z", fill)...)
			}
		default:
			continue
		}
		stream = append(stream, f.bytes...)
		f.end = len(stream)
		frames = append(frames, f)
	}
	return frames, stream
}

// Lengths at or beyond 2^63-1 make the parser fail before it allocates; anything
// between the caps above and that would ask the runtime for terabytes. Raw
// frames therefore keep such digit runs only in these spellings, every other
// run of digits is cut to six digits (hand-edited replay files included).
var vsHugeLiterals = []string{"9223372036854775807", "9223372036854775808", "99999999999999999999"}

func vsClampDigits(b []byte) []byte {
	out := make([]byte, 0, len(b))
	for i := 0; i < len(b); {
		if b[i] < '0' || b[i] > '9' {
			out = append(out, b[i])
			i++
			continue
		}
		j := i
		for j < len(b) && b[j] >= '0' && b[j] <= '9' {
			j++
		}
		run := string(b[i:j])
		keep := len(run) <= 6
		for _, l := range vsHugeLiterals {
			if run == l {
				keep = true
			}
		}
		if keep {
			out = append(out, run...)
		} else {
			out = append(out, run[:6]...)
		}
		i = j
	}
	return out
}

// vsDeclared finds the first header in the stream that declares at least 1000
// elements or bytes: "array", "bulk" or "none", and the largest such number.
func vsDeclared(stream []byte) (string, int64) {
	kind, max := "none", int64(0)
	for i := 0; i+1 < len(stream); i++ {
		if stream[i] != '*' && stream[i] != '$' {
			continue
		}
		j := i + 1
		for j < len(stream) && j-i <= 19 && stream[j] >= '0' && stream[j] <= '9' {
			j++
		}
		if j-i-1 < 4 {
			continue
		}
		n, err := strconv.ParseInt(string(stream[i+1:j]), 10, 64)
		if err != nil {
			n = 1 << 62
		}
		if kind == "none" {
			kind = "bulk"
			if stream[i] == '*' {
				kind = "array"
			}
		}
		if n > max {
			max = n
		}
	}
	return kind, max
}

func vsParsePlan(c *sim.Case) []int {
	var out []int
	for _, op := range c.Ops {
		if op.K != "plan" {
			continue
		}
		for _, tok := range strings.Split(op.S, ",") {
			tok = strings.TrimSpace(tok)
			if strings.HasPrefix(tok, "p") {
				if n, err := strconv.Atoi(tok[1:]); err == nil && n > 0 && n <= 3_600_000 {
					out = append(out, -n)
				}
			} else if n, err := strconv.Atoi(tok); err == nil && n > 0 {
				out = append(out, n)
			}
		}
	}
	return out
}

// vsHangupOnWellFormed reports the violation "the peer closed the connection
// inside a well-formed frame": legitimate only after an idle period as long as
// handleConn's read deadline (a pause of about five minutes in the plan).
func vsHangupOnWellFormed(res *sim.Result, c *sim.Case, di int, mode string, i int, f vsFrame, obs *vsObs) {
	if !obs.writeFail {
		return // the stream simply ended here (truncated case)
	}
	for _, p := range vsParsePlan(c) {
		if p <= -290_000 {
			return
		}
	}
	res.Violate(di, "wellformed_rejected", map[string]string{"mode": mode, "form": f.kind, "how": "connection_closed"},
		"the connection was closed while well-formed frame %d (%s, %d bytes) was being sent (parser error: %v; reply tail %s)",
		i, vsShort(string(f.bytes)), len(f.bytes), obs.parseErr, vsShort(string(vsTail(obs.replyRaw, 60))))
}

func vsTail(b []byte, n int) []byte {
	if len(b) > n {
		return b[len(b)-n:]
	}
	return b
}

// vsChunks turns a plan into the list of writes (nil entry = pause of -ms).
type vsChunk struct {
	data    []byte
	pauseMs int
}

func vsPlanChunks(stream []byte, plan []int, frag int64) []vsChunk {
	switch frag {
	case 0:
		return []vsChunk{{data: stream}}
	case 1:
		if len(stream) <= 4096 {
			out := make([]vsChunk, 0, len(stream))
			for i := range stream {
				out = append(out, vsChunk{data: stream[i : i+1]})
			}
			return out
		}
	}
	positive := false
	for _, p := range plan {
		if p > 0 {
			positive = true
		}
	}
	if !positive {
		plan = append(append([]int(nil), plan...), 7)
	}
	var out []vsChunk
	pos, pi, pauses := 0, 0, 0
	for pos < len(stream) && len(out) < 20000 {
		p := plan[pi%len(plan)]
		pi++
		if p < 0 {
			if pauses < 8 {
				out = append(out, vsChunk{pauseMs: -p})
				pauses++
			}
			continue
		}
		end := pos + p
		if end > len(stream) {
			end = len(stream)
		}
		out = append(out, vsChunk{data: stream[pos:end]})
		pos = end
	}
	if pos < len(stream) {
		out = append(out, vsChunk{data: stream[pos:]})
	}
	return out
}

type vsObs struct {
	sent      int
	alloc     uint64
	panicVal  any
	returned  bool
	replyRaw  []byte
	calls     []string   // conn mode
	parsed    [][][]byte // parse mode
	parseErr  error
	writeFail bool
}

// vsDeliver sends chunks over a fresh pipe to the handler and measures.
func vsDeliver(srv *redisServer, stub *vsStubBackend, parseMode bool, chunks []vsChunk, res *sim.Result) *vsObs {
	obs := &vsObs{}
	cli, srvEnd := net.Pipe()
	done := make(chan struct{})
	rdDone := make(chan struct{})
	replyBuf := make([]byte, 0, 64<<10)
	tmp := make([]byte, 32<<10)
	go func() {
		defer close(rdDone)
		for {
			n, err := cli.Read(tmp)
			if len(replyBuf)+n <= 8<<20 {
				replyBuf = append(replyBuf, tmp[:n]...)
			}
			if err != nil {
				return
			}
		}
	}()
	if stub != nil {
		stub.calls = make([]vsStubCall, 0, 256)
	}
	parsed := make([][][]byte, 0, 64)
	synctest.Wait()
	var m0, m1 runtime.MemStats
	runtime.ReadMemStats(&m0)
	go func() {
		defer close(done)
		defer func() {
			if r := recover(); r != nil {
				obs.panicVal = r
				_ = srvEnd.Close()
			}
		}()
		if !parseMode {
			srv.handleConn(srvEnd)
			return
		}
		defer srvEnd.Close()
		br := bufio.NewReader(srvEnd)
		for {
			args, err := parseRESP(br)
			if err != nil {
				obs.parseErr = err
				return
			}
			parsed = append(parsed, args)
		}
	}()
	for _, ch := range chunks {
		if ch.data == nil {
			d := time.Duration(ch.pauseMs) * time.Millisecond
			time.Sleep(d)
			synctest.Wait()
			res.SimTime += d
			res.Faults["pause"]++
			continue
		}
		n, err := cli.Write(ch.data)
		obs.sent += n
		if err != nil {
			obs.writeFail = true
			break
		}
	}
	synctest.Wait()
	_ = cli.Close() // end of stream (mid-frame when the stream was truncated)
	synctest.Wait()
	select {
	case <-done:
		obs.returned = true
	default:
	}
	runtime.ReadMemStats(&m1)
	obs.alloc = m1.TotalAlloc - m0.TotalAlloc
	if !obs.returned {
		// Let the 5-minute read deadline of handleConn pass so the bubble can end.
		time.Sleep(11 * time.Minute)
		synctest.Wait()
	}
	<-rdDone
	obs.replyRaw = replyBuf
	obs.parsed = parsed
	if stub != nil {
		obs.calls = stub.render()
	}
	return obs
}

func vsArgsEqual(a, b [][]byte) bool {
	if len(a) != len(b) {
		return false
	}
	for i := range a {
		if !bytes.Equal(a[i], b[i]) {
			return false
		}
	}
	return true
}

func vsHasUnicodeSpace(args [][]byte) bool {
	for _, a := range args {
		for _, u := range vsUnicodeSpaces {
			if bytes.Contains(a, []byte(u)) {
				return true
			}
		}
	}
	return false
}

func vsExecC31(t *testing.T, c *sim.Case) *sim.Result {
	res := sim.NewResult()
	frames, stream := vsBuildFrames(c)
	if tr := int(c.CfgInt("truncate", 0)); tr > 0 {
		if tr > len(stream) {
			tr = len(stream)
		}
		stream = stream[:len(stream)-tr]
		res.Faults["truncated_stream"]++
	}
	parseMode := c.CfgInt("mode", 0)%2 == 1
	modeName := "conn"
	if parseMode {
		modeName = "parse"
	}
	// Leading well-formed frames that are completely inside the stream.
	var lead []vsFrame
	var declared string
	var declMax int64
	for _, f := range frames {
		if (f.kind != "arr" && f.kind != "inl") || f.end > len(stream) {
			break
		}
		lead = append(lead, f)
		if f.kind == "inl" && len(f.bytes) > 4096 {
			res.Probes["inline_frame_longer_than_reader_buffer"]++
		}
	}
	declared, declMax = vsDeclared(stream)
	plan := vsParsePlan(c)
	frag := c.CfgInt("frag", 0)
	var deliveries [][]vsChunk
	if frag == 3 && len(stream) >= 2 && len(stream) <= 96 && declMax < 1<<16 {
		for i := 1; i < len(stream); i++ {
			deliveries = append(deliveries, []vsChunk{{data: stream[:i]}, {data: stream[i:]}})
		}
		res.Faults["all_split_points"]++
	} else {
		deliveries = append(deliveries, vsPlanChunks(stream, plan, frag))
		if len(deliveries[0]) > 1 {
			res.Faults["fragmented"]++
		}
	}
	synctest.Test(t, func(t *testing.T) {
		stub := &vsStubBackend{}
		srv := newServer(stub)
		for di, chunks := range deliveries {
			sim.Beat()
			obs := vsDeliver(srv, stub, parseMode, chunks, res)
			res.Steps++
			vsJudgeC31(res, c, di, modeName, declared, frames, lead, stream, obs)
			if len(res.Violations) > 8 {
				break
			}
		}
		if declMax >= 32<<20 {
			res.Faults["declared_over_32MB"]++
		}
	})
	if declMax >= 16<<20 {
		debug.FreeOSMemory()
	}
	res.Nontrivial = len(frames) > 0 && (len(lead) < len(frames) || len(deliveries) > 1 || res.Faults["fragmented"] > 0)
	return res
}

func vsJudgeC31(res *sim.Result, c *sim.Case, di int, mode, declared string, allFrames, lead []vsFrame, stream []byte, obs *vsObs) {
	res.Trace.Add("delivery %d mode=%s bytes=%d sent=%d returned=%v replies=%dB calls=%d parsed=%d err=%v",
		di, mode, len(stream), obs.sent, obs.returned, len(obs.replyRaw), len(obs.calls), len(obs.parsed), obs.parseErr)
	sigMode := map[string]string{"mode": mode}
	// 1. total: no panic, the handler returns once the stream has ended.
	res.Checks++
	if obs.panicVal != nil {
		cause := "other"
		if strings.Contains(fmt.Sprint(obs.panicVal), "makeslice") {
			cause = "makeslice_out_of_range"
		}
		res.Violate(di, "panic", map[string]string{"mode": mode, "cause": cause}, "handler panicked on %s: %v", vsShort(string(stream)), obs.panicVal)
		return
	}
	res.Checks++
	if !obs.returned {
		res.Violate(di, "handler_not_returned", sigMode, "handler still running after end of stream; input %s", vsShort(string(stream)))
	}
	// 2. allocation bounded by the bytes actually received.
	res.Checks++
	limit := uint64(vsAllocFactor*obs.sent + vsAllocSlack)
	if obs.alloc > limit {
		res.Violate(di, "alloc_unbounded", map[string]string{"mode": mode, "declared": declared},
			"%d bytes allocated while handling a connection that delivered %d bytes (limit %d); input starts %s",
			obs.alloc, obs.sent, limit, vsShort(string(stream)))
	}
	if obs.alloc > uint64(8*obs.sent+vsAllocSlack) {
		res.Probes["alloc_over_8x"]++
	}
	if obs.alloc > uint64(32*obs.sent+vsAllocSlack) && obs.alloc <= limit {
		res.Probes["alloc_over_32x_within_bound"]++
	}
	// 3. replies are well-formed RESP.
	var replies []vsReply
	if mode == "conn" {
		br := bufio.NewReader(bytes.NewReader(obs.replyRaw))
		for {
			rep := vsReadReply(br, 1<<26)
			if rep.Kind == 'X' {
				break
			}
			if rep.Kind == '?' {
				res.Checks++
				if rep.Int == 1 && (len(lead) < len(vsFramesOf(c)) || c.CfgInt("truncate", 0) > 0) {
					// The stream ended inside a frame: handleConn returns on EOF without
					// flushing, so the tail of the last reply may be missing. Replies to
					// a client that went away in mid-frame are not part of the property.
					res.Probes["reply_cut_at_eof"]++
					break
				}
				cause := "other"
				for _, f := range allFrames {
					if f.kind == "arr" && len(f.args) > 0 && bytes.ContainsAny(f.args[0], "\r\n") {
						cause = "crlf_in_command_name"
					}
				}
				res.Violate(di, "reply_malformed", map[string]string{"cause": cause},
					"reply stream is not well-formed RESP (%s) after %d replies; replies start %s; input %s",
					rep.Str, len(replies), vsShort(string(obs.replyRaw)), vsShort(string(stream)))
				return // replies can no longer be attributed to commands
			}
			replies = append(replies, rep)
		}
		res.Checks++
	}
	// 4. well-formed commands are parsed into exactly their arguments.
	if mode == "parse" {
		for i, f := range lead {
			if f.end > obs.sent {
				vsHangupOnWellFormed(res, c, di, mode, i, f, obs)
				break
			}
			res.Checks++
			if i >= len(obs.parsed) {
				res.Violate(di, "wellformed_rejected", map[string]string{"mode": mode, "form": f.kind},
					"well-formed frame %d (%s) was not parsed: parser stopped with %v after %d frames", i, vsShort(string(f.bytes)), obs.parseErr, len(obs.parsed))
				break
			}
			if !vsArgsEqual(obs.parsed[i], f.args) {
				cause := "other"
				if f.kind == "inl" && vsHasUnicodeSpace(f.args) {
					cause = "unicode_space_split"
				}
				res.Violate(di, "args_mismatch", map[string]string{"mode": mode, "form": f.kind, "cause": cause},
					"frame %d %s parsed into %d arguments %s, generator sent %d: %s", i, vsShort(string(f.bytes)),
					len(obs.parsed[i]), vsShort(vsPackArgs(obs.parsed[i])), len(f.args), vsShort(vsPackArgs(f.args)))
				break
			}
		}
		return
	}
	ri, ci := 0, 0
	for i, f := range lead {
		if f.end > obs.sent {
			vsHangupOnWellFormed(res, c, di, mode, i, f, obs) // legitimate only after an idle deadline
			break
		}
		wantRep, wantCall, ok := vsStubExpect(f.args)
		if !ok {
			break // nothing asserted from here on (reply/call positions unknown)
		}
		if len(f.args) == 0 {
			continue
		}
		res.Checks++
		cause := "other"
		if f.kind == "inl" && vsHasUnicodeSpace(f.args) {
			cause = "unicode_space_split"
		}
		sig := map[string]string{"mode": mode, "form": f.kind, "cause": cause}
		if ri >= len(replies) {
			// A truncated tail can hold back replies (they sit in the handler's
			// write buffer when the stream ends inside the next frame).
			if len(lead) < len(vsFramesOf(c)) || c.CfgInt("truncate", 0) > 0 {
				res.Probes["reply_withheld_at_eof"]++
				break
			}
			res.Violate(di, "reply_missing", sig, "no reply for well-formed frame %d %s (%d replies in total)", i, vsShort(string(f.bytes)), len(replies))
			break
		}
		got := replies[ri]
		ri++
		good := got.Kind == wantRep.Kind && (wantRep.Kind == '-' || got.equal(wantRep))
		if good && wantCall != "" {
			good = ci < len(obs.calls) && obs.calls[ci] == wantCall
			ci++
		}
		if !good {
			gotCall := "<none>"
			if wantCall != "" && ci-1 < len(obs.calls) && ci >= 1 {
				gotCall = obs.calls[ci-1]
			}
			res.Violate(di, "args_mismatch", sig, "frame %d %s: reply %s, backend call %s; expected reply %s, call %s",
				i, vsShort(string(f.bytes)), got, vsShort(gotCall), wantRep, vsShort(wantCall))
			break
		}
	}
}

func vsFramesOf(c *sim.Case) []sim.Op {
	var out []sim.Op
	for _, op := range c.Ops {
		if op.K != "plan" {
			out = append(out, op)
		}
	}
	return out
}

var _ = io.EOF
