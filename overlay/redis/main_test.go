package main

import (
	"testing"

	"verif/sim"
)

// vsProps is the registry of the redissim engine (harness compiled into
// cmd/nokv-redis through go test -overlay; see /verif/check build_overlay).
var vsProps = map[string]sim.PropSpec{}

func TestVerif(t *testing.T) { sim.Main(t, "redissim", vsProps) }
