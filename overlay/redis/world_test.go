package main

// Engine E5 "redissim": the real Redis gateway (redisServer.handleConn, RESP
// parser, dispatch, embeddedBackend on a real NoKV.DB, raftBackend) driven over
// net.Pipe connections inside a synctest bubble. The files of this directory
// are compiled INTO /repo/cmd/nokv-redis (package main) by /verif/check
// build_overlay; /repo itself is not touched. Every identifier is prefixed
// with "vs" so that nothing collides with the package's own tests.

import (
	"bufio"
	"errors"
	"flag"
	"fmt"
	"io"
	"log"
	"net"
	"os"
	"path/filepath"
	"strconv"
	"strings"
	"sync"
	"testing/synctest"

	NoKV "github.com/feichai0017/NoKV"
	"github.com/feichai0017/NoKV/verifhook"

	"verif/sim"
)

func init() { log.SetOutput(io.Discard) }

// ---------------------------------------------------------------------------
// Options exactly as main.go builds them
// ---------------------------------------------------------------------------

var (
	vsOptOnce   sync.Once
	vsOptSnap   NoKV.Options
	vsOptSource = "fallback"
)

type vsExitPanic struct{ code int }

// vsCaptureMainOptions runs the real main() once per process with a listener
// stub that fails: main builds its options, opens and (through its deferred
// cleanup) closes a database in a scratch directory and "exits" through the
// stubbed exit hook. The *Options value main handed to NoKV.Open is copied at
// the moment main calls listen. A change to main.go's option construction is
// therefore picked up without touching the harness.
func vsCaptureMainOptions() {
	dir := filepath.Join(sim.Scratch(), "capture")
	_ = os.MkdirAll(dir, 0o755)
	defer os.RemoveAll(dir)
	origArgs, origFlags := os.Args, flag.CommandLine
	origListen, origExit, origNDO := listen, exit, newDefaultOptions
	defer func() {
		os.Args, flag.CommandLine = origArgs, origFlags
		listen, exit, newDefaultOptions = origListen, origExit, origNDO
	}()
	flag.CommandLine = flag.NewFlagSet("nokv-redis", flag.ContinueOnError)
	flag.CommandLine.SetOutput(io.Discard)
	os.Args = []string{"nokv-redis", "-workdir", dir, "-addr", "127.0.0.1:0"}
	var captured *NoKV.Options
	ok := false
	newDefaultOptions = func() *NoKV.Options {
		captured = NoKV.NewDefaultOptions()
		// The two size knobs every run overrides anyway (vsOpenWorld) are already
		// small here, so that this one extra Open/Close does not map 20 value-log
		// files of 512 MiB each.
		captured.MemTableSize = 1 << 20
		captured.ValueLogFileSize = 1 << 20
		return captured
	}
	listen = func(network, address string) (net.Listener, error) {
		if captured != nil {
			vsOptSnap = *captured
			ok = true
		}
		return nil, errors.New("verif: option capture only")
	}
	exit = func(code int) { panic(vsExitPanic{code}) }
	func() {
		defer func() { _ = recover() }()
		main()
	}()
	if ok {
		vsOptSource = "main"
		return
	}
	// Mirror of main.go (only used when the capture above stops working).
	opt := NoKV.NewDefaultOptions()
	if opt.MaxBatchCount <= 0 {
		opt.MaxBatchCount = int64(opt.WriteBatchMaxCount)
		if opt.MaxBatchCount <= 0 {
			opt.MaxBatchCount = 1024
		}
	}
	if opt.MaxBatchSize <= 0 {
		opt.MaxBatchSize = opt.WriteBatchMaxSize
		if opt.MaxBatchSize <= 0 {
			opt.MaxBatchSize = 16 << 20
		}
	}
	vsOptSnap = *opt
}

// vsMainOptions returns a fresh copy of main.go's options for workdir dir.
func vsMainOptions(dir string) *NoKV.Options {
	vsOptOnce.Do(vsCaptureMainOptions)
	opt := vsOptSnap
	opt.WorkDir = dir
	opt.FS = nil
	return &opt
}

// ---------------------------------------------------------------------------
// World: one database + one gateway server inside the bubble
// ---------------------------------------------------------------------------

type vsWorld struct {
	c   *sim.Case
	res *sim.Result
	dir string
	db  *NoKV.DB
	opt *NoKV.Options
	srv *redisServer
}

var vsWorldSeq int

// vsOpenWorld opens the database (inside the bubble) and builds the server
// around wrap(embeddedBackend); wrap may be nil.
func vsOpenWorld(c *sim.Case, res *sim.Result, wrap func(redisBackend) redisBackend) (w *vsWorld, err error) {
	vsWorldSeq++
	dir := filepath.Join(sim.Scratch(), fmt.Sprintf("r%d", vsWorldSeq))
	_ = os.RemoveAll(dir)
	_ = os.MkdirAll(dir, 0o755)
	w = &vsWorld{c: c, res: res, dir: dir}
	w.opt = vsMainOptions(dir)
	if vsOptSource != "main" {
		res.Probes["options_fallback"]++
	}
	// The only two deviations from main.go's options: size knobs that none of
	// the gateway's command paths reads; they keep a run cheap.
	w.opt.MemTableSize = c.CfgInt("memtable_size", 1<<20)           // main.go: 64 MiB
	w.opt.ValueLogFileSize = int(c.CfgInt("vlog_file_size", 1<<20)) // main.go: 0 = 20 preallocated 512 MiB mmap files
	verifhook.Reset()
	// The compactor start delay is the only math/rand consumer in a run this
	// small; background compaction has nothing to do with <= a few hundred writes.
	verifhook.Set("lsm.no-background-compaction", 1)
	verifhook.Set("lsm.serial-table-build", 1)
	verifhook.Set("redis.txn-retries", int(c.CfgInt("txn_retries", 0))) // 0 = shipped budget (64)
	defer func() {
		if r := recover(); r != nil {
			err = fmt.Errorf("NoKV.Open panicked: %v", r)
		}
	}()
	w.db = NoKV.Open(w.opt)
	var be redisBackend = newEmbeddedBackend(w.db)
	if wrap != nil {
		be = wrap(be)
	}
	w.srv = newServer(be)
	synctest.Wait()
	return w, nil
}

func (w *vsWorld) close() {
	if w.db != nil {
		_ = w.db.Close()
		synctest.Wait()
		w.db = nil
	}
	verifhook.Reset()
	_ = os.RemoveAll(w.dir)
}

// ---------------------------------------------------------------------------
// RESP: request encoding and reply decoding (client side, harness-owned)
// ---------------------------------------------------------------------------

// vsReply is one decoded RESP2 reply.
//
//	'+' simple string  '-' error  ':' integer  '$' bulk  '_' nil bulk
//	'*' array  '~' nil array  'X' connection closed  '?' malformed bytes
type vsReply struct {
	Kind byte
	Str  string
	Int  int64
	Arr  []vsReply
}

func (r vsReply) String() string {
	switch r.Kind {
	case '+':
		return "+" + strconv.Quote(r.Str)
	case '-':
		return "-" + strconv.Quote(r.Str)
	case ':':
		return ":" + strconv.FormatInt(r.Int, 10)
	case '$':
		return "$" + vsShort(r.Str)
	case '_':
		return "nil"
	case '~':
		return "nil-array"
	case '*':
		var b strings.Builder
		b.WriteString("[")
		for i, e := range r.Arr {
			if i > 0 {
				b.WriteString(" ")
			}
			if i >= 8 {
				fmt.Fprintf(&b, "...%d more", len(r.Arr)-i)
				break
			}
			b.WriteString(e.String())
		}
		b.WriteString("]")
		return b.String()
	case 'X':
		return "<closed>"
	default:
		return "<malformed " + strconv.Quote(r.Str) + ">"
	}
}

func vsShort(s string) string {
	if len(s) > 40 {
		return strconv.Quote(s[:24]) + fmt.Sprintf("...(%d bytes)", len(s))
	}
	return strconv.Quote(s)
}

func vsKindName(k byte) string {
	switch k {
	case '+':
		return "simple"
	case '-':
		return "error"
	case ':':
		return "integer"
	case '$':
		return "bulk"
	case '_':
		return "nil"
	case '*':
		return "array"
	case '~':
		return "nilarray"
	case 'X':
		return "closed"
	case 0:
		return "none"
	default:
		return "malformed"
	}
}

func (r vsReply) equal(o vsReply) bool {
	if r.Kind != o.Kind || r.Str != o.Str || r.Int != o.Int || len(r.Arr) != len(o.Arr) {
		return false
	}
	for i := range r.Arr {
		if !r.Arr[i].equal(o.Arr[i]) {
			return false
		}
	}
	return true
}

func vsReadLineStrict(br *bufio.Reader) (string, error) {
	line, err := br.ReadString('\n')
	if err != nil {
		if len(line) > 0 && err == io.EOF {
			return line, io.ErrUnexpectedEOF
		}
		return "", err
	}
	if len(line) < 2 || line[len(line)-2] != '\r' {
		return line, fmt.Errorf("line not terminated by CRLF")
	}
	return line[:len(line)-2], nil
}

// vsReadReply decodes one reply. io.EOF at a reply boundary is returned as
// (Kind 'X', nil); everything that is not well-formed RESP2 as Kind '?'.
func vsReadReply(br *bufio.Reader, maxBulk int) vsReply {
	t, err := br.ReadByte()
	if err != nil {
		return vsReply{Kind: 'X'}
	}
	// Int=1 marks "ran out of bytes" as opposed to "wrong bytes".
	bad := func(format string, a ...any) vsReply {
		r := vsReply{Kind: '?', Str: fmt.Sprintf(format, a...)}
		for _, x := range a {
			if e, ok := x.(error); ok && (e == io.EOF || e == io.ErrUnexpectedEOF) {
				r.Int = 1
			}
		}
		return r
	}
	switch t {
	case '+', '-', ':':
		line, err := vsReadLineStrict(br)
		if err != nil {
			return bad("type %q: %v", t, err)
		}
		if strings.ContainsAny(line, "\r\n") {
			return bad("type %q: CR or LF inside a line reply", t)
		}
		if t == ':' {
			n, err := strconv.ParseInt(line, 10, 64)
			if err != nil {
				return bad("integer reply %q", line)
			}
			return vsReply{Kind: ':', Int: n}
		}
		return vsReply{Kind: t, Str: line}
	case '$':
		line, err := vsReadLineStrict(br)
		if err != nil {
			return bad("bulk header: %v", err)
		}
		n, err := strconv.Atoi(line)
		if err != nil || n < -1 || n > maxBulk {
			return bad("bulk length %q", line)
		}
		if n == -1 {
			return vsReply{Kind: '_'}
		}
		buf := make([]byte, n+2)
		if _, err := io.ReadFull(br, buf); err != nil {
			return bad("bulk body: %v", err)
		}
		if buf[n] != '\r' || buf[n+1] != '\n' {
			return bad("bulk body not followed by CRLF")
		}
		return vsReply{Kind: '$', Str: string(buf[:n])}
	case '*':
		line, err := vsReadLineStrict(br)
		if err != nil {
			return bad("array header: %v", err)
		}
		n, err := strconv.Atoi(line)
		if err != nil || n < -1 || n > 1<<20 {
			return bad("array length %q", line)
		}
		if n == -1 {
			return vsReply{Kind: '~'}
		}
		out := vsReply{Kind: '*', Arr: make([]vsReply, 0, n)}
		for i := 0; i < n; i++ {
			e := vsReadReply(br, maxBulk)
			if e.Kind == 'X' {
				r := bad("array truncated after %d of %d elements", i, n)
				r.Int = 1
				return r
			}
			if e.Kind == '?' {
				return e
			}
			out.Arr = append(out.Arr, e)
		}
		return out
	default:
		return bad("unknown reply type byte %q", t)
	}
}

// vsEncode renders a command as a RESP array of bulk strings.
func vsEncode(args [][]byte) []byte {
	n := 16
	for _, a := range args {
		n += len(a) + 16
	}
	out := make([]byte, 0, n)
	out = append(out, '*')
	out = strconv.AppendInt(out, int64(len(args)), 10)
	out = append(out, '\r', '\n')
	for _, a := range args {
		out = append(out, '$')
		out = strconv.AppendInt(out, int64(len(a)), 10)
		out = append(out, '\r', '\n')
		out = append(out, a...)
		out = append(out, '\r', '\n')
	}
	return out
}

// vsInlineOK reports whether the command can be sent as an inline command
// without any doubt about how it is split: non-empty printable ASCII tokens
// without blanks or quotes, first byte not a RESP type byte.
func vsInlineOK(args [][]byte) bool {
	if len(args) == 0 {
		return false
	}
	for _, a := range args {
		if len(a) == 0 {
			return false
		}
		for _, ch := range a {
			if ch <= ' ' || ch >= 0x7f || ch == '"' || ch == '\'' || ch == '\\' {
				return false
			}
		}
	}
	return args[0][0] != '*' && args[0][0] != '$'
}

func vsEncodeInline(args [][]byte) []byte {
	var out []byte
	for i, a := range args {
		if i > 0 {
			out = append(out, ' ')
		}
		out = append(out, a...)
	}
	return append(out, '\r', '\n')
}

// ---------------------------------------------------------------------------
// Connections
// ---------------------------------------------------------------------------

// vsConn is the client side of one net.Pipe connection to handleConn.
type vsConn struct {
	cli      net.Conn
	srvEnd   net.Conn
	done     chan struct{} // closed when handleConn has returned
	replies  chan vsReply
	panicVal any
}

// vsNewConn creates the pipe and the reply decoder; serve starts the handler.
func vsNewConn() *vsConn {
	cli, srvEnd := net.Pipe()
	vc := &vsConn{cli: cli, srvEnd: srvEnd, done: make(chan struct{}), replies: make(chan vsReply, 4096)}
	go func() {
		br := bufio.NewReaderSize(cli, 4096)
		for {
			rep := vsReadReply(br, 1<<26)
			vc.replies <- rep
			if rep.Kind == 'X' || rep.Kind == '?' {
				return
			}
		}
	}()
	return vc
}

// serve runs the real connection handler on the server end; a panic of the
// handler is recorded instead of killing the process.
func (vc *vsConn) serve(srv *redisServer) {
	defer close(vc.done)
	defer func() {
		if r := recover(); r != nil {
			vc.panicVal = r
			_ = vc.srvEnd.Close()
		}
	}()
	srv.handleConn(vc.srvEnd)
}

func (vc *vsConn) handlerDone() bool {
	select {
	case <-vc.done:
		return true
	default:
		return false
	}
}

// ---------------------------------------------------------------------------
// Argument lists inside sim.Op.S (ASCII-safe, survives the JSON replay file)
// ---------------------------------------------------------------------------

// vsPackArgs renders args as space-separated tokens: a Go-quoted string, or
// N*"pat" for pat repeated up to exactly N bytes.
func vsPackArgs(args [][]byte) string {
	var b strings.Builder
	for i, a := range args {
		if i > 0 {
			b.WriteByte(' ')
		}
		if len(a) >= 64 {
			if p := vsRepeatPattern(a); p != "" {
				b.WriteString(strconv.Itoa(len(a)))
				b.WriteByte('*')
				b.WriteString(strconv.Quote(p))
				continue
			}
		}
		b.WriteString(strconv.Quote(string(a)))
	}
	return b.String()
}

func vsRepeatPattern(a []byte) string {
	for pl := 1; pl <= 8; pl++ {
		ok := true
		for i := pl; i < len(a); i++ {
			if a[i] != a[i%pl] {
				ok = false
				break
			}
		}
		if ok {
			return string(a[:pl])
		}
	}
	return ""
}

func vsRepeat(pat string, n int) []byte {
	out := make([]byte, n)
	for i := range out {
		out[i] = pat[i%len(pat)]
	}
	return out
}

// vsUnpackArgs is the inverse of vsPackArgs; malformed input yields what could
// be decoded (lenient, for shrinking and hand-edited replay files).
func vsUnpackArgs(s string) [][]byte {
	var out [][]byte
	for {
		s = strings.TrimLeft(s, " ")
		if s == "" {
			return out
		}
		rep := -1
		if s[0] != '"' {
			i := strings.IndexByte(s, '*')
			if i <= 0 {
				return out
			}
			n, err := strconv.Atoi(s[:i])
			if err != nil || n < 0 || n > 1<<24 {
				return out
			}
			rep = n
			s = s[i+1:]
		}
		q, err := strconv.QuotedPrefix(s)
		if err != nil {
			return out
		}
		u, err := strconv.Unquote(q)
		if err != nil {
			return out
		}
		s = s[len(q):]
		if rep >= 0 {
			if u == "" {
				u = "x"
			}
			out = append(out, vsRepeat(u, rep))
		} else {
			out = append(out, []byte(u))
		}
	}
}
