"""Registry of engines and per-property check parameters (single source for ./check and MANIFEST.json)."""

ENGINES = {
    "dbsim": {
        "pkg": "./harness/dbsim",
        "kind": "E1: one real NoKV.DB in a synctest bubble on SimFS; maintenance, crash images and task interleaving decided by the case",
        "real": ["NoKV.DB (commit pipeline, LSM, memtables, flush, compaction executor/planner, WAL, manifest, value log + GC, oracle/watermarks, iterators)"],
        "stub": ["OS scheduler (parked engine workers released by the seeded scheduler)", "OS clock (synctest fake clock)",
                 "background compaction loop (compactions issued by the simulator through an accessor)",
                 "disk = real directory on /dev/shm behind SimFS (mmap stores bypass the VFS by design of the SUT)"],
    },
}

E1_ASSUME = [
    "process-crash model: kernel-held file contents survive, user-space buffers are lost; power loss is not modelled",
    "interleavings are explored at yield-site granularity (hook sites listed in MANIFEST.hooks / DESIGN.md section 5)",
    "a clean batch is evidence, not proof: bounds are small (<= 8 keys, <= 60 steps per run)",
]

PROPS = {
    "C01": {
        "engine": "dbsim", "level": "exploration", "budget": {"quick": 25, "thorough": 600},
        "title": "Plain KV API is last-writer-wins under any background maintenance",
        "technique": "deterministic simulation: seeded schedules of client ops and maintenance (rotation, flush, every compaction kind, vlog GC, reopen, clock) against a map model",
        "rule": "case = seeded list of Set/Del/SetCF/DelCF + maintenance steps + configuration swarm; after every step every (cf,key) is read and compared with a last-writer map; distinct = distinct event-trace hash; non-trivial = at least one flush or clean reopen actually happened in the run",
        "level_text": "Seeded search over operation/maintenance schedules and configurations with a reference map as oracle; every mismatch is diagnosed by locating all stored copies. Right level because the property quantifies over unbounded histories and schedules: it can only be sampled, with small keys/short runs maximising interleaving density.",
        "note": "Trusted: the harness's map model and the verif-tag accessors (rotate, single compaction of a chosen kind, GC of a chosen file) which call the engine's own code paths; forced compactions mimic the picker's preconditions.",
        "design_ref": "7/C01", "assumptions": E1_ASSUME,
    },
    "C02": {
        "engine": "dbsim", "level": "exploration", "budget": {"quick": 25, "thorough": 600},
        "title": "Versioned reads return the newest entry at or below the requested version",
        "technique": "deterministic simulation: seeded histories of versioned writes/deletes (in-order, repeated and out-of-order versions) interleaved with maintenance, checked against a multi-version reference model at every probe version",
        "rule": "case = seeded list of SetVersionedEntry/DeleteVersionedEntry + maintenance steps + configuration swarm; after every step GetVersionedEntry is probed for every (cf,key) at versions {1..7, 2^64-2, 2^64-1} and compared with the model (most recent write among those with the greatest version <= v); distinct = distinct event-trace hash; non-trivial = at least one flush or clean reopen happened",
        "level_text": "Seeded search over versioned-write histories, maintenance schedules and configurations with a multi-version reference model; sampling is the right level for a property quantified over all histories and schedules.",
        "note": "Trusted: the multi-version model, the verif-tag accessors; tombstones are compared as entries carrying the delete bit (what the API returns).",
        "design_ref": "7/C02", "assumptions": E1_ASSUME,
    },
    "C12": {
        "engine": "dbsim", "level": "exploration", "budget": {"quick": 25, "thorough": 600},
        "title": "Clean close and reopen preserve contents and timestamp monotonicity",
        "technique": "deterministic simulation: seeded plain/versioned/transactional histories with maintenance, 1-6 clean close/reopen cycles (optionally with another memtable engine/cache size); all-version dump before vs after; commit-version monotonicity probe",
        "rule": "case = seeded history through one of the three write APIs + maintenance + reopen steps under the configuration swarm; at every reopen the complete all-version contents (cf, key, version, meta, expiry, value resolved through the value log) before Close are compared with those after Open; for transactional databases the first commit after reopen must get a version above every stored version; distinct = distinct trace hash; non-trivial = at least one reopen with >3 steps",
        "level_text": "Seeded search over histories and configurations; the oracle is equality of two dumps of the same database, so it is independent of any read-path model.",
        "note": "Trusted: the dump through DB.NewInternalIterator (first copy per internal key) and the VerifResolve accessor.",
        "design_ref": "7/C12", "assumptions": E1_ASSUME,
    },
    "C09": {
        "engine": "dbsim", "level": "exploration", "budget": {"quick": 28, "thorough": 600},
        "title": "With synchronous writes, acknowledged writes survive any crash",
        "technique": "deterministic simulation with crash-fault enumeration: SyncWrites workloads (plain and transactional) with maintenance; process-crash images cut at state-changing file-system events (incl. page-torn writes); each image reopened and compared with the acknowledged batches",
        "rule": "case = seeded workload + maintenance + configuration swarm + crash placement (every k-th state-changing FS event from an offset, up to 10 (quick) / 40 (thorough) images per run, page-torn write variants included); each image must reopen without error and contain every batch acknowledged before the image instant with exact values; distinct = distinct trace hash; non-trivial = at least one image cut after at least one accepted batch",
        "level_text": "Seeded search over histories x crash points with enumeration of crash points inside each run; the oracle needs no read-path model beyond exact-version point reads. Sampling is the right level: the space of histories x crash points is unbounded.",
        "note": "Trusted: SimFS crash-image model (process crash: kernel-held bytes survive, user-space buffers lost), the dump through NewInternalIterator + GetVersionedEntry.",
        "design_ref": "7/C09", "assumptions": E1_ASSUME + ["a crash image is a copy of the working directory taken while the instance is alive, at a state-changing file-system call (optionally after only a page-aligned prefix of a write arrived); LOCK file skipped", "the set of acknowledged batches at the image instant is exact because the single client is synchronous"],
    },
    "C10": {
        "engine": "dbsim", "level": "exploration", "budget": {"quick": 28, "thorough": 600},
        "title": "Recovery after any crash yields a prefix-consistent, readable state",
        "technique": "deterministic simulation with crash-fault enumeration: workloads with and without SyncWrites, multi-key transactions; each crash image must reopen and its complete all-version contents must equal the model after some prefix of the accepted batches",
        "rule": "as C09 but SyncWrites in {off,on}; oracle: the recovered all-version dump equals the model state after some prefix of the accepted batches (>= the acknowledged prefix when SyncWrites), every present key is readable, no value that was never written; non-prefix states are classified (partial batch, unreadable value, never-written value, rejected batch visible, hole/reorder)",
        "level_text": "Seeded search over histories x crash points; the oracle is an executable prefix-consistency model of the batch sequence.",
        "note": "Trusted: as C09; batch boundaries are known exactly because the single client is synchronous.",
        "design_ref": "7/C10", "assumptions": E1_ASSUME + ["a crash image is a copy of the working directory taken while the instance is alive, at a state-changing file-system call (optionally after only a page-aligned prefix of a write arrived); LOCK file skipped", "the set of acknowledged batches at the image instant is exact because the single client is synchronous"],
    },
    "C11": {
        "engine": "dbsim", "level": "exploration", "budget": {"quick": 28, "thorough": 600},
        "title": "Once reopened, contents change only through new writes",
        "technique": "deterministic simulation: every reopened crash image is dumped, subjected to a seeded maintenance schedule (flush, every compaction kind, value-log GC, WAL watchdog) and a second reopen; the dump must not change",
        "rule": "as C10 for the crash images; after reopening an image its all-version dump is taken, a generated maintenance schedule runs with no client writes, and the dump (and the dump after one more clean reopen; three reopen cycles in the value-log variant: 2-4 buckets of 256-512 byte segments with GC-heavy maintenance) must be identical; non-trivial as C09",
        "level_text": "Seeded search over crash images x maintenance schedules; oracle = equality of dumps of the same database.",
        "note": "Trusted: as C09.",
        "design_ref": "7/C11", "assumptions": E1_ASSUME + ["a crash image is a copy of the working directory taken while the instance is alive, at a state-changing file-system call (optionally after only a page-aligned prefix of a write arrived); LOCK file skipped", "the set of acknowledged batches at the image instant is exact because the single client is synchronous"],
    },
    "C08": {
        "engine": "dbsim", "level": "exploration", "budget": {"quick": 25, "thorough": 600},
        "title": "Value-log separation and GC never change or lose a live value",
        "technique": "deterministic simulation: plain and strictly-increasing versioned workloads with values around the separation threshold, 1-4 buckets, tiny value-log files and value-log GC passes (picker-driven, per file, forced rewrite) placed between writes, flushes and compactions; every read API compared with the model",
        "rule": "case = C01/C02 workload under a value-log-heavy configuration with GC steps densified; after every step every key is read (GetCF / GetVersionedEntry at all probe versions / DB iterator + Item.ValueCopy) and compared byte-for-byte with the model; read errors on live keys are violations; distinct = distinct trace hash; non-trivial = at least one flush or reopen AND at least one GC pass that touched data",
        "level_text": "Seeded search over workloads x GC placement x configuration with reference models; sampling is the right level for a property over all schedules.",
        "note": "Trusted: models of C01/C02; the GC accessor applies pickLogs' eligibility rules before calling the engine's own doRunGC/rewrite.",
        "design_ref": "7/C08", "assumptions": E1_ASSUME,
    },
    "C06": {
        "engine": "dbsim", "level": "exploration", "budget": {"quick": 25, "thorough": 600},
        "title": "Iterators return exactly the live snapshot in order, honouring options",
        "technique": "deterministic simulation: multi-version state built by committed transactions (deletes, TTLs on the fake clock, pending writes) or plain writes, maintenance placement, then Txn/DB iterators under generated option sets and seek targets compared with a reference scan",
        "rule": "case = seeded state-building steps + maintenance + iterator probes (forward/reverse x lower/upper bound x prefix x key-only x all-versions x since-ts x pending writes, Rewind, two generated Seek targets and the smallest and largest stored key each; one case in three starts with a layout prefix that pushes every key into the last level's sorted run); the full output of every probe is compared with the model's scan (keys, values, versions, order) and, in latest-version mode, every yielded value with Txn.Get; distinct = distinct trace hash; non-trivial = at least one probe evaluated after a rotation or flush",
        "level_text": "Seeded search over snapshot contents x storage layout x option sets with an executable reference scan as oracle.",
        "note": "Trusted: the reference scan (written from the property statement), commit versions learned from ReadTs of a fresh transaction (single client).",
        "design_ref": "7/C06", "assumptions": E1_ASSUME,
    },
    "C05": {
        "engine": "dbsim", "level": "exploration", "budget": {"quick": 25, "thorough": 600},
        "title": "A transaction never sees another transaction partially or late",
        "technique": "deterministic simulation: 2-4 client tasks (writers committing multi-key transactions, readers re-reading by Get and iterator) and the commit worker interleaved by a seeded scheduler at yield sites inside oracle.readTs/newCommitTs/doneCommit, the watermarks and the commit pipeline; every read checked against the multi-version model at the reader's read timestamp",
        "rule": "case = per-task transaction scripts + configuration (conflict detection, watermark window 0/2/4, memtable size) + seeded schedule; oracle over the recorded history: every Get/iterator result of a transaction with read timestamp r equals the committed state at r (commit versions from the txn.committs hook event, writes identified by unique values) overlaid with its own writes, and repeated reads are stable; distinct = distinct trace hash (includes the schedule); non-trivial = at least two successful commits and more than 20 scheduling steps",
        "level_text": "Seeded search over interleavings at hook granularity with an executable multi-version model; sampling is the only feasible level for a property over all schedules of the real engine.",
        "note": "Trusted: yield-site placement (a race between two instructions with no site between them is invisible), the model, commit versions reported by the hook event.",
        "design_ref": "7/C05", "assumptions": E1_ASSUME + ["client tasks and engine workers are released one at a time at yield sites: oracle timestamps (readTs/newCommitTs/doneCommit), watermark Begin/Done/advance/rebuild, commit worker stages, request enqueue/ack, and harness-level call boundaries; return events are stamped when the task is next scheduled (intervals can only widen)"],
    },
    "C03": {
        "engine": "dbsim", "level": "exploration", "budget": {"quick": 25, "thorough": 600},
        "title": "Committed transactions are serializable and read their snapshot",
        "technique": "deterministic simulation (same engine as C05) with conflict detection on: snapshot-read oracle plus missed-conflict oracle (a successful read-write commit at c must not have read a key another transaction committed in (readTs, c)) plus unique, real-time-ordered commit versions",
        "rule": "as C05 with DetectConflicts=true and read-write transactions that read before writing; a missed conflict is the violation, spurious conflicts are allowed; phantoms (a range whose result would differ only by a key the scan never returned) are not demanded; distinct/non-trivial as C05",
        "level_text": "Seeded search over interleavings with an executable serializability oracle (snapshot reads + first-committer-wins on read keys => serializable in commit order).",
        "note": "Trusted: as C05.",
        "design_ref": "7/C03", "assumptions": E1_ASSUME + ["client tasks and engine workers are released one at a time at yield sites: oracle timestamps (readTs/newCommitTs/doneCommit), watermark Begin/Done/advance/rebuild, commit worker stages, request enqueue/ack, and harness-level call boundaries; return events are stamped when the task is next scheduled (intervals can only widen)"],
    },
    "C04": {
        "engine": "dbsim", "level": "exploration", "budget": {"quick": 25, "thorough": 600},
        "title": "Transaction commit is atomic with strictly increasing commit versions",
        "failstop_ok": True,  # the engine's panic on a fatal disk error ends the process: no commit returned nil
        "technique": "deterministic simulation (same engine as C05) with small MaxBatchCount (too-big errors), discards and conflicts, and in one run of three an injected disk error (one WAL file write fails once, WAL write buffer shrunk to 16-256 bytes so that the apply step of a single request of a commit batch meets it): commit versions unique and real-time ordered; final all-version dump equals exactly the union of the writes of successful commits at their commit versions",
        "rule": "as C05 plus MaxBatchCount in {default,3,4}; after the run the all-version dump of the default column family must contain every write of every successful commit at that commit's version and nothing else (a stored entry of a commit that reported conflict/too-big/blocked, or of a discarded transaction, is the violation; narrow relaxation: what became of the writes of a commit that reported the injected disk error is not judged, everything acknowledged with nil is); distinct/non-trivial as C05",
        "level_text": "Seeded search over interleavings; oracle = exact accounting of stored versions against acknowledged commits.",
        "note": "Trusted: as C05; the dump through NewInternalIterator + exact-version point reads.",
        "design_ref": "7/C04", "assumptions": E1_ASSUME + ["client tasks and engine workers are released one at a time at yield sites: oracle timestamps (readTs/newCommitTs/doneCommit), watermark Begin/Done/advance/rebuild, commit worker stages, request enqueue/ack, and harness-level call boundaries; return events are stamped when the task is next scheduled (intervals can only widen)"],
    },
    "C34": {
        "engine": "dbsim", "level": "exploration", "budget": {"quick": 25, "thorough": 600},
        "title": "Concurrent plain writes and reads are linearizable",
        "technique": "deterministic simulation: 2-4 client tasks issue plain Set/Del/Get with unique values while the commit worker is a scheduled task (requests coalesce into batches), the L0 throttle is toggled by simulator actions, batch limits are small so that writes fail with too-large/blocked errors; per-key histories stamped with scheduler event numbers are checked with porcupine against a register with delete",
        "rule": "case = per-task operation scripts + throttle actions at generated scheduling steps + configuration (batch limits, queue capacity 0/2, scheduling policy uniform/PCT) + seeded schedule; errored writes are left out of the history (so a later read of their value is illegal); porcupine Unknown is counted, never reported; distinct = distinct trace hash; non-trivial = at least 6 calls and more than 20 scheduling steps",
        "level_text": "Seeded search over interleavings with a linearizability checker on the recorded history; <= 40 operations per key keeps the check tractable.",
        "note": "Trusted: porcupine v1.3.0; return events are stamped when the task is next scheduled (intervals only widen, so no false alarm can result).",
        "design_ref": "7/C34", "assumptions": E1_ASSUME + ["client tasks and engine workers are released one at a time at yield sites; return events are stamped when the task is next scheduled (intervals can only widen)"],
    },
    "C37": {
        "engine": "dbsim", "level": "exploration", "budget": {"quick": 25, "thorough": 600},
        # a case that stops making progress for 30 s of wall clock (a run takes milliseconds) is replayed
        # alone twice; if it stalls both times it is reported as a violation (class hang), not as harness trouble
        "hang": {"watchdog": 30, "confirm": 2},
        "title": "Operations and Close always finish",
        "technique": "deterministic simulation, bounded liveness: plain operations and transactions from 2-4 tasks with L0 throttle toggles, a tiny commit queue, a shrunk watermark window, and Close issued by one task while the others are mid-operation (operations continue after the close); disk-error variant: one WAL file write (tiny WAL buffer) or the growing of a value-log segment after a first life and a clean reopen fails once; after the fault phase the scheduler drains fairly with simulated time advancing and every call must have returned",
        "rule": "case as C34 plus transactions, commit-queue capacity 2, watermark window 4, optional racing Close; oracle: every call returns (value or error, never a panic) within 8000 scheduling steps / 4 simulated seconds after the last fault, Close returns; a run ending with a call still blocked and nothing enabled is the violation (with the blocked tasks and their last sites); distinct/non-trivial as C34",
        "level_text": "Seeded search over interleavings with a bounded-liveness oracle (progress within a step/time budget once faults stop).",
        "note": "Trusted: the step and time budgets are generous (two orders of magnitude above observed completion); synctest quiescence detection.",
        "design_ref": "7/C37", "assumptions": E1_ASSUME + ["client tasks and engine workers are released one at a time at yield sites; return events are stamped when the task is next scheduled (intervals can only widen)"],
    },
    "C36": {
        "engine": "dbsim", "level": "exploration", "budget": {"quick": 25, "thorough": 600},
        "title": "WAL segment cleanup never removes data still needed",
        "technique": "deterministic simulation with crash images: a real DB whose WAL also carries one or two raft groups (engine.WALStorage on the DB's WAL and manifest); transactional writes, memtable rotation/flush, raft Append/SetHardState/MaybeCompact, WAL watchdog passes with auto-GC, compactions; WAL synced then a process-crash image (or clean reopen) is opened and DB contents and raft logs are compared with models",
        "rule": "case = seeded interleaving of DB writes, raft storage calls, maintenance, watchdog passes and crash/reopen points + configuration swarm; oracle after each reopen: every acknowledged DB write is readable with its exact value; the reopened WALStorage returns every entry above the group's truncation point (later conflicting appends win); distinct = distinct trace hash; non-trivial = at least one crash image with raft appends and accepted DB batches",
        "level_text": "Seeded search over histories x cleanup placement x crash points; oracle = exact accounting of acknowledged writes and an etcd-style log model.",
        "note": "Trusted: crash-image model (WAL synced before the image so user-space buffering, C21's subject, is out of the picture), dump through exact-version reads.",
        "design_ref": "7/C36", "assumptions": E1_ASSUME,
    },
}

# Merge per-engine registries (props_<engine>.py).
import glob as _glob, importlib.util as _ilu, os as _os
for _f in sorted(_glob.glob(_os.path.join(_os.path.dirname(_os.path.abspath(__file__)), "props_*.py"))):
    _spec = _ilu.spec_from_file_location(_os.path.basename(_f)[:-3], _f)
    _m = _ilu.module_from_spec(_spec)
    _spec.loader.exec_module(_m)
    ENGINES.update(getattr(_m, "ENGINES_ADD", {}))
    PROPS.update(getattr(_m, "PROPS_ADD", {}))
