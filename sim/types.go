package sim

import (
	"crypto/sha256"
	"encoding/hex"
	"fmt"
	"os"
	"sort"
	"strings"
	"time"
)

// Op is one generated step of a case: a client operation, a maintenance
// action, a fault or a clock advance. Interpretation is lenient (inapplicable
// steps degrade to no-ops, indices are taken modulo what exists) so that every
// sub-list of a case is executable; this is what makes generic shrinking work.
type Op struct {
	K string `json:"k"`
	A int64  `json:"a,omitempty"`
	B int64  `json:"b,omitempty"`
	C int64  `json:"c,omitempty"`
	D int64  `json:"d,omitempty"`
	S string `json:"s,omitempty"`
}

func (o Op) String() string {
	s := fmt.Sprintf("%s(%d,%d,%d,%d", o.K, o.A, o.B, o.C, o.D)
	if o.S != "" {
		s += "," + o.S
	}
	return s + ")"
}

// Case is a complete, replayable description of one simulated run.
type Case struct {
	Property string           `json:"property"`
	Engine   string           `json:"engine"`
	Seed     uint64           `json:"seed"`
	Run      int              `json:"run"`
	Cfg      map[string]int64 `json:"config"`
	Ops      []Op             `json:"steps"`
	// Sched is the recorded list of scheduler choices (task released at each
	// scheduling point, as an index into the enabled set). When it runs out the
	// scheduler continues from the PRNG stream derived from (Seed, Run).
	Sched []int `json:"sched,omitempty"`
}

func (c *Case) Clone() *Case {
	n := *c
	n.Cfg = make(map[string]int64, len(c.Cfg))
	for k, v := range c.Cfg {
		n.Cfg[k] = v
	}
	n.Ops = append([]Op(nil), c.Ops...)
	n.Sched = append([]int(nil), c.Sched...)
	return &n
}

func (c *Case) CfgInt(k string, def int64) int64 {
	if v, ok := c.Cfg[k]; ok {
		return v
	}
	return def
}

// Violation is one oracle failure. Class+Sig identify the kind of failure (used
// for known-finding matching and for "same violation" during shrinking);
// Detail is free text for humans.
type Violation struct {
	Class  string            `json:"class"`
	Sig    map[string]string `json:"signature,omitempty"`
	Detail string            `json:"detail"`
	Step   int               `json:"step"`
}

// Key renders class and signature canonically.
func (v Violation) Key() string {
	ks := make([]string, 0, len(v.Sig))
	for k := range v.Sig {
		ks = append(ks, k)
	}
	sort.Strings(ks)
	var b strings.Builder
	b.WriteString(v.Class)
	for _, k := range ks {
		b.WriteString(";" + k + "=" + v.Sig[k])
	}
	return b.String()
}

// Result is what one execution reports.
type Result struct {
	Violations []Violation
	Trace      *Trace
	Faults     map[string]int // fault kinds that actually fired
	Probes     map[string]int // rare-condition probes that were hit
	SimTime    time.Duration
	Steps      int
	Sched      []int
	Nontrivial bool
	// Checks counts oracle comparisons evaluated in this run.
	Checks int
}

func NewResult() *Result {
	return &Result{Trace: NewTrace(), Faults: map[string]int{}, Probes: map[string]int{}}
}

func (r *Result) Violate(step int, class string, sig map[string]string, format string, a ...any) {
	if len(r.Violations) >= 64 {
		return
	}
	r.Violations = append(r.Violations, Violation{Class: class, Sig: sig, Detail: fmt.Sprintf(format, a...), Step: step})
}

// Trace is an order-sensitive hash of the events of a run plus a bounded
// sample of their text. Logging never touches the PRNG or a clock.
type Trace struct {
	h     [32]byte
	n     int
	first []string
	last  []string
}

func NewTrace() *Trace { return &Trace{} }

// DumpTrace (debug aid, set from VERIF_DUMPTRACE) prints every trace line to stderr.
var DumpTrace = os.Getenv("VERIF_DUMPTRACE") != ""

func (t *Trace) Add(format string, a ...any) {
	s := fmt.Sprintf(format, a...)
	if DumpTrace {
		fmt.Fprintln(os.Stderr, "TRACE", s)
	}
	d := sha256.New()
	d.Write(t.h[:])
	d.Write([]byte(s))
	copy(t.h[:], d.Sum(nil))
	t.n++
	if len(t.first) < 40 {
		t.first = append(t.first, s)
	} else {
		t.last = append(t.last, s)
		if len(t.last) > 40 {
			t.last = t.last[1:]
		}
	}
}

func (t *Trace) Hash() string { return hex.EncodeToString(t.h[:8]) }
func (t *Trace) Len() int     { return t.n }
func (t *Trace) Sample() []string {
	out := append([]string(nil), t.first...)
	if len(t.last) > 0 {
		out = append(out, "...")
		out = append(out, t.last...)
	}
	return out
}
