// Package sim is the deterministic-simulation kernel shared by all harnesses:
// seeded PRNG, case/tape types, task scheduler, simulated file system with
// crash images, delta-debugging shrinker, replay files and the worker loop.
package sim

// Rand is a small splitmix64/xorshift PRNG. Every random choice of a run is
// drawn from one Rand derived from (VERIF_SEED, run index, stream).
type Rand struct{ s uint64 }

func mix(z uint64) uint64 {
	z += 0x9e3779b97f4a7c15
	z = (z ^ (z >> 30)) * 0xbf58476d1ce4e5b9
	z = (z ^ (z >> 27)) * 0x94d049bb133111eb
	return z ^ (z >> 31)
}

// NewRand derives an independent stream.
func NewRand(seed uint64, run int, stream uint64) *Rand {
	s := mix(seed) ^ mix(uint64(run)*0x9e3779b97f4a7c15+stream*0xda942042e4dd58b5+1)
	if s == 0 {
		s = 1
	}
	return &Rand{s: s}
}

func (r *Rand) Uint64() uint64 {
	r.s += 0x9e3779b97f4a7c15
	z := r.s
	z = (z ^ (z >> 30)) * 0xbf58476d1ce4e5b9
	z = (z ^ (z >> 27)) * 0x94d049bb133111eb
	return z ^ (z >> 31)
}

// Intn returns a value in [0,n); n<=0 yields 0.
func (r *Rand) Intn(n int) int {
	if n <= 1 {
		return 0
	}
	return int(r.Uint64() % uint64(n))
}

func (r *Rand) Int63n(n int64) int64 {
	if n <= 1 {
		return 0
	}
	return int64(r.Uint64() % uint64(n))
}

// Chance returns true with probability num/den.
func (r *Rand) Chance(num, den int) bool { return r.Intn(den) < num }

// Pick returns one of the given ints.
func (r *Rand) Pick(xs ...int) int { return xs[r.Intn(len(xs))] }

// Pick64 returns one of the given values.
func (r *Rand) Pick64(xs ...int64) int64 { return xs[r.Intn(len(xs))] }

// Perm returns a permutation of [0,n).
func (r *Rand) Perm(n int) []int {
	p := make([]int, n)
	for i := range p {
		p[i] = i
	}
	for i := n - 1; i > 0; i-- {
		j := r.Intn(i + 1)
		p[i], p[j] = p[j], p[i]
	}
	return p
}

// PickS returns one of the given strings.
func (r *Rand) PickS(xs ...string) string { return xs[r.Intn(len(xs))] }
