package sim

import (
	"runtime"
	"sort"
	"sync"
	"sync/atomic"
	"testing/synctest"
)

// Task is a real goroutine that only runs when the scheduler releases it and
// that hands control back at its next yield point.
type Task struct {
	ID     int
	Name   string
	Site   string // last yield site
	wake   chan struct{}
	parked bool
	done   bool
	// Data is free for the harness (e.g. the operation the task is executing).
	Data any
	// Blocked is set by harness code to mark a task that is waiting for the SUT
	// (not parked, not done) — used only for diagnostics.
}

// Sched releases exactly one parked task at a time; which one is decided by
// the choice tape (recorded schedule) or, when it is exhausted, by the PRNG.
// synctest.Wait is the quiescence detector between two scheduling steps.
type Sched struct {
	mu       sync.Mutex
	tasks    []*Task
	byG      map[uint64]*Task
	root     uint64
	pass     atomic.Bool
	rng      *Rand
	tape     []int
	pos      int
	Recorded []int
	Trace    *Trace
	// Ignore, when set, makes yields at the given site pass through.
	Ignore func(site string) bool
	Steps  int

	// PCT scheduling (Burckhardt et al., ASPLOS 2010): every task gets a random
	// priority when it first appears, the enabled task with the highest priority
	// runs, and at a few pre-drawn step numbers the running task drops to the
	// lowest priority. Unlike uniform choice this keeps one task paused for a long
	// stretch with non-negligible probability, which ordering bugs of small
	// depth need. All draws go through Choose, so a recorded run replays.
	// PauseAt (with PCT): when the task about to run is parked at one of these
	// sites it is, with probability 1/PauseOdds, dropped to the lowest priority
	// instead - change points biased towards the windows the properties are about.
	PauseAt   map[string]bool
	PauseOdds int
	// PauseBudget > 0 bounds the number of site-biased demotions per run (as PCT
	// bounds its change points): once spent, a demoted task stays below the
	// others until they block or finish, however many pause sites they cross.
	PauseBudget int
	pausesDone  int
	// Hold (one long preemption): the task named HoldTask is, at its HoldNth park
	// (counting only parks at HoldSite when that is set), kept off the schedule
	// for as long as any other task that is not a lock-waiter is enabled. With
	// HoldFirst the held task also runs before everything else until it gets
	// there, so that the others execute entirely inside its pause.
	HoldTask  string
	HoldSite  string
	HoldNth   int
	HoldFirst bool
	holdSeen  int
	holding   *Task
	holdDone  bool
	holdIdle  int
	pct       bool
	pctPrio   map[int]int
	pctChange map[int]bool
	pctLow    int
}

// UsePCT switches the scheduler to PCT with the given depth and step horizon.
func (s *Sched) UsePCT(depth, horizon int) {
	s.pct = true
	s.pctPrio = map[int]int{}
	s.pctChange = map[int]bool{}
	if horizon < 1 {
		horizon = 1
	}
	for i := 0; i < depth-1; i++ {
		s.pctChange[s.Choose(horizon)] = true
	}
}

// NewSched must be called on the bubble's root goroutine.
func NewSched(rng *Rand, tape []int, tr *Trace) *Sched {
	return &Sched{byG: map[uint64]*Task{}, root: curGID(), rng: rng, tape: tape, Trace: tr}
}

func curGID() uint64 {
	var buf [64]byte
	n := runtime.Stack(buf[:], false)
	// "goroutine 123 ["
	var id uint64
	for i := len("goroutine "); i < n; i++ {
		c := buf[i]
		if c < '0' || c > '9' {
			break
		}
		id = id*10 + uint64(c-'0')
	}
	return id
}

// Go starts fn as a task; it stays parked until first released.
func (s *Sched) Go(name string, fn func()) *Task {
	t := &Task{Name: name, wake: make(chan struct{})}
	s.mu.Lock()
	t.ID = len(s.tasks)
	s.tasks = append(s.tasks, t)
	s.mu.Unlock()
	go func() {
		gid := curGID()
		s.mu.Lock()
		s.byG[gid] = t
		t.parked = true
		t.Site = "start"
		s.mu.Unlock()
		<-t.wake
		defer func() {
			s.mu.Lock()
			t.done = true
			t.parked = false
			delete(s.byG, gid)
			s.mu.Unlock()
		}()
		fn()
	}()
	return t
}

// Yield is installed as verifhook.YieldFn.
func (s *Sched) Yield(owner any, site string) {
	if s.pass.Load() {
		return
	}
	if s.Ignore != nil && s.Ignore(site) {
		return
	}
	gid := curGID()
	if gid == s.root {
		return
	}
	s.mu.Lock()
	if s.pass.Load() {
		s.mu.Unlock()
		return
	}
	t := s.byG[gid]
	if t == nil {
		// An engine worker (or a goroutine the SUT spawned) reaching its first
		// yield site becomes a task named after that site.
		t = &Task{Name: "w:" + site, wake: make(chan struct{})}
		t.ID = len(s.tasks)
		s.tasks = append(s.tasks, t)
		s.byG[gid] = t
	}
	t.parked = true
	t.Site = site
	if s.HoldTask != "" && !s.holdDone && s.holding == nil && t.Name == s.HoldTask && (s.HoldSite == "" || s.HoldSite == site) {
		s.holdSeen++
		if s.holdSeen == s.HoldNth {
			s.holding = t
		}
	}
	s.mu.Unlock()
	<-t.wake
}

// BeforeLock is installed as verifhook.BeforeLockFn: a task parks instead of
// blocking on a contended lock (a goroutine blocked on a sync.Mutex is not
// durably blocked for synctest).
func (s *Sched) BeforeLock(l interface {
	TryLock() bool
	Unlock()
}) {
	if s.pass.Load() {
		return
	}
	if curGID() == s.root {
		return
	}
	// Every hooked lock acquisition is a scheduling point, contended or not: a
	// task can be preempted between releasing one lock and taking the next.
	s.Yield(nil, "lock.pre")
	for !l.TryLock() {
		if s.pass.Load() {
			return
		}
		s.Yield(nil, "lockwait")
	}
	l.Unlock()
}

// Enabled lists the parked tasks in creation order.
func (s *Sched) Enabled() []*Task {
	s.mu.Lock()
	defer s.mu.Unlock()
	var out []*Task
	for _, t := range s.tasks {
		if t.parked && !t.done {
			out = append(out, t)
		}
	}
	sort.Slice(out, func(i, j int) bool { return out[i].ID < out[j].ID })
	return out
}

// Done reports whether t has finished.
func (s *Sched) Done(t *Task) bool {
	s.mu.Lock()
	defer s.mu.Unlock()
	return t.done
}

// Parked reports whether t is parked at a yield site.
func (s *Sched) Parked(t *Task) bool {
	s.mu.Lock()
	defer s.mu.Unlock()
	return t.parked && !t.done
}

// Choose returns a value in [0,n) from the tape (modulo n) or the PRNG and records it.
func (s *Sched) Choose(n int) int {
	if n <= 0 {
		return 0
	}
	var c int
	if s.pos < len(s.tape) {
		c = s.tape[s.pos] % n
		if c < 0 {
			c = -c
		}
	} else {
		c = s.rng.Intn(n)
	}
	s.pos++
	s.Recorded = append(s.Recorded, c)
	return c
}

// Release lets t run until it parks again, finishes or blocks on the SUT.
func (s *Sched) Release(t *Task) {
	s.mu.Lock()
	if !t.parked || t.done {
		s.mu.Unlock()
		return
	}
	t.parked = false
	site := t.Site
	s.mu.Unlock()
	s.Steps++
	if s.Trace != nil {
		s.Trace.Add("run %s@%s", t.Name, site)
	}
	t.wake <- struct{}{}
	synctest.Wait()
}

// Held returns the task currently kept off the schedule by Hold (nil if none);
// EndHold gives the pause up. For harnesses with their own stepping loop.
func (s *Sched) Held() *Task {
	s.mu.Lock()
	defer s.mu.Unlock()
	if s.holdDone {
		return nil
	}
	return s.holding
}

func (s *Sched) EndHold() {
	s.mu.Lock()
	s.holdDone = true
	s.mu.Unlock()
}

// StepAny releases one enabled task chosen by the tape; false if none is enabled.
func (s *Sched) StepAny() bool {
	en := s.Enabled()
	if len(en) == 0 {
		return false
	}
	if s.HoldTask != "" && !s.holdDone {
		if s.holding != nil {
			// keep the held task out while somebody else can make progress
			var others []*Task
			progress := false
			for _, t := range en {
				if t != s.holding {
					others = append(others, t)
					if t.Site != "lockwait" {
						progress = true
					}
				}
			}
			switch {
			case progress:
				en = others
				s.holdIdle = 0
			case s.holdIdle < 40:
				// Nobody else is enabled right now, but somebody may be sleeping on the
				// fake clock (batch coalescing, throttle polls): report "nothing to
				// run" so that the caller lets simulated time pass, a bounded number
				// of times, before the pause is given up.
				s.holdIdle++
				return false
			default:
				s.holdDone = true // nobody else can run: the pause ends here
			}
		} else if s.HoldFirst {
			for _, t := range en {
				if t.Name == s.HoldTask {
					s.Release(t)
					return true
				}
			}
		}
	}
	if !s.pct {
		s.Release(en[s.Choose(len(en))])
		return true
	}
	var best *Task
	for _, t := range en {
		if _, ok := s.pctPrio[t.ID]; !ok {
			s.pctPrio[t.ID] = 1 + s.Choose(1000)
		}
		// A task spinning on a contended lock (parked at "lockwait") only makes
		// progress after the holder ran: it yields to every other enabled task.
		if t.Site == "lockwait" {
			continue
		}
		if best == nil || s.pctPrio[t.ID] > s.pctPrio[best.ID] {
			best = t
		}
	}
	if best == nil {
		// only lock-waiters are enabled: rotate among them
		best = en[s.Steps%len(en)]
	}
	if s.pctChange[s.Steps] {
		s.pctLow--
		s.pctPrio[best.ID] = s.pctLow
	} else if s.PauseOdds > 0 && s.PauseAt[best.Site] && len(en) > 1 && (s.PauseBudget == 0 || s.pausesDone < s.PauseBudget) && s.Choose(s.PauseOdds) == 0 {
		s.pausesDone++
		s.pctLow--
		s.pctPrio[best.ID] = s.pctLow
		// re-pick once among the others
		var alt *Task
		for _, t := range en {
			if t == best || t.Site == "lockwait" {
				continue
			}
			if alt == nil || s.pctPrio[t.ID] > s.pctPrio[alt.ID] {
				alt = t
			}
		}
		if alt != nil {
			best = alt
		}
	}
	s.Release(best)
	return true
}

// Find returns the first task whose name matches.
func (s *Sched) Find(name string) *Task {
	s.mu.Lock()
	defer s.mu.Unlock()
	for _, t := range s.tasks {
		if t.Name == name && !t.done {
			return t
		}
	}
	return nil
}

// Passthrough turns every yield into a no-op and releases all parked tasks;
// used before Close so that workers can exit.
func (s *Sched) Passthrough() {
	s.mu.Lock()
	s.pass.Store(true)
	var wake []*Task
	for _, t := range s.tasks {
		if t.parked && !t.done {
			t.parked = false
			wake = append(wake, t)
		}
	}
	s.mu.Unlock()
	for _, t := range wake {
		t.wake <- struct{}{}
	}
	synctest.Wait()
}

// Current returns the task of the calling goroutine (nil for the root or an unknown goroutine).
func (s *Sched) Current() *Task {
	gid := curGID()
	s.mu.Lock()
	defer s.mu.Unlock()
	return s.byG[gid]
}

// AllDone reports whether every task started with Go has finished.
func (s *Sched) AllDone(ts []*Task) bool {
	s.mu.Lock()
	defer s.mu.Unlock()
	for _, t := range ts {
		if !t.done {
			return false
		}
	}
	return true
}
