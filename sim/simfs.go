package sim

import (
	"fmt"
	"io"
	"os"
	"path/filepath"
	"strings"
	"sync"

	"github.com/feichai0017/NoKV/vfs"
)

// FSEvent describes one file-system call seen by SimFS.
type FSEvent struct {
	Seq    int    // index among state-changing calls (crash points)
	Op     string // create, write, writeat, truncate, rename, remove, writefile, mkdir, sync, close
	Class  string // path class: wal, sst, manifest, current, vlog, lock, other
	ClassN int    // per-(op,class) counter
	Path   string // path relative to the root
	Size   int64
	Off    int64
}

func (e FSEvent) String() string {
	return fmt.Sprintf("#%d %s %s[%d] %s size=%d off=%d", e.Seq, e.Op, e.Class, e.ClassN, e.Path, e.Size, e.Off)
}

// SimFS wraps the real file system under one root directory. It records every
// state-changing call (each one is a crash point), can cut process-crash
// images of the directory at chosen points (including page-torn final writes),
// yields to the scheduler at chosen calls and can inject I/O errors.
type SimFS struct {
	vfs.OSFS
	Root string

	mu      sync.Mutex
	seq     int
	counts  map[string]int
	Events  int // state-changing calls
	Syncs   int
	ByClass map[string]int

	// BeforeMutation, when set, is called (with the lock held: all other FS
	// calls wait) before state-changing call ev executes. torn is -1, or for a
	// write crossing a page boundary the number of bytes that arrive first; the
	// hook is then called a second time, after that prefix has been written.
	BeforeMutation func(ev FSEvent, torn int64)
	// Trace receives one line per state-changing call.
	Trace *Trace
	// Fail, when set, may return an error to inject for ev.
	Fail func(ev FSEvent) error
	// Hook is called without the lock before any call (used for yields).
	Hook func(op, path string)
	// Quiet suppresses recording (e.g. during setup).
	Quiet bool
}

func NewSimFS(root string) *SimFS {
	return &SimFS{Root: root, counts: map[string]int{}, ByClass: map[string]int{}}
}

// Classify maps a path to a coarse class used in fault designators and
// evidence (names, not global indices, so map-order jitter does not move them).
func Classify(p string) string {
	b := filepath.Base(p)
	switch {
	case strings.HasSuffix(b, ".wal"):
		return "wal"
	case strings.HasSuffix(b, ".sst"):
		return "sst"
	case strings.HasPrefix(b, "MANIFEST"):
		return "manifest"
	case strings.HasPrefix(b, "CURRENT"):
		return "current"
	case strings.HasSuffix(b, ".vlog"):
		return "vlog"
	case b == "LOCK":
		return "lock"
	case strings.Contains(p, "vlog"):
		return "vlogdir"
	}
	return "other"
}

func (fs *SimFS) rel(p string) string {
	if r, err := filepath.Rel(fs.Root, p); err == nil && !strings.HasPrefix(r, "..") {
		return r
	}
	return p
}

// mutate registers a state-changing call; returns the event and an injected error.
func (fs *SimFS) mutate(op, path string, size, off int64, tornAt int64, afterPrefix func() error) (FSEvent, error) {
	if fs.Hook != nil {
		fs.Hook(op, path)
	}
	fs.mu.Lock()
	defer fs.mu.Unlock()
	cls := Classify(path)
	key := op + ":" + cls
	ev := FSEvent{Seq: fs.seq, Op: op, Class: cls, ClassN: fs.counts[key], Path: fs.rel(path), Size: size, Off: off}
	if fs.Quiet {
		return ev, nil
	}
	fs.seq++
	fs.counts[key]++
	fs.Events++
	fs.ByClass[key]++
	if fs.Trace != nil {
		// Sizes of manifest appends are left out of the trace: the engine logs
		// value-log heads of several buckets in Go map order (vlog.go updateHead),
		// which cannot be pinned; the events keep their class and counter.
		tsize, tpath := size, ev.Path
		if cls == "manifest" {
			tsize = 0
		}
		if cls == "vlog" || cls == "vlogdir" {
			// value-log buckets are visited in Go map order (vlog.write, close)
			tsize, tpath = 0, cls
		}
		fs.Trace.Add("fs %s %s[%d] %s %d", op, cls, ev.ClassN, tpath, tsize)
	}
	if fs.Fail != nil {
		if err := fs.Fail(ev); err != nil {
			return ev, err
		}
	}
	if fs.BeforeMutation != nil {
		fs.BeforeMutation(ev, -1)
		if tornAt > 0 && afterPrefix != nil {
			if err := afterPrefix(); err != nil {
				return ev, err
			}
			fs.BeforeMutation(ev, tornAt)
		}
	}
	return ev, nil
}

func (fs *SimFS) OpenHandle(name string) (vfs.File, error) {
	if fs.Hook != nil {
		fs.Hook("open", name)
	}
	f, err := os.Open(name)
	if err != nil {
		return nil, err
	}
	return &simFile{File: f, fs: fs, path: name}, nil
}

func (fs *SimFS) OpenFileHandle(name string, flag int, perm os.FileMode) (vfs.File, error) {
	creates := false
	if flag&os.O_CREATE != 0 {
		if _, err := os.Stat(name); err != nil {
			creates = true
		}
	}
	if creates || flag&os.O_TRUNC != 0 {
		if _, err := fs.mutate("create", name, 0, 0, 0, nil); err != nil {
			return nil, err
		}
	} else if fs.Hook != nil {
		fs.Hook("open", name)
	}
	f, err := os.OpenFile(name, flag, perm)
	if err != nil {
		return nil, err
	}
	return &simFile{File: f, fs: fs, path: name, app: flag&os.O_APPEND != 0}, nil
}

func (fs *SimFS) MkdirAll(path string, perm os.FileMode) error {
	if _, err := os.Stat(path); err == nil {
		return nil
	}
	if _, err := fs.mutate("mkdir", path, 0, 0, 0, nil); err != nil {
		return err
	}
	return os.MkdirAll(path, perm)
}

func (fs *SimFS) RemoveAll(path string) error {
	if _, err := fs.mutate("removeall", path, 0, 0, 0, nil); err != nil {
		return err
	}
	return os.RemoveAll(path)
}

func (fs *SimFS) Remove(name string) error {
	if _, err := fs.mutate("remove", name, 0, 0, 0, nil); err != nil {
		return err
	}
	return os.Remove(name)
}

func (fs *SimFS) Rename(oldPath, newPath string) error {
	if _, err := fs.mutate("rename", newPath, 0, 0, 0, nil); err != nil {
		return err
	}
	return os.Rename(oldPath, newPath)
}

func (fs *SimFS) WriteFile(name string, data []byte, perm os.FileMode) error {
	if _, err := fs.mutate("writefile", name, int64(len(data)), 0, 0, nil); err != nil {
		return err
	}
	return os.WriteFile(name, data, perm)
}

func (fs *SimFS) Truncate(name string, size int64) error {
	if _, err := fs.mutate("truncate", name, size, 0, 0, nil); err != nil {
		return err
	}
	return os.Truncate(name, size)
}

type simFile struct {
	*os.File
	fs   *SimFS
	path string
	app  bool
}

// OSFile lets vfs.UnwrapOSFile reach the descriptor (mmap stores need it).
func (f *simFile) OSFile() *os.File { return f.File }

const pageSize = 4096

func (f *simFile) Write(p []byte) (int, error) {
	var off int64
	if f.app {
		if st, err := f.File.Stat(); err == nil {
			off = st.Size()
		}
	} else {
		off, _ = f.File.Seek(0, io.SeekCurrent)
	}
	// A fatal signal can interrupt write(2) between pages: offer the prefix up
	// to the last page boundary inside the write as a torn variant.
	var torn int64
	if end := off + int64(len(p)); end/pageSize > off/pageSize {
		b := (end / pageSize) * pageSize
		if b > off && b < end {
			torn = b - off
		}
	}
	wrote := 0
	_, err := f.fs.mutate("write", f.path, int64(len(p)), off, torn, func() error {
		n, err := f.File.Write(p[:torn])
		wrote = n
		return err
	})
	if err != nil {
		return wrote, err
	}
	n, err := f.File.Write(p[wrote:])
	return wrote + n, err
}

func (f *simFile) WriteAt(p []byte, off int64) (int, error) {
	if _, err := f.fs.mutate("writeat", f.path, int64(len(p)), off, 0, nil); err != nil {
		return 0, err
	}
	return f.File.WriteAt(p, off)
}

func (f *simFile) Truncate(size int64) error {
	if _, err := f.fs.mutate("truncate", f.path, size, 0, 0, nil); err != nil {
		return err
	}
	return f.File.Truncate(size)
}

func (f *simFile) Sync() error {
	if f.fs.Hook != nil {
		f.fs.Hook("sync", f.path)
	}
	f.fs.mu.Lock()
	f.fs.Syncs++
	f.fs.mu.Unlock()
	return f.File.Sync()
}

func (f *simFile) Close() error {
	if f.fs.Hook != nil {
		f.fs.Hook("close", f.path)
	}
	return f.File.Close()
}

// CopyTree copies a directory tree (regular files and directories) — the
// process-crash image: what the kernel has, including MAP_SHARED stores;
// user-space buffers are by construction not in it. LOCK files are skipped.
func CopyTree(src, dst string) error {
	return filepath.Walk(src, func(p string, info os.FileInfo, err error) error {
		if err != nil {
			if os.IsNotExist(err) {
				return nil
			}
			return err
		}
		rel, _ := filepath.Rel(src, p)
		target := filepath.Join(dst, rel)
		if info.IsDir() {
			return os.MkdirAll(target, 0o755)
		}
		if !info.Mode().IsRegular() || info.Name() == "LOCK" {
			return nil
		}
		data, err := os.ReadFile(p)
		if err != nil {
			if os.IsNotExist(err) {
				return nil
			}
			return err
		}
		return os.WriteFile(target, data, 0o644)
	})
}
