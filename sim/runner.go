package sim

import (
	"encoding/json"
	"flag"
	"fmt"
	"os"
	"path/filepath"
	"runtime"
	"runtime/debug"
	"sort"
	"strings"
	"sync/atomic"
	"testing"
	"time"
)

var (
	flagProp     = flag.String("verif.prop", "", "property id")
	flagSeed     = flag.Uint64("verif.seed", 1, "VERIF_SEED")
	flagFrom     = flag.Int("verif.from", 0, "first run index")
	flagStride   = flag.Int("verif.stride", 1, "run index stride (number of workers)")
	flagMax      = flag.Int("verif.max", 1<<30, "max runs for this worker")
	flagBudget   = flag.Float64("verif.budget", 30, "wall-clock budget in seconds")
	flagTier     = flag.String("verif.tier", "quick", "quick|thorough")
	flagOut      = flag.String("verif.out", "", "JSONL output file")
	flagReplay   = flag.String("verif.replay", "", "replay file to execute instead of generating")
	flagKnown    = flag.String("verif.known", "", "known findings file (read-only)")
	flagWatchdog = flag.Int("verif.watchdog", 180, "seconds without progress before the process gives up (exit 2)")
	flagRepDir   = flag.String("verif.replaydir", "/verif/replays", "directory for replay files")
	flagTrace    = flag.Bool("verif.trace", false, "print per-run trace hash lines (determinism self-test)")
	flagScratch  = flag.String("verif.scratch", "", "scratch root (default /dev/shm/verif-<pid>)")
)

// PropSpec binds a property to its generator and executor.
type PropSpec struct {
	// Gen builds the case for (seed, run). All randomness comes from r.
	Gen func(r *Rand, tier string) *Case
	// Exec executes a case (inside its own synctest bubble where applicable)
	// and evaluates the oracle. It must not draw randomness except through the
	// case (Sched fallback stream is derived from the case seed/run).
	Exec func(t *testing.T, c *Case) *Result
	// NoShrink disables minimisation (e.g. enumerations whose case is already minimal).
	NoShrink bool
}

// KnownFinding is one entry of /verif/known_findings.json.
type KnownFinding struct {
	Property string            `json:"property"`
	Status   string            `json:"status"` // "open" or "fixed"
	Class    string            `json:"class"`
	Sig      map[string]string `json:"signature"`
	What     string            `json:"what"`
	Commit   string            `json:"commit,omitempty"`
}

func (k KnownFinding) Matches(prop string, v Violation) bool {
	if k.Status != "open" || k.Property != prop {
		return false
	}
	classOK := false
	for _, alt := range strings.Split(k.Class, "|") {
		if alt == v.Class {
			classOK = true
		}
	}
	if !classOK {
		return false
	}
	for a, b := range k.Sig {
		ok := false
		for _, alt := range strings.Split(b, "|") {
			if v.Sig[a] == alt {
				ok = true
			}
		}
		if !ok {
			return false
		}
	}
	return true
}

// Scratch returns the per-process scratch root on tmpfs.
func Scratch() string {
	if *flagScratch != "" {
		return *flagScratch
	}
	return fmt.Sprintf("/dev/shm/verif-%d", os.Getpid())
}

var heartbeat atomic.Int64

// Beat tells the real-time watchdog that the run is making progress.
func Beat() { heartbeat.Add(1) }

func startWatchdog(limit time.Duration) {
	go func() {
		last := heartbeat.Load()
		lastChange := time.Now()
		for {
			time.Sleep(2 * time.Second)
			cur := heartbeat.Load()
			if cur != last {
				last, lastChange = cur, time.Now()
				continue
			}
			if time.Since(lastChange) > limit {
				buf := make([]byte, 1<<20)
				n := runtime.Stack(buf, true)
				fmt.Fprintf(os.Stderr, "VERIF-WATCHDOG: no progress for %v (harness defect, exit 2)\n%s\n", limit, buf[:n])
				os.Exit(2)
			}
		}
	}()
}

type outWriter struct{ f *os.File }

func (o *outWriter) emit(v any) {
	b, _ := json.Marshal(v)
	if o.f != nil {
		o.f.Write(append(b, '\n'))
	} else {
		fmt.Println(string(b))
	}
}

// ReplayFile is the on-disk format of a reported failure.
type ReplayFile struct {
	Case      *Case     `json:"case"`
	Violation Violation `json:"violation"`
	TraceHash string    `json:"trace_hash"`
	Trace     []string  `json:"trace"`
	Shrunk    bool      `json:"minimised"`
	OrigSteps int       `json:"original_steps"`
}

// Main is the body of every harness's TestVerif.
func Main(t *testing.T, engine string, props map[string]PropSpec) {
	debug.SetGCPercent(200)
	spec, ok := props[*flagProp]
	if !ok {
		if *flagProp == "" {
			t.Skip("no -verif.prop given")
		}
		fmt.Fprintf(os.Stderr, "unknown property %q for engine %s\n", *flagProp, engine)
		os.Exit(2)
	}
	out := &outWriter{}
	if *flagOut != "" {
		f, err := os.Create(*flagOut)
		if err != nil {
			fmt.Fprintln(os.Stderr, err)
			os.Exit(2)
		}
		defer f.Close()
		out.f = f
	}
	var known []KnownFinding
	if *flagKnown != "" {
		if b, err := os.ReadFile(*flagKnown); err == nil {
			_ = json.Unmarshal(b, &known)
		}
	}
	isKnown := func(v Violation) bool {
		for _, k := range known {
			if k.Matches(*flagProp, v) {
				return true
			}
		}
		return false
	}
	_ = os.MkdirAll(Scratch(), 0o755)
	defer os.RemoveAll(Scratch())
	startWatchdog(time.Duration(*flagWatchdog) * time.Second)

	if *flagReplay != "" {
		b, err := os.ReadFile(*flagReplay)
		if err != nil {
			fmt.Fprintln(os.Stderr, err)
			os.Exit(2)
		}
		var rf ReplayFile
		if err := json.Unmarshal(b, &rf); err != nil || rf.Case == nil {
			fmt.Fprintln(os.Stderr, "bad replay file:", err)
			os.Exit(2)
		}
		res := spec.Exec(t, rf.Case)
		same := false
		for _, v := range res.Violations {
			if v.Key() == rf.Violation.Key() {
				same = true
			}
		}
		out.emit(map[string]any{"t": "replay", "reproduced": same, "violations": res.Violations,
			"trace_hash": res.Trace.Hash(), "recorded_trace_hash": rf.TraceHash, "trace": res.Trace.Sample()})
		return
	}

	start := time.Now()
	budget := time.Duration(*flagBudget * float64(time.Second))
	hashes := map[string]struct{}{}
	ntHashes := map[string]struct{}{}
	faults := map[string]int{}
	probes := map[string]int{}
	var samples []any
	var simTime time.Duration
	runs, steps, checks, nviol := 0, 0, 0, 0
	seenKeys := map[string]int{}
	curPath := ""
	if *flagOut != "" {
		curPath = *flagOut + ".cur"
	}
	for i := 0; i < *flagMax; i++ {
		if time.Since(start) > budget && runs > 0 {
			break
		}
		idx := *flagFrom + i**flagStride
		r := NewRand(*flagSeed, idx, 0)
		c := spec.Gen(r, *flagTier)
		c.Property, c.Engine, c.Seed, c.Run = *flagProp, engine, *flagSeed, idx
		if curPath != "" {
			b, _ := json.Marshal(c)
			_ = os.WriteFile(curPath, b, 0o644)
		}
		Beat()
		res := spec.Exec(t, c)
		Beat()
		runs++
		steps += res.Steps
		checks += res.Checks
		simTime += res.SimTime
		h := res.Trace.Hash()
		hashes[h] = struct{}{}
		if res.Nontrivial {
			ntHashes[h] = struct{}{}
		}
		for k, v := range res.Faults {
			faults[k] += v
		}
		for k, v := range res.Probes {
			probes[k] += v
		}
		if *flagTrace {
			out.emit(map[string]any{"t": "run", "idx": idx, "hash": h, "steps": res.Steps, "nviol": len(res.Violations), "events": res.Trace.Len()})
		}
		if len(samples) < 2 && res.Nontrivial {
			samples = append(samples, map[string]any{"run": idx, "config": c.Cfg, "steps": opsStrings(c.Ops, 60),
				"trace_events": res.Trace.Len(), "trace_head": head(res.Trace.Sample(), 25), "violations": len(res.Violations)})
		}
		// Report each distinct violation key at most a few times per worker.
		done := map[string]bool{}
		for _, v := range res.Violations {
			nviol++
			key := v.Key()
			if done[key] {
				continue
			}
			done[key] = true
			seenKeys[key]++
			if seenKeys[key] > 2 {
				out.emit(map[string]any{"t": "viol", "run": idx, "key": key, "class": v.Class, "sig": v.Sig, "detail": v.Detail, "replay": "", "dup": true})
				continue
			}
			rf := &ReplayFile{Case: c.Clone(), Violation: v, TraceHash: h, Trace: res.Trace.Sample(), OrigSteps: len(c.Ops)}
			rf.Case.Sched = res.Sched
			if !spec.NoShrink && !isKnown(v) && seenKeys[key] == 1 {
				if mc, mres := Shrink(t, rf.Case, key, spec.Exec, 250, 90*time.Second); mc != nil {
					rf.Case, rf.Shrunk = mc, true
					rf.TraceHash, rf.Trace = mres.Trace.Hash(), mres.Trace.Sample()
					for _, mv := range mres.Violations {
						if mv.Key() == key {
							rf.Violation = mv
							break
						}
					}
				}
			}
			_ = os.MkdirAll(*flagRepDir, 0o755)
			path := filepath.Join(*flagRepDir, fmt.Sprintf("%s-%d-%d-%s.json", *flagProp, *flagSeed, idx, shortHash(key)))
			b, _ := json.MarshalIndent(rf, "", " ")
			_ = os.WriteFile(path, b, 0o644)
			out.emit(map[string]any{"t": "viol", "run": idx, "key": key, "class": v.Class, "sig": v.Sig, "detail": v.Detail, "replay": path})
		}
	}
	hs := make([]string, 0, len(hashes))
	for h := range hashes {
		hs = append(hs, h)
	}
	sort.Strings(hs)
	nts := make([]string, 0, len(ntHashes))
	for h := range ntHashes {
		nts = append(nts, h)
	}
	sort.Strings(nts)
	out.emit(map[string]any{"t": "summary", "runs": runs, "steps": steps, "checks": checks, "violations": nviol,
		"hashes": hs, "nontrivial_hashes": nts, "faults": faults, "probes": probes,
		"sim_time_s": simTime.Seconds(), "wall_s": time.Since(start).Seconds(), "samples": samples})
	if curPath != "" {
		_ = os.Remove(curPath)
	}
}

func head(s []string, n int) []string {
	if len(s) > n {
		return s[:n]
	}
	return s
}

func opsStrings(ops []Op, n int) []string {
	var out []string
	for i, o := range ops {
		if i >= n {
			out = append(out, fmt.Sprintf("... %d more", len(ops)-n))
			break
		}
		out = append(out, o.String())
	}
	return out
}

// Shrink minimises a failing case: delta debugging over the step list, then
// per-step simplification, keeping a candidate only when the same violation
// key persists. Returns nil when nothing smaller reproduces.
func Shrink(t *testing.T, c *Case, key string, exec func(*testing.T, *Case) *Result, maxExec int, maxDur time.Duration) (*Case, *Result) {
	start := time.Now()
	execs := 0
	var bestRes *Result
	fails := func(cand *Case) (*Result, bool) {
		if execs >= maxExec || time.Since(start) > maxDur {
			return nil, false
		}
		execs++
		Beat()
		res := exec(t, cand)
		for _, v := range res.Violations {
			if v.Key() == key {
				return res, true
			}
		}
		return nil, false
	}
	best := c.Clone()
	// First confirm the case reproduces with its recorded schedule.
	if res, ok := fails(best); ok {
		bestRes = res
	} else {
		return nil, nil
	}
	// ddmin over steps.
	n := 2
	for len(best.Ops) >= 2 && n <= len(best.Ops)*2 {
		chunk := (len(best.Ops) + n - 1) / n
		if chunk < 1 {
			chunk = 1
		}
		reduced := false
		for startI := 0; startI < len(best.Ops); startI += chunk {
			end := startI + chunk
			if end > len(best.Ops) {
				end = len(best.Ops)
			}
			cand := best.Clone()
			cand.Ops = append(append([]Op(nil), best.Ops[:startI]...), best.Ops[end:]...)
			if res, ok := fails(cand); ok {
				best, bestRes = cand, res
				best.Sched = res.Sched
				reduced = true
				if n > 2 {
					n--
				}
				break
			}
			if execs >= maxExec || time.Since(start) > maxDur {
				return best, bestRes
			}
		}
		if !reduced {
			if chunk == 1 {
				break
			}
			n *= 2
		}
	}
	// Shorten / zero the schedule tape.
	if len(best.Sched) > 0 {
		cand := best.Clone()
		cand.Sched = make([]int, len(best.Sched))
		if res, ok := fails(cand); ok {
			best, bestRes = cand, res
		}
	}
	return best, bestRes
}

func shortHash(s string) string {
	h := uint64(14695981039346656037)
	for i := 0; i < len(s); i++ {
		h ^= uint64(s[i])
		h *= 1099511628211
	}
	return fmt.Sprintf("%08x", uint32(h^(h>>32)))
}
