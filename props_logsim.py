"""Engine E3 (logsim): log-structured components alone, enumeration over cut / flip / crash positions."""

ENGINES_ADD = {
    "logsim": {
        "pkg": "./harness/logsim",
        "kind": "E3: wal.Manager, manifest.Manager, vlog.Manager, raftstore/engine.WALStorage and single SSTs (through a verif-tag lsm accessor) driven synchronously on SimFS / a tmpfs scratch directory; exhaustive enumeration over truncation offsets, single-bit flips and process-crash images of generated small files",
        "real": ["wal.Manager + VerifyDir", "manifest.Manager + Verify", "vlog.Manager + VerifyDir", "raftstore/engine.WALStorage", "lsm tableBuilder/table/tableIterator/block cache/bloom filter (lsm/verif_table_access.go)", "etcd raft MemoryStorage (as the reference model of C21)"],
        "stub": ["disk = real directory on /dev/shm behind SimFS (mmap stores bypass the VFS by design of the SUT)",
                 "no scheduler and no clock: these components have no goroutines or timers of their own"],
    },
}

E3_ASSUME = [
    "process-crash model: kernel-held file contents survive, user-space buffers are lost; power loss and intra-page tears are not modelled",
    "a clean batch is evidence, not proof: artefacts are small (a few KiB per file, <= 60 calls per run)",
]

PROPS_ADD = {
    "C13": {
        "engine": "logsim", "level": "fault_enumeration", "budget": {"quick": 20, "thorough": 600},
        "title": "WAL replays exactly what was appended, tolerating any torn tail",
        "technique": "TODO", "rule": "TODO", "level_text": "TODO", "note": "TODO",
        "design_ref": "7/C13", "assumptions": E3_ASSUME,
    },
    "C14": {
        "engine": "logsim", "level": "fault_enumeration", "budget": {"quick": 20, "thorough": 600},
        "title": "Corrupted log and table bytes are never served as valid data",
        "technique": "TODO", "rule": "TODO", "level_text": "TODO", "note": "TODO",
        "design_ref": "7/C14", "assumptions": E3_ASSUME,
    },
    "C15": {
        "engine": "logsim", "level": "fault_enumeration", "budget": {"quick": 20, "thorough": 600},
        "title": "Manifest reload equals in-memory state across rewrites and crashes",
        "technique": "TODO", "rule": "TODO", "level_text": "TODO", "note": "TODO",
        "design_ref": "7/C15", "assumptions": E3_ASSUME,
    },
    "C21": {
        "engine": "logsim", "level": "exploration", "budget": {"quick": 20, "thorough": 600},
        "title": "Persisted raft state and log survive a process crash",
        "technique": "TODO", "rule": "TODO", "level_text": "TODO", "note": "TODO",
        "design_ref": "7/C21", "assumptions": E3_ASSUME,
    },
    "C35": {
        "engine": "logsim", "level": "exploration", "budget": {"quick": 20, "thorough": 600},
        "title": "SST tables serve exactly the entries they were built from",
        "technique": "TODO", "rule": "TODO", "level_text": "TODO", "note": "TODO",
        "design_ref": "7/C35", "assumptions": E3_ASSUME,
    },
}
