NOT_APPLICABLE = {
    "C16": "pure functions of one byte string/value: no schedule, clock, fault or history for a simulator to choose (DESIGN.md section 8); the stream-facing decoders under torn/flipped bytes are decided in C13/C14/C15/C21",
    "C38": "config.File.Validate is a pure predicate over an in-memory value: no I/O, time, concurrency or state (DESIGN.md section 8)",
}
PENDING = {}
